(* Proofs for property C13 (based integer literals 0x / 0o / 0b, 'N to hex|octal|binary|decimal').

   1. digit_*            one digit: the reader undoes the printer, both letter cases
   2. digits_*           the printed digit string of n: its value is n (reader and positional
                         sum), no leading zero, length = number of digits, fuel 70 suffices
   3. from_radix_*       the literal reader on printed digits (i64 bound)
   4. print_*            item_print of a based number; print then read
   5. convert_*          the rule function number_type_convert
   6. arith_*            based numbers in + - * /: the left type is kept
   7. binary64           as_i64 (fofZ n) = n: a finite family by computation, every n < 2^53
                         from the Floats axioms, every i64 for exact rationals
   8. examples           end to end through the executable pipeline *)
From SC.Model Require Import Base Num Types Config Case Items RuleFns Format Lexer.
From Coq Require Import ZArith Lia.

Ltac Zify.zify_post_hook ::= Z.to_euclidean_division_equations.

(* ------------------------------------------------------------------------------------- *)
(* 0. reference notions, written from the statement                                       *)
(* ------------------------------------------------------------------------------------- *)
(* the value of a character as a digit: '0'..'9', 'a'..'z', 'A'..'Z' (char::to_digit) *)
Definition char_digit (c : N) : option Z :=
  if (N.leb 48 c && N.leb c 57)%bool then Some (Z.of_N c - 48)
  else if (N.leb 97 c && N.leb c 122)%bool then Some (Z.of_N c - 87)
  else if (N.leb 65 c && N.leb c 90)%bool then Some (Z.of_N c - 55)
  else None.

(* positional value of a digit list, most significant first *)
Fixpoint of_digits (b : Z) (ds : list Z) (acc : Z) : Z :=
  match ds with
  | [] => acc
  | d :: r => of_digits b r (acc * b + d)
  end.

Definition is_digit (b d : Z) : Prop := 0 <= d < b.

(* the four bases and their prefixes *)
Definition base_of (t : numtype) : Z :=
  match t with Binary => 2 | Octal => 8 | Hexadecimal => 16 | _ => 10 end.
Definition prefix_of (t : numtype) : str :=
  match t with Binary => s "0b" | Octal => s "0o" | Hexadecimal => s "0x" | _ => [] end.
Definition based (t : numtype) : Prop := t = Binary \/ t = Octal \/ t = Hexadecimal.

(* ------------------------------------------------------------------------------------- *)
(* 1. one digit                                                                           *)
(* ------------------------------------------------------------------------------------- *)
Lemma radix_value_cons b c r acc :
  radix_value b (c :: r) acc =
  match char_digit c with
  | Some v => if v <? b then radix_value b r (acc * b + v) else None
  | None => None
  end.
Proof. reflexivity. Qed.

Lemma digit_read upper d : 0 <= d < 36 -> char_digit (digit_char upper d) = Some d.
Proof.
  intro H. unfold digit_char, char_digit.
  destruct (Z.ltb_spec d 10) as [H10|H10].
  - assert (E1 : N.leb 48 (Z.to_N (48 + d)) = true) by (apply N.leb_le; lia).
    assert (E2 : N.leb (Z.to_N (48 + d)) 57 = true) by (apply N.leb_le; lia).
    rewrite E1, E2. cbn [andb]. f_equal. lia.
  - destruct upper.
    + assert (E1 : N.leb 48 (Z.to_N (55 + d)) = true) by (apply N.leb_le; lia).
      assert (E2 : N.leb (Z.to_N (55 + d)) 57 = false) by (apply N.leb_gt; lia).
      assert (E3 : N.leb 97 (Z.to_N (55 + d)) = false) by (apply N.leb_gt; lia).
      assert (E4 : N.leb 65 (Z.to_N (55 + d)) = true) by (apply N.leb_le; lia).
      assert (E5 : N.leb (Z.to_N (55 + d)) 90 = true) by (apply N.leb_le; lia).
      rewrite E1, E2, E3, E4, E5. cbn [andb]. f_equal. lia.
    + assert (E1 : N.leb 48 (Z.to_N (87 + d)) = true) by (apply N.leb_le; lia).
      assert (E2 : N.leb (Z.to_N (87 + d)) 57 = false) by (apply N.leb_gt; lia).
      assert (E3 : N.leb 97 (Z.to_N (87 + d)) = true) by (apply N.leb_le; lia).
      assert (E4 : N.leb (Z.to_N (87 + d)) 122 = true) by (apply N.leb_le; lia).
      rewrite E1, E2, E3, E4. cbn [andb]. f_equal. lia.
Qed.

(* the letter case does not matter to the reader *)
Lemma digit_case_insensitive d : 0 <= d < 36 ->
  char_digit (digit_char true d) = char_digit (digit_char false d).
Proof. intro H. rewrite !digit_read by assumption. reflexivity. Qed.

(* the characters the printer uses: 0-9 then A-F (upper) or a-f (lower) *)
Lemma digit_char_table :
  map (digit_char true) [0;1;2;3;4;5;6;7;8;9;10;11;12;13;14;15] = s "0123456789ABCDEF" /\
  map (digit_char false) [0;1;2;3;4;5;6;7;8;9;10;11;12;13;14;15] = s "0123456789abcdef".
Proof. split; reflexivity. Qed.

(* ------------------------------------------------------------------------------------- *)
(* 2. the digit string of n                                                               *)
(* ------------------------------------------------------------------------------------- *)
(* reading a string of digit characters is the positional sum *)
Lemma radix_value_digits b upper ds : 2 <= b <= 36 -> Forall (is_digit b) ds ->
  forall acc, radix_value b (map (digit_char upper) ds) acc = Some (of_digits b ds acc).
Proof.
  intros Hb H. induction H as [|d r Hd Hr IH]; intro acc.
  - reflexivity.
  - cbn [map of_digits]. rewrite radix_value_cons. unfold is_digit in Hd.
    rewrite digit_read by lia.
    destruct (Z.ltb_spec d b); [apply IH | lia].
Qed.

Lemma div_bounds b n p : 2 <= b -> b <= n < b * p -> 0 < n / b < p.
Proof.
  intros Hb Hn. split; [apply Z.div_str_pos; lia | apply Z.div_lt_upper_bound; lia].
Qed.

(* the digits the printer produces, as numbers (same recursion as Format.radix_digits) *)
Fixpoint digits_of (fuel : nat) (b n : Z) (acc : list Z) : list Z :=
  match fuel with
  | O => acc
  | S f => let acc' := (n mod b) :: acc in
           if n <? b then acc' else digits_of f b (n / b) acc'
  end.

Lemma radix_digits_map fuel upper b : forall n acc,
  radix_digits fuel upper b n (map (digit_char upper) acc)
  = map (digit_char upper) (digits_of fuel b n acc).
Proof.
  induction fuel as [|f IH]; intros n acc.
  - reflexivity.
  - cbn [radix_digits digits_of]. destruct (n <? b).
    + reflexivity.
    + rewrite <- IH. reflexivity.
Qed.

Lemma digits_of_app fuel b : forall n acc, digits_of fuel b n acc = digits_of fuel b n [] ++ acc.
Proof.
  induction fuel as [|f IH]; intros n acc.
  - reflexivity.
  - cbn [digits_of]. destruct (n <? b).
    + reflexivity.
    + rewrite IH. rewrite (IH _ [n mod b]). rewrite <- app_assoc. reflexivity.
Qed.

Lemma digits_of_Forall fuel b : 2 <= b -> forall n acc, 0 <= n ->
  Forall (is_digit b) acc -> Forall (is_digit b) (digits_of fuel b n acc).
Proof.
  intro Hb. induction fuel as [|f IH]; intros n acc Hn Hacc.
  - assumption.
  - cbn [digits_of].
    assert (Hd : Forall (is_digit b) (n mod b :: acc)).
    { constructor; [unfold is_digit; lia | assumption]. }
    destruct (n <? b); [assumption|]. apply IH; [apply Z.div_pos; lia | assumption].
Qed.

Lemma of_digits_app b x y : forall acc, of_digits b (x ++ y) acc = of_digits b y (of_digits b x acc).
Proof. induction x as [|d r IH]; intro acc; [reflexivity | cbn [app of_digits]; apply IH]. Qed.

(* the fuel suffices when n < b^fuel; then the positional value of the digits is n *)
Lemma digits_of_value b : 2 <= b -> forall fuel n acc a, 0 <= n < b ^ Z.of_nat fuel ->
  of_digits b (digits_of fuel b n acc) a = of_digits b acc (a * b ^ Z.of_nat (length (digits_of fuel b n [])) + n).
Proof.
  intro Hb. induction fuel as [|f IH]; intros n acc a Hn.
  - cbn [digits_of length Z.of_nat] in *. change (b ^ 0) with 1 in *. replace n with 0 by lia.
    f_equal. lia.
  - cbn [digits_of].
    rewrite Nat2Z.inj_succ, Z.pow_succ_r in Hn by lia.
    destruct (Z.ltb_spec n b) as [Hlt|Hge].
    + cbn [of_digits length]. change (Z.of_nat 1) with 1. rewrite Z.pow_1_r.
      f_equal. rewrite Z.mod_small by lia. reflexivity.
    + rewrite IH by (pose proof (div_bounds b n (b ^ Z.of_nat f) Hb ltac:(lia)); lia).
      rewrite (digits_of_app f b (n / b) [n mod b]), app_length. cbn [length of_digits].
      rewrite Nat2Z.inj_add. change (Z.of_nat 1) with 1.
      rewrite Z.pow_add_r, Z.pow_1_r by lia.
      f_equal.
      pose proof (Z.div_mod n b ltac:(lia)) as E.
      set (p := b ^ Z.of_nat (length (digits_of f b (n / b) []))) in *.
      set (q := n / b) in *. set (r := n mod b) in *. clearbody p q r. subst n. ring.
Qed.

(* number of digits: b^(len-1) <= n < b^len for n > 0 *)
Lemma digits_of_length b : 2 <= b -> forall fuel n, 0 < n < b ^ Z.of_nat fuel ->
  b ^ (Z.of_nat (length (digits_of fuel b n [])) - 1) <= n < b ^ Z.of_nat (length (digits_of fuel b n [])).
Proof.
  intro Hb. induction fuel as [|f IH]; intros n Hn.
  - change (b ^ Z.of_nat 0) with 1 in Hn. lia.
  - cbn [digits_of]. rewrite Nat2Z.inj_succ, Z.pow_succ_r in Hn by lia.
    destruct (Z.ltb_spec n b) as [Hlt|Hge].
    + cbn [length]. change (Z.of_nat 1 - 1) with 0. change (Z.of_nat 1) with 1.
      rewrite Z.pow_0_r, Z.pow_1_r. lia.
    + rewrite digits_of_app, app_length. cbn [length]. rewrite Nat2Z.inj_add. change (Z.of_nat 1) with 1.
      assert (Hq : 0 < n / b < b ^ Z.of_nat f) by (apply div_bounds; lia).
      specialize (IH (n / b) Hq).
      set (L := Z.of_nat (length (digits_of f b (n / b) []))) in *.
      assert (HL : 1 <= L).
      { destruct (Z.le_gt_cases 1 L) as [?|Hc]; [assumption|]. exfalso.
        assert (L = 0) by (subst L; lia). rewrite H in IH. change (b ^ 0) with 1 in IH. lia. }
      replace (L + 1 - 1) with (Z.succ (L - 1)) by lia. rewrite Z.pow_succ_r by lia.
      replace (L + 1) with (Z.succ L) by lia. rewrite Z.pow_succ_r by lia.
      set (p1 := b ^ (L - 1)) in *. set (p2 := b ^ L) in *. clearbody p1 p2.
      pose proof (Z.div_mod n b ltac:(lia)). pose proof (Z.mod_pos_bound n b ltac:(lia)). nia.
Qed.

(* no leading zero *)
Lemma digits_of_head b : 2 <= b -> forall fuel n acc, 0 < n < b ^ Z.of_nat fuel ->
  exists d r, 0 < d < b /\ digits_of fuel b n acc = d :: r.
Proof.
  intro Hb. induction fuel as [|f IH]; intros n acc Hn.
  - change (b ^ Z.of_nat 0) with 1 in Hn. lia.
  - cbn [digits_of]. rewrite Nat2Z.inj_succ, Z.pow_succ_r in Hn by lia.
    destruct (Z.ltb_spec n b) as [Hlt|Hge].
    + exists (n mod b), acc. rewrite Z.mod_small by lia. split; [lia | reflexivity].
    + apply IH. apply div_bounds; lia.
Qed.

Lemma digits_of_zero b fuel : 2 <= b -> digits_of (S fuel) b 0 [] = [0].
Proof.
  intro Hb. cbn [digits_of]. destruct (Z.ltb_spec 0 b); [|lia]. rewrite Z.mod_0_l by lia. reflexivity.
Qed.

Lemma pow_fuel_mono b (f : nat) : 2 <= b -> 2 ^ Z.of_nat f <= b ^ Z.of_nat f.
Proof. intro Hb. apply Z.pow_le_mono_l. lia. Qed.

(* ---- the statements about Format.radix_digits ---- *)
Section Digits.
Variable b : Z.
Hypothesis Hb : 2 <= b <= 36.
Variable upper : bool.

Lemma radix_digits_eq fuel n :
  radix_digits fuel upper b n [] = map (digit_char upper) (digits_of fuel b n []).
Proof. exact (radix_digits_map fuel upper b n []). Qed.

(* reading the printed digits gives n back *)
Theorem digits_roundtrip_fuel fuel n : 0 <= n < b ^ Z.of_nat fuel ->
  radix_value b (radix_digits fuel upper b n []) 0 = Some n.
Proof.
  intro Hn. rewrite radix_digits_eq.
  rewrite radix_value_digits; [| exact Hb | apply digits_of_Forall; [lia | lia | constructor]].
  f_equal. rewrite digits_of_value by lia. cbn [of_digits]. lia.
Qed.

(* the fuel of 70 digits covers every 64-bit value in every base *)
Lemma fuel70 n : 0 <= n < 2 ^ 64 -> 0 <= n < b ^ Z.of_nat 70.
Proof.
  intro Hn. split; [lia|].
  apply Z.lt_le_trans with (2 ^ 64); [lia|].
  apply Z.le_trans with (2 ^ Z.of_nat 70); [vm_compute; discriminate | apply pow_fuel_mono; lia].
Qed.

Theorem digits_roundtrip n : 0 <= n < 2 ^ 64 ->
  radix_value b (radix_digits 70 upper b n []) 0 = Some n.
Proof. intro Hn. apply digits_roundtrip_fuel, fuel70, Hn. Qed.

(* the printed string, digit by digit: digits of the base, positional value n, no leading
   zero, as many digits as n needs *)
Theorem digits_shape n : 0 <= n < 2 ^ 64 ->
  exists ds, radix_digits 70 upper b n [] = map (digit_char upper) ds /\
    Forall (is_digit b) ds /\ of_digits b ds 0 = n /\
    (n = 0 -> ds = [0]) /\
    (0 < n -> (exists d r, ds = d :: r /\ 0 < d) /\
              b ^ (Z.of_nat (length ds) - 1) <= n < b ^ Z.of_nat (length ds)).
Proof.
  intro Hn. pose proof (fuel70 n Hn) as Hf.
  exists (digits_of 70 b n []). split; [apply radix_digits_eq|].
  split; [apply digits_of_Forall; [lia | lia | constructor]|].
  split; [rewrite digits_of_value by lia; cbn [of_digits]; lia|].
  split.
  - intro E. subst n. apply digits_of_zero. lia.
  - intro Hpos. split.
    + destruct (digits_of_head b ltac:(lia) 70%nat n [] ltac:(lia)) as [d [r [Hd E]]].
      exists d, r. split; [exact E | lia].
    + apply digits_of_length; lia.
Qed.

End Digits.

(* ------------------------------------------------------------------------------------- *)
(* 3. the literal reader on printed digits                                                *)
(* ------------------------------------------------------------------------------------- *)
Section Generic.
Context {F : Type} {NF : Num F}.

(* i64::from_str_radix: the value must fit an i64 *)
Lemma from_radix_spec b x :
  from_radix b x = match radix_value b x 0 with
                   | Some v => if v <? 2 ^ 63 then Some (fofZ v) else None
                   | None => None
                   end.
Proof. reflexivity. Qed.

Theorem from_radix_printed b upper n : 2 <= b <= 36 -> 0 <= n < 2 ^ 63 ->
  from_radix b (radix_digits 70 upper b n []) = Some (fofZ n).
Proof.
  intros Hb Hn. rewrite from_radix_spec, digits_roundtrip by lia.
  destruct (Z.ltb_spec n (2 ^ 63)); [reflexivity | lia].
Qed.

(* what does not fit an i64 is declined by the based reader (the repaired code skips the
   literal instead of panicking; the text is then left to the other tokenizers) *)
Theorem from_radix_too_big b upper n : 2 <= b <= 36 -> 2 ^ 63 <= n < 2 ^ 64 ->
  from_radix b (radix_digits 70 upper b n []) = None.
Proof.
  intros Hb Hn. rewrite from_radix_spec, digits_roundtrip by lia.
  destruct (Z.ltb_spec n (2 ^ 63)); [lia | reflexivity].
Qed.

(* ------------------------------------------------------------------------------------- *)
(* 4. printing a based number; print then read                                            *)
(* ------------------------------------------------------------------------------------- *)
Definition upper_of (t : numtype) : bool := match t with Hexadecimal => true | _ => false end.

Lemma clampZ_range lo hi z : lo <= hi -> lo <= clampZ lo hi z <= hi.
Proof.
  intro H. unfold clampZ. destruct (Z.ltb_spec z lo); [lia|]. destruct (Z.ltb_spec hi z); lia.
Qed.

Lemma as_i64_range (x : F) : - 2 ^ 63 <= as_i64 x <= 2 ^ 63 - 1.
Proof.
  unfold as_i64, f_as. destruct (fcls x); try lia. apply clampZ_range. lia.
Qed.

(* NumberItem::print for the three based types *)
Theorem print_based cfg lang year (x : F) t : based t ->
  item_print cfg lang year (INumber x t)
  = Ok (prefix_of t ++ radix_digits 70 (upper_of t) (base_of t)
                         (if as_i64 x <? 0 then as_i64 x + 2 ^ 64 else as_i64 x) []).
Proof. intros [E|[E|E]]; subst t; reflexivity. Qed.

Lemma based_base t : based t -> 2 <= base_of t <= 36 /\ In (base_of t) [2; 8; 16].
Proof. intros [E|[E|E]]; subst t; cbn; split; try lia; tauto. Qed.

(* a non-negative value: prefix, then digits that read back as the same integer *)
Theorem print_read cfg lang year (x : F) t : based t -> 0 <= as_i64 x ->
  exists ds,
    item_print cfg lang year (INumber x t) = Ok (prefix_of t ++ ds) /\
    ds = radix_digits 70 (upper_of t) (base_of t) (as_i64 x) [] /\
    radix_value (base_of t) ds 0 = Some (as_i64 x) /\
    from_radix (base_of t) ds = Some (fofZ (as_i64 x)).
Proof.
  intros Ht Hx. pose proof (as_i64_range x) as Hr. pose proof (based_base t Ht) as [Hb _].
  exists (radix_digits 70 (upper_of t) (base_of t) (as_i64 x) []).
  split; [|split; [reflexivity | split]].
  - rewrite print_based by assumption. destruct (Z.ltb_spec (as_i64 x) 0); [lia | reflexivity].
  - apply digits_roundtrip; lia.
  - apply from_radix_printed; lia.
Qed.

(* a negative value prints its 64-bit two's complement; the based reader declines that text *)
Theorem print_negative cfg lang year (x : F) t : based t -> as_i64 x < 0 ->
  exists ds,
    item_print cfg lang year (INumber x t) = Ok (prefix_of t ++ ds) /\
    radix_value (base_of t) ds 0 = Some (as_i64 x + 2 ^ 64) /\
    from_radix (base_of t) ds = None.
Proof.
  intros Ht Hx. pose proof (as_i64_range x) as Hr. pose proof (based_base t Ht) as [Hb _].
  exists (radix_digits 70 (upper_of t) (base_of t) (as_i64 x + 2 ^ 64) []).
  split; [|split].
  - rewrite print_based by assumption. destruct (Z.ltb_spec (as_i64 x) 0); [reflexivity | lia].
  - apply digits_roundtrip; lia.
  - apply from_radix_too_big; lia.
Qed.

(* the integer n held as a number: when the number type represents n exactly (as_i64 (fofZ n)
   = n: every |n| <= 2^53 at binary64, see as_i64_fofZ_family / as_i64_fofZ_Q below), the
   printed literal reads back as that very number *)
Theorem print_read_int cfg lang year n t : based t -> 0 <= n -> as_i64 (fofZ n : F) = n ->
  exists ds,
    item_print cfg lang year (INumber (fofZ n : F) t) = Ok (prefix_of t ++ ds) /\
    ds = radix_digits 70 (upper_of t) (base_of t) n [] /\
    radix_value (base_of t) ds 0 = Some n /\
    from_radix (base_of t) ds = Some (fofZ n : F).
Proof.
  intros Ht Hn E.
  assert (Hx : 0 <= as_i64 (fofZ n : F)) by (rewrite E; exact Hn).
  destruct (print_read cfg lang year (fofZ n : F) t Ht Hx) as [ds [H1 [H2 [H3 H4]]]].
  rewrite E in *. exists ds. auto.
Qed.

(* ------------------------------------------------------------------------------------- *)
(* 5. 'N to hex | hexadecimal | octal | binary | decimal'                                  *)
(* ------------------------------------------------------------------------------------- *)
Definition type_words : list (str * numtype) :=
  [(s "hex", Hexadecimal); (s "hexadecimal", Hexadecimal); (s "octal", Octal);
   (s "binary", Binary); (s "decimal", Decimal)].

Definition type_word (w : str) : option numtype := assoc w type_words.

Lemma get_number_has vs k fs (x : F) : get_number vs k fs = Some x -> assoc_mem k fs = true.
Proof.
  unfold get_number, field_token, assoc_mem. destruct (assoc k fs); [reflexivity | discriminate].
Qed.

Lemma get_text_has (vs : vars F) k fs w : get_text vs k fs = Some w -> assoc_mem k fs = true.
Proof.
  unfold get_text, field_token, assoc_mem. destruct (assoc k fs); [reflexivity | discriminate].
Qed.

(* the rule function: N (a number token or a variable holding a number) is rounded to the
   nearest integer (f64::round) and takes the type the word names; any other word: no result *)
Theorem convert_spec (vs : vars F) fs x w :
  get_number vs (s "number") fs = Some x -> get_text vs (s "type") fs = Some w ->
  number_type_convert vs fs = Ok (option_map (TNumber (fround x)) (type_word w)).
Proof.
  intros Hn Ht. unfold number_type_convert, has.
  rewrite (get_number_has _ _ _ _ Hn), (get_text_has _ _ _ _ Ht). cbn [andb].
  rewrite Hn, Ht. unfold type_word, type_words. cbn [assoc].
  destruct (str_eqb w (s "hex")); [reflexivity|].
  destruct (str_eqb w (s "hexadecimal")); [reflexivity|]. cbn [orb].
  destruct (str_eqb w (s "octal")); [reflexivity|].
  destruct (str_eqb w (s "binary")); [reflexivity|].
  destruct (str_eqb w (s "decimal")); reflexivity.
Qed.

Corollary convert_words (vs : vars F) fs x :
  get_number vs (s "number") fs = Some x ->
  forall w t, In (w, t) type_words -> get_text vs (s "type") fs = Some w ->
  number_type_convert vs fs = Ok (Some (TNumber (fround x) t)).
Proof.
  intros Hn w t Hin Ht. rewrite (convert_spec vs fs x w Hn Ht).
  cbn [type_words In] in Hin.
  repeat (destruct Hin as [E|Hin]; [inversion E; subst; reflexivity|]). contradiction.
Qed.

(* without both fields the rule declines *)
Lemma convert_declines (vs : vars F) fs :
  get_number vs (s "number") fs = None \/ get_text vs (s "type") fs = None ->
  number_type_convert vs fs = Ok None.
Proof.
  intro H. unfold number_type_convert. destruct (has "number" fs && has "type" fs); [|reflexivity].
  destruct H as [H|H]; rewrite H; [reflexivity|]. destruct (get_number vs (s "number") fs); reflexivity.
Qed.

(* ------------------------------------------------------------------------------------- *)
(* 6. arithmetic: a based number is an ordinary number; the result keeps the left type     *)
(* ------------------------------------------------------------------------------------- *)
Theorem arith_left_type (bexec : config F -> str -> res (option F)) cfg (x y : F) t t' op :
  calculate bexec cfg (INumber x t) (INumber y t') op = Ok (Some (INumber (arith op x y) t)).
Proof. reflexivity. Qed.

Theorem arith_ops (x y : F) :
  arith OAdd x y = fadd x y /\ arith OSub x y = fsub x y /\ arith OMul x y = fmul x y /\
  arith ODiv x y = do_division x y.
Proof. repeat split; reflexivity. Qed.

Theorem arith_left_type_ops (bexec : config F -> str -> res (option F)) cfg (x y : F) t t' op :
  calculate bexec cfg (INumber x t) (INumber y t') op
  = Ok (Some (INumber (match op with
                       | OAdd => fadd x y | OSub => fsub x y | OMul => fmul x y
                       | ODiv => do_division x y end) t)).
Proof. rewrite arith_left_type. destruct op; reflexivity. Qed.

End Generic.

(* ------------------------------------------------------------------------------------- *)
(* 7. integers held as numbers: as_i64 (fofZ n) = n                                        *)
(* ------------------------------------------------------------------------------------- *)
From Coq Require Import Floats.
From SC.Model Require Import NumF64 FloatIO Parser Api Run64 Corr.
From SC.Gen Require Import ConfigData.

(* 0 and 2^k - 1, 2^k, 2^k + 1 for k <= kmax *)
Definition pow2_family (kmax : nat) : list Z :=
  0 :: flat_map (fun k => let p := 2 ^ Z.of_nat k in [p - 1; p; p + 1]) (seq 0 (S kmax)).

(* binary64: i64 -> f64 -> i64 is the identity on n, and f64 -> i64 -> f64 on its image *)
Definition int_exact64 (n : Z) : bool :=
  (as_i64 (fofZ n : float) =? n) &&
  (f64_to_bits (fofZ (as_i64 (fofZ n : float))) =? f64_to_bits (fofZ n)).

Lemma int_exact64_family : forallb int_exact64 (pow2_family 52) = true.
Proof. vm_compute. reflexivity. Qed.

Theorem as_i64_fofZ_family n : In n (pow2_family 52) -> as_i64 (fofZ n : float) = n.
Proof.
  intro H. pose proof int_exact64_family as Hall. rewrite forallb_forall in Hall.
  specialize (Hall n H). unfold int_exact64 in Hall. apply andb_true_iff in Hall as [H1 _].
  apply Z.eqb_eq. exact H1.
Qed.

(* so, at binary64, every member of the family prints as prefix + its digits and that text
   reads back as the same float *)
Theorem print_read_family64 cfg lang year n t : based t -> In n (pow2_family 52) ->
  exists ds,
    item_print cfg lang year (INumber (fofZ n : float) t) = Ok (prefix_of t ++ ds) /\
    ds = radix_digits 70 (upper_of t) (base_of t) n [] /\
    radix_value (base_of t) ds 0 = Some n /\
    from_radix (base_of t) ds = Some (fofZ n : float).
Proof.
  intros Ht Hin. apply print_read_int; [assumption | | apply as_i64_fofZ_family; assumption].
  assert (Hpos : forallb (fun z => 0 <=? z) (pow2_family 52) = true) by (vm_compute; reflexivity).
  rewrite forallb_forall in Hpos. apply Z.leb_le, Hpos, Hin.
Qed.

(* above 2^53 an integer is not always a binary64: 2^53 + 1 is held as 2^53 *)
Example above_2_53 : as_i64 (fofZ (2 ^ 53 + 1) : float) = 2 ^ 53.
Proof. vm_compute. reflexivity. Qed.

(* ------------------------------------------------------------------------------------- *)
(* 8. through the whole executable pipeline (regexes, rules, interpreter, formatter)       *)
(* ------------------------------------------------------------------------------------- *)
Definition CK : clock := {| ck_today := 19000; ck_year := 2022 |}.

(* per line: the printed text and the result as a token *)
Definition run (text : str) : list (option (str * option (token float))) :=
  match exec64 CK default_config (s "en") text with
  | Ok r => map (fun l => match l with
                          | Some o => match lo_result o with
                                      | LOk out a => Some (out, ast_as_token a)
                                      | _ => None
                                      end
                          | None => None
                          end) (er_lines r)
  | Panic _ => []
  end.

Definition word_of (t : numtype) : str :=
  match t with Hexadecimal => s "hex" | Octal => s "octal" | Binary => s "binary" | _ => s "decimal" end.

Definition is_num (r : list (option (str * option (token float)))) (out : str) (n : Z) (t : numtype) : bool :=
  match r with
  | [Some (o, Some (TNumber x t'))] =>
    str_eqb o out && (f64_to_bits x =? f64_to_bits (f64_of_Z n)) && numtype_eqb t t'
  | _ => false
  end.

(* 'n to <base>' prints prefix + digits of n; that text alone is the number n of that base and
   prints as itself *)
Definition e2e (t : numtype) (n : Z) : bool :=
  let out := prefix_of t ++ radix_digits 70 (upper_of t) (base_of t) n [] in
  is_num (run (Z_to_str n ++ s " to " ++ word_of t)) out n t && is_num (run out) out n t.

Theorem e2e_family :
  forallb (e2e Hexadecimal) (pow2_family 52) = true /\
  forallb (e2e Octal) (pow2_family 52) = true /\
  forallb (e2e Binary) (pow2_family 20) = true.
Proof. vm_compute. repeat split; reflexivity. Qed.

(* the rule as configured: two patterns (with and without the conversion word), and the word
   group of the pattern holds exactly the words the rule function knows *)
Definition is_some {A} (x : option A) : bool := match x with Some _ => true | None => false end.

Theorem convert_tables :
  option_map (assoc (s "number_type_convert")) (assoc (s "en") d_rule_texts)
  = Some (Some [s "{NUMBER:number} {GROUP:conversion:conversion_group} {GROUP:type:number_type_group}";
                s "{NUMBER:number} {GROUP:type:number_type_group}"]) /\
  forall gs ws, assoc (s "en") d_word_group = Some gs -> assoc (s "number_type_group") gs = Some ws ->
    forallb (fun w => is_some (type_word w)) ws = true /\
    forallb (fun p => mem_str (fst p) ws) type_words = true.
Proof.
  split; [vm_compute; reflexivity|].
  intros gs ws H1 H2. vm_compute in H1. inversion H1; subst gs; clear H1.
  vm_compute in H2. inversion H2; subst ws; clear H2.
  vm_compute. split; reflexivity.
Qed.

Theorem examples :
  run (s "255 to hex") = [Some (s "0xFF", Some (TNumber (f64_of_Z 255) Hexadecimal))] /\
  run (s "0xFF") = [Some (s "0xFF", Some (TNumber (f64_of_Z 255) Hexadecimal))] /\
  run (s "0xff to decimal") = [Some (s "255", Some (TNumber (f64_of_Z 255) Decimal))] /\
  run (s "2147483648 to hex") = [Some (s "0x80000000", Some (TNumber (f64_of_Z 2147483648) Hexadecimal))] /\
  run (s "0x80000000") = [Some (s "0x80000000", Some (TNumber (f64_of_Z 2147483648) Hexadecimal))] /\
  run (s "10 octal") = [Some (s "0o12", Some (TNumber (f64_of_Z 10) Octal))] /\
  run (s "2,5 to binary") = [Some (s "0b11", Some (TNumber (f64_of_Z 3) Binary))] /\
  run (s "0b1111 + 0x10") = [Some (s "0b11111", Some (TNumber (f64_of_Z 31) Binary))] /\
  run (s "0x10 * 0o10") = [Some (s "0x80", Some (TNumber (f64_of_Z 128) Hexadecimal))] /\
  radix_value 16 (s "fF") 0 = Some 255 /\
  radix_digits 70 true 16 (2 ^ 64 - 1) [] = s "FFFFFFFFFFFFFFFF" /\
  from_radix 16 (s "7FFFFFFFFFFFFFFF") = Some (f64_of_Z (2 ^ 63 - 1)) /\
  from_radix (F:=float) 16 (s "8000000000000000") = None.
Proof. vm_compute. repeat split; reflexivity. Qed.

(* REFUTED at the level of whole lines (reported defect of the implementation, reproduced by the
   model): the money regex `[0-9]+[ ]*[a-zA-Z]{2,}` runs before the number regexes, so a hex
   literal in which a digit is followed by a run of letters that is a currency code is read as
   money.  `205 to hex` prints 0xCD, and the line `0xCD` is 0 XCD; likewise 175 = 0xAF (XAF);
   0x1AED (1 AED) is an error.  Codes made of hex letters in config.json: aed bbd cad cdf, and
   xaf xcd right after the leading 0.  The digit-level and item-level theorems above are not
   affected (the digits after the prefix do read back); what fails is the tokenizer's choice. *)
Theorem readback_refuted :
  run (s "205 to hex") = [Some (s "0xCD", Some (TNumber (f64_of_Z 205) Hexadecimal))] /\
  run (s "0xCD") = [Some (s "$0,00", Some (TMoney (f64_of_Z 0) (s "XCD")))] /\
  run (s "175 to hex") = [Some (s "0xAF", Some (TNumber (f64_of_Z 175) Hexadecimal))] /\
  run (s "0xAF") = [Some (s "0,00F", Some (TMoney (f64_of_Z 0) (s "XAF")))] /\
  run (s "6893 to hex") = [Some (s "0x1AED", Some (TNumber (f64_of_Z 6893) Hexadecimal))] /\
  run (s "0x1AED") = [None] /\
  e2e Hexadecimal 205 = false /\ e2e Hexadecimal 175 = false /\ e2e Hexadecimal 6893 = false.
Proof. vm_compute. repeat split; reflexivity. Qed.

(* the class of the defect, as a decidable predicate on a line: no digit is followed by a
   maximal run of two or more letters that read_currency (alias or code, lower-cased) accepts.
   Octal and binary literals are always free of it (their only letter run is the single o / b). *)
Definition is_dec (c : N) : bool := (N.leb 48 c && N.leb c 57)%bool.
Definition is_alpha (c : N) : bool := ((N.leb 97 c && N.leb c 122) || (N.leb 65 c && N.leb c 90))%bool.
Definition run_ok (after_digit : bool) (run : str) : bool :=
  negb (after_digit && Nat.leb 2 (length run) && is_some (read_currency default_config (rev run))).
Fixpoint hcf (x : str) (after_digit : bool) (run : str) : bool :=
  match x with
  | [] => run_ok after_digit run
  | c :: r => if is_alpha c then hcf r after_digit (c :: run)
              else run_ok after_digit run && hcf r (is_dec c) []
  end.
Definition hex_currency_free (x : str) : bool := hcf x false [].
Definition printed_hex (n : Z) : str := s "0x" ++ radix_digits 70 true 16 n [].

Definition small_and_witnesses : list Z :=
  map Z.of_nat (seq 0 1024) ++ [2800; 3281; 6893; 15583; 182997; 5749713; 3005; 64721; 3735928559].

(* on every n < 1024 and on the listed larger values the whole-line round trip holds EXACTLY
   when the printed literal is hex_currency_free *)
Theorem readback_iff_free :
  forallb (fun n => Bool.eqb (e2e Hexadecimal n) (hex_currency_free (printed_hex n))) small_and_witnesses = true.
Proof. vm_compute. reflexivity. Qed.

(* the family of e2e_family is inside the predicate; the refuted witnesses are outside *)
Theorem e2e_family_free : forall n, In n (pow2_family 52) ->
  hex_currency_free (printed_hex n) = true /\ e2e Hexadecimal n = true.
Proof.
  assert (H : forallb (fun n => hex_currency_free (printed_hex n) && e2e Hexadecimal n) (pow2_family 52) = true)
    by (vm_compute; reflexivity).
  intros n Hin. rewrite forallb_forall in H. apply andb_true_iff. exact (H n Hin).
Qed.

Theorem refuted_not_free :
  map (fun n => hex_currency_free (printed_hex n)) [205; 175; 6893] = [false; false; false].
Proof. vm_compute. reflexivity. Qed.

(* ------------------------------------------------------------------------------------- *)
(* 7''. binary64 in general: every 0 <= n < 2^53 is held exactly.  Uses two axioms of Coq's    *)
(* Floats library (the specification of the primitive floats): Prim2SF_SF2Prim and           *)
(* FloatAxioms.eqb_spec.  The family theorems above do not depend on them.                   *)
(* ------------------------------------------------------------------------------------- *)
(* fdiv by 1 *)
Lemma fdiv_loop_one : forall fuel i r q, 0 <= r < 2 ^ (i + 1) -> Z.of_nat fuel = i + 1 ->
  fdiv_loop fuel i 1 r q = (q * 2 ^ (i + 1) + r, 0).
Proof.
  induction fuel as [|f IH]; intros i r q Hr Hf.
  - cbn [fdiv_loop]. assert (i + 1 = 0) by lia. rewrite H in *. change (2 ^ 0) with 1 in *.
    f_equal; lia.
  - cbn [fdiv_loop]. rewrite Nat2Z.inj_succ in Hf.
    assert (Hi : 0 <= i) by lia.
    rewrite Z.shiftl_1_l.
    replace (i + 1) with (Z.succ i) in * by lia. rewrite Z.pow_succ_r in * by lia.
    destruct (Z.leb_spec (2 ^ i) r) as [Hle|Hgt].
    + rewrite IH by (replace (i - 1 + 1) with i by lia; lia).
      replace (i - 1 + 1) with i by lia. rewrite Z.succ_double_spec. f_equal. ring.
    + rewrite IH by (replace (i - 1 + 1) with i by lia; lia).
      replace (i - 1 + 1) with i by lia. rewrite Z.double_spec. f_equal. ring.
Qed.

Lemma fdiv_one a : 0 < a -> fdiv a 1 = (a, 0).
Proof.
  intro Ha. unfold fdiv. destruct (Z.ltb_spec a 1); [lia|].
  change (Z.log2 1) with 0. rewrite Z.sub_0_r.
  pose proof (Z.log2_nonneg a). pose proof (Z.log2_spec a Ha) as [_ Hs].
  rewrite fdiv_loop_one; [f_equal; lia | | lia].
  replace (Z.log2 a + 1) with (Z.succ (Z.log2 a)) by lia. lia.
Qed.

Lemma digits2_size p : SpecFloat.digits2_pos p = Pos.size p.
Proof. induction p; cbn; congruence. Qed.

Lemma log2_size p : Z.pos (Pos.size p) = Z.log2 (Z.pos p) + 1.
Proof. destruct p; cbn; lia. Qed.

Definition norm_m (n : Z) : Z := n * 2 ^ (52 - Z.log2 n).

Lemma norm_m_bounds n : 0 < n < 2 ^ 53 -> 2 ^ 52 <= norm_m n < 2 ^ 53 /\ Z.log2 (norm_m n) = 52.
Proof.
  intro Hn. unfold norm_m. pose proof (Z.log2_spec n ltac:(lia)) as [H1 H2].
  assert (HL : 0 <= Z.log2 n <= 52).
  { split; [apply Z.log2_nonneg|]. apply Z.lt_succ_r. apply Z.log2_lt_pow2; lia. }
  assert (E : Z.log2 (n * 2 ^ (52 - Z.log2 n)) = 52).
  { rewrite Z.log2_mul_pow2 by lia. lia. }
  split; [|exact E].
  assert (Hp : 0 < n * 2 ^ (52 - Z.log2 n)) by (apply Z.mul_pos_pos; [lia | apply Z.pow_pos_nonneg; lia]).
  pose proof (Z.log2_spec _ Hp) as [H3 H4]. rewrite E in H3, H4. exact (conj H3 H4).
Qed.

Lemma f64_of_Z_exact n : 0 < n < 2 ^ 53 ->
  f64_of_Z n = SF2Prim (S754_finite false (Z.to_pos (norm_m n)) (Z.log2 n - 52)).
Proof.
  intro Hn.
  pose proof (norm_m_bounds n Hn) as [Hb HLm].
  assert (HL : 0 <= Z.log2 n <= 52).
  { split; [apply Z.log2_nonneg|]. apply Z.lt_succ_r. apply Z.log2_lt_pow2; lia. }
  unfold f64_of_Z. destruct n as [|p|p]; try lia.
  unfold f64_of_ratio.
  set (n := Z.pos p) in *.
  replace (n <=? 0) with false by (symmetry; apply Z.leb_gt; lia).
  change (1 <=? 0) with false. cbn [orb].
  change (Z.log2 1) with 0. rewrite Z.sub_0_r.
  replace (1026 <? Z.log2 n) with false by (symmetry; apply Z.ltb_ge; lia).
  replace (Z.log2 n <? -1080) with false by (symmetry; apply Z.ltb_ge; lia).
  rewrite Z.max_l by lia.
  replace (0 <=? Z.log2 n - 53) with false by (symmetry; apply Z.leb_gt; lia).
  rewrite Z.shiftl_mul_pow2 by lia.
  replace (- (Z.log2 n - 53)) with (Z.succ (52 - Z.log2 n)) by lia.
  rewrite Z.pow_succ_r by lia.
  replace (n * (2 * 2 ^ (52 - Z.log2 n))) with (2 * norm_m n) by (unfold norm_m; ring).
  rewrite fdiv_one by lia.
  unfold pow2. rewrite Z.shiftl_1_l.
  replace (2 ^ 53 <=? 2 * norm_m n) with true by (symmetry; apply Z.leb_le; lia).
  rewrite Z.div2_div. replace (2 * norm_m n / 2) with (norm_m n) by (rewrite Z.mul_comm, Z.div_mul; lia).
  replace (Z.odd (2 * norm_m n)) with false by (symmetry; rewrite Z.odd_mul; reflexivity).
  change (Z.double 0 ?= Z.double 1) with Lt. cbv iota.
  unfold f64_make.
  destruct (norm_m n) as [|q|q] eqn:Eq; try lia.
  replace (971 <? Z.log2 n - 53 + 1) with false by (symmetry; apply Z.ltb_ge; lia).
  replace (Z.log2 n - 53 + 1 =? 971) with false by (symmetry; apply Z.eqb_neq; lia).
  cbn [orb andb]. replace (Z.log2 n - 53 + 1) with (Z.log2 n - 52) by lia. reflexivity.
Qed.

Lemma valid_norm n : 0 < n < 2 ^ 53 ->
  SpecFloat.valid_binary prec emax (S754_finite false (Z.to_pos (norm_m n)) (Z.log2 n - 52)) = true.
Proof.
  intro Hn. pose proof (norm_m_bounds n Hn) as [Hb HLm].
  assert (HL : 0 <= Z.log2 n <= 52).
  { split; [apply Z.log2_nonneg|]. apply Z.lt_succ_r. apply Z.log2_lt_pow2; lia. }
  unfold SpecFloat.valid_binary, SpecFloat.bounded, SpecFloat.canonical_mantissa, SpecFloat.fexp, SpecFloat.emin.
  rewrite digits2_size, log2_size. rewrite Z2Pos.id by lia. rewrite HLm.
  change prec with 53. change emax with 1024.
  apply andb_true_intro. split.
  - apply Zeq_is_eq_bool. lia.
  - apply Z.leb_le. lia.
Qed.

Theorem Prim2SF_of_Z n : 0 < n < 2 ^ 53 ->
  Prim2SF (f64_of_Z n) = S754_finite false (Z.to_pos (norm_m n)) (Z.log2 n - 52).
Proof.
  intro Hn. rewrite f64_of_Z_exact by assumption. apply Prim2SF_SF2Prim, valid_norm, Hn.
Qed.

Lemma cls_finite x m e : Prim2SF x = S754_finite false m e -> f64_cls x = FFinite.
Proof.
  intro H. unfold f64_cls, PrimFloat.is_nan. rewrite !FloatAxioms.eqb_spec, H.
  change (Prim2SF infinity) with (S754_infinity false).
  change (Prim2SF neg_infinity) with (S754_infinity true).
  unfold SFeqb, SFcompare. rewrite Z.compare_refl, Pos.compare_cont_refl. reflexivity.
Qed.

Theorem as_i64_fofZ_64 n : 0 <= n < 2 ^ 53 -> as_i64 (fofZ n : float) = n.
Proof.
  intro Hn. destruct (Z.eq_dec n 0) as [->|Hz]; [vm_compute; reflexivity|].
  assert (Hp : 0 < n < 2 ^ 53) by lia.
  pose proof (Prim2SF_of_Z n Hp) as HP. pose proof (norm_m_bounds n Hp) as [Hb _].
  assert (HL : 0 <= Z.log2 n <= 52).
  { split; [apply Z.log2_nonneg|]. apply Z.lt_succ_r. apply Z.log2_lt_pow2; lia. }
  unfold as_i64, f_as. cbn [fcls fofZ ftruncZ NumF64].
  rewrite (cls_finite _ _ _ HP).
  unfold f64_truncZ, f64_to_Z_trunc, f64_decode. rewrite HP.
  rewrite Z2Pos.id by lia.
  assert (E : (if 0 <=? Z.log2 n - 52 then Z.shiftl (norm_m n) (Z.log2 n - 52)
               else Z.shiftr (norm_m n) (- (Z.log2 n - 52))) = n).
  { destruct (Z.leb_spec 0 (Z.log2 n - 52)).
    - replace (Z.log2 n - 52) with 0 by lia. rewrite Z.shiftl_0_r. unfold norm_m.
      replace (52 - Z.log2 n) with 0 by lia. change (2 ^ 0) with 1. lia.
    - rewrite Z.shiftr_div_pow2 by lia. unfold norm_m.
      replace (- (Z.log2 n - 52)) with (52 - Z.log2 n) by lia.
      apply Z.div_mul. apply Z.pow_nonzero; lia. }
  rewrite E. unfold clampZ.
  destruct (Z.ltb_spec n (- 2 ^ 63)); [lia|]. destruct (Z.ltb_spec (2 ^ 63 - 1) n); lia.
Qed.

(* so every integer below 2^53 prints as prefix + its digits and that text reads back as the
   same float *)
Theorem print_read_64 cfg lang year n t : based t -> 0 <= n < 2 ^ 53 ->
  exists ds,
    item_print cfg lang year (INumber (fofZ n : float) t) = Ok (prefix_of t ++ ds) /\
    ds = radix_digits 70 (upper_of t) (base_of t) n [] /\
    radix_value (base_of t) ds 0 = Some n /\
    from_radix (base_of t) ds = Some (fofZ n : float).
Proof.
  intros Ht Hn. apply print_read_int; [assumption | lia | apply as_i64_fofZ_64; assumption].
Qed.

(* ------------------------------------------------------------------------------------- *)
(* 7'. exact rationals: every i64 is held exactly                                          *)
(* ------------------------------------------------------------------------------------- *)
From Coq Require Import QArith Qcanon.
From SC.Model Require Import NumQ.
Local Open Scope Z_scope.

Lemma Qred_inject_Z n : Qred (inject_Z n) = inject_Z n.
Proof.
  unfold Qred, inject_Z.
  pose proof (Z.ggcd_gcd n 1) as Hg. pose proof (Z.ggcd_correct_divisors n 1) as Hd.
  destruct (Z.ggcd n 1) as [g [aa bb]]. cbn [fst snd] in *.
  rewrite Z.gcd_1_r in Hg. subst g. destruct Hd as [H1 H2].
  rewrite Z.mul_1_l in H1, H2. subst aa bb. reflexivity.
Qed.

Lemma truncZ_ofZ_Q n : ftruncZ (fofZ n : Qc) = n.
Proof.
  cbn [ftruncZ fofZ NumQ]. unfold Qc_truncZ, Qc_of_Z. cbn [this Q2Qc].
  rewrite Qred_inject_Z. cbn [inject_Z]. apply Z.quot_1_r.
Qed.

Theorem as_i64_fofZ_Q (n : Z) : (- 2 ^ 63 <= n <= 2 ^ 63 - 1)%Z -> as_i64 (fofZ n : Qc) = n.
Proof.
  intro H. unfold as_i64, f_as. cbn [fcls NumQ]. rewrite truncZ_ofZ_Q.
  unfold clampZ. destruct (Z.ltb_spec n (- 2 ^ 63)); [lia|]. destruct (Z.ltb_spec (2 ^ 63 - 1) n); lia.
Qed.

Theorem print_read_Q cfg lang year (n : Z) t : based t -> (0 <= n < 2 ^ 63)%Z ->
  exists ds,
    item_print cfg lang year (INumber (fofZ n : Qc) t) = Ok (prefix_of t ++ ds) /\
    ds = radix_digits 70 (upper_of t) (base_of t) n [] /\
    radix_value (base_of t) ds 0 = Some n /\
    from_radix (base_of t) ds = Some (fofZ n : Qc).
Proof.
  intros Ht Hn. apply print_read_int; [assumption | lia | apply as_i64_fofZ_Q; lia].
Qed.
