(* SC.Proofs.C02_EndToEnd — from TEXT to VALUE for the simplest arithmetic shape, unbounded:
   the line  d1 blanks op blanks d2  (any non-empty digit strings, any numbers of blanks) under the
   regenerated default configuration evaluates to  x1 op x2  by the usual rules.

     lexer        Proofs/RegexNeeds.v   shape_regex_tokinizer (induction over the regex matcher)
     rewriting    here: variable substitution, unit recognition and the rule loop leave the three tokens
                  alone (computed on OPEN float values, positions, texts and highlighting)
     parse/eval   Proofs/C02_Parser.v   c02_token_level with e := Bin o (Lit x1) (Lit x2)
     session      Proofs/SessionLemmas.v execute_spec

   No axioms. *)
From Coq Require Import Floats List NArith ZArith Bool Lia.
From SC.Model Require Import Base Num NumF64 Types Config Case Chrono UiTokens Regex Rx Match Post Parser Items Interp
     RuleFns Rules Format Lexer Api Run64.
From SC.Spec Require Import Expr.
From SC.Proofs Require Import RegexLemmas RegexNeeds C02_Parser SessionLemmas.
Import ListNotations.

(* ------------------------------------------------------------------------------------- *)
(* 1. the rewriting stages on [number; operator; number], everything else open             *)
(* ------------------------------------------------------------------------------------- *)
Definition tinfo (b e : N) (t : token float) (txt : str) : token_info float :=
  {| ti_start := b; ti_end := e; ti_ty := Some t; ti_text := txt; ti_active := true |}.

Definition three (b1 e1 b2 e2 b3 e3 : N) (t1 t2 t3 : str) (x1 x2 : float) (o : bop) : list (token_info float) :=
  [tinfo b1 e1 (TNumber x1 Decimal) t1; tinfo b2 e2 (TOperator (bop_char o)) t2; tinfo b3 e3 (TNumber x2 Decimal) t3].

Definition LANGS : list str := [s "en"; s "tr"].

Section Rewriting.
Variable bexec : config float -> str -> res (option float).
Variable ny : Z.
Variable line : str.
Variables b1 e1 b2 e2 b3 e3 : N.
Variables t1 t2 t3 : str.
Variables x1 x2 : float.
Variable ui : list uitoken.

Let infos o := three b1 e1 b2 e2 b3 e3 t1 t2 t3 x1 x2 o.

Lemma subst_three o :
  update_token_variables line [] {| ts_infos := infos o; ts_ui := ui |}
  = Ok (Some {| ts_infos := infos o; ts_ui := ui_sort ui |}).
Proof. destruct o; vm_compute; reflexivity. Qed.

Lemma dyn_three o ui' :
  dyn_loop (loop_fuel {| ts_infos := infos o; ts_ui := ui' |}) line default_config [] {| ts_infos := infos o; ts_ui := ui' |}
  = Ok (Some {| ts_infos := infos o; ts_ui := ui' |}).
Proof. destruct o; vm_compute; reflexivity. Qed.

Lemma rule_three o ui' lang : In lang LANGS ->
  rule_tokinizer bexec ny (loop_fuel {| ts_infos := infos o; ts_ui := ui' |}) line default_config lang []
                 {| ts_infos := infos o; ts_ui := ui' |}
  = Ok (Some {| ts_infos := infos o; ts_ui := ui' |}).
Proof. intros [<-|[<-|[]]]; destruct o; vm_compute; reflexivity. Qed.
End Rewriting.

(* any language: a language without rule table has no rule loop at all *)
Lemma rule_three_any bexec ny line b1 e1 b2 e2 b3 e3 t1 t2 t3 x1 x2 o ui' lang :
  let st := {| ts_infos := three b1 e1 b2 e2 b3 e3 t1 t2 t3 x1 x2 o; ts_ui := ui' |} in
  rule_tokinizer bexec ny (loop_fuel st) line default_config lang [] st = Ok (Some st).
Proof.
  intros st. destruct (assoc lang (cf_rules default_config)) as [rules|] eqn:E.
  - apply rule_three. apply assoc_In in E. apply (in_map fst) in E. cbn [fst] in E.
    vm_compute in E. destruct E as [<-|[<-|[]]]; [left|right; left]; reflexivity.
  - unfold rule_tokinizer, lang_rules. rewrite E. reflexivity.
Qed.

(* ------------------------------------------------------------------------------------- *)
(* 2. the value and its printed form                                                       *)
(* ------------------------------------------------------------------------------------- *)
(* the usual rules on two operands; division by zero gives 0 (Interp.do_division) *)
Definition arith_of (o : bop) (x y : float) : float :=
  match o with BAdd => fadd x y | BSub => fsub x y | BMul => fmul x y | BDiv => do_division x y end.

Lemma arith_of_denote o x y : arith_of o x y = denote (Bin o (Lit x) (Lit y)).
Proof. destruct o; reflexivity. Qed.

(* Format.format_number never fails: the printed number of a configuration *)
Definition number_text (cfg : config float) (v : float) : str :=
  match format_number v (cf_tsep cfg) (cf_dsep cfg) (nc_digits (cf_number cfg)) (nc_rm (cf_number cfg))
                      (nc_round (cf_number cfg)) with
  | Ok r => r
  | Panic _ => []
  end.

Lemma format_result_number (cfg : config float) lang ny v :
  format_result cfg lang ny (AItem (INumber v Decimal)) = Ok (number_text cfg v).
Proof.
  unfold format_result, item_print, number_text, format_number. cbv zeta.
  match goal with |- (if ?c then _ else _) = _ => destruct c end; reflexivity.
Qed.

(* ------------------------------------------------------------------------------------- *)
(* 3. from the text to the value                                                           *)
(* ------------------------------------------------------------------------------------- *)
Section EndToEnd.
Local Open Scope N_scope.
Variable ck : clock.
Variable lang : str.
Variables (d1 d2 : list N) (k1 k2 : nat) (o : bop) (x1 x2 : float).
Hypothesis Hne1 : d1 <> [].
Hypothesis Hne2 : d2 <> [].
Hypothesis Hd1 : forallb digit d1 = true.
Hypothesis Hd2 : forallb digit d2 = true.
Hypothesis Hop : shape_ok (bop_char o) k2.
Hypothesis Hx1 : read_decimal default_config d1 = Some x1.
Hypothesis Hx2 : read_decimal default_config d2 = Some x2.

Let line := shape_line d1 k1 (bop_char o) k2 d2.
Let n1 := N.of_nat (length d1).
Let n2 := N.of_nat (length d2).
Let pop := n1 + N.of_nat k1.
Let p2 := pop + 1 + N.of_nat k2.
Let infos := three 0 n1 pop (pop + 1) p2 (p2 + n2) d1 [bop_char o] d2 x1 x2 o.
Let toks : list (token float) := [TNumber x1 Decimal; TOperator (bop_char o); TNumber x2 Decimal].

Lemma line_over : over ARITH line.
Proof. apply L_over; assumption. Qed.

Lemma line_nonempty : line <> [].
Proof. unfold line, shape_line. destruct d1; [congruence|discriminate]. Qed.

(* the lexer (month parser, regex parsers, aliases): exactly the three token_infos *)
Lemma lexed_three :
  exists ui,
    (do st1 <- language_tokinizer LX default_config lang line empty_state;
     do st2 <- regex_tokinizer LX (ck_today ck) default_config lang line st1;
     alias_tokinizer LX (ck_today ck) default_config lang st2)
    = Ok {| ts_infos := infos; ts_ui := ui |}.
Proof.
  unfold language_tokinizer. rewrite (arith_line_no_month default_config lang line empty_state line_over).
  cbn [bind]. change (cleanup (F:=float) empty_state) with (empty_state (F:=float)).
  destruct (shape_regex_tokinizer (ck_today ck) default_config lang d1 d2 k1 k2 (bop_char o) x1 x2
              Hne1 Hne2 Hd1 Hd2 Hop Hx1 Hx2) as (ui & E).
  fold line in E. rewrite E. cbn [bind]. exists ui.
  rewrite (alias_tokinizer_id LX (ck_today ck) ARITH default_config lang _ LX_alias_table); [reflexivity|].
  cbn [ts_infos]. repeat constructor; cbn [mk_tok ti_text].
  - apply digits_over, Hd1.
  - apply over_cons. split; [|reflexivity]. destruct o; reflexivity.
  - apply digits_over, Hd2.
Qed.

Lemma tokinize_three :
  exists ui, tokinize LX ck default_config lang [] line = Ok ({| ts_infos := infos; ts_ui := ui |}, toks).
Proof.
  destruct lexed_three as (ui & E). exists (ui_sort ui). unfold tokinize.
  destruct (language_tokinizer LX default_config lang line empty_state) as [st1|] eqn:E1; cbn [bind] in E |- *; [|discriminate].
  destruct (regex_tokinizer LX (ck_today ck) default_config lang line st1) as [st2|] eqn:E2; cbn [bind] in E |- *; [|discriminate].
  rewrite E. cbn [bind]. unfold infos.
  rewrite subst_three. cbn [unfuel bind].
  rewrite dyn_three. cbn [unfuel bind].
  rewrite (rule_three_any (basic_execute LX ck) (ck_year ck)). cbn [unfuel bind ts_infos].
  destruct o; reflexivity.
Qed.

(* C02 end to end: the line evaluates to x1 op x2, printed by the configuration; the session stays empty *)
Theorem shape_execute_text :
  exists ui,
    execute_text LX ck default_config lang [] line
    = Ok (Some {| lo_result := LOk (number_text default_config (arith_of o x1 x2))
                                   (AItem (INumber (arith_of o x1 x2) Decimal));
                  lo_ui := ui; lo_tokens := toks; lo_infos := infos |}, []).
Proof.
  destruct tokinize_three as (ui & E). exists ui. unfold execute_text.
  destruct line as [|c0 l0] eqn:El; [exact (False_ind _ (line_nonempty El))|]. rewrite <- El in *.
  rewrite E. cbn [bind ts_infos ts_ui]. unfold infos at 1, three at 1.
  assert (Hw : Expr.wf (Bin o (Lit x1) (Lit x2)) = true) by (destruct o; reflexivity).
  assert (Hi : find_index info_is_eq infos = None) by (destruct o; reflexivity).
  assert (Hm : missing_token_adder (token_cleaner infos (toks_of (Bin o (Lit x1) (Lit x2)))) = toks)
    by (destruct o; reflexivity).
  destruct (c02_token_level (basic_execute LX ck) default_config [] infos (Bin o (Lit x1) (Lit x2)) Hw Hi) as [Hp He].
  cbv zeta in Hp. rewrite Hm in Hp. rewrite Hp.
  change (ast_of (Bin o (Lit x1) (Lit x2))) with (ABinary (AItem (INumber x1 Decimal)) (bop_char o) (AItem (INumber x2 Decimal))) in He |- *.
  rewrite He. cbn [bind]. rewrite <- arith_of_denote. rewrite format_result_number. reflexivity.
Qed.

End EndToEnd.

(* ------------------------------------------------------------------------------------- *)
(* 4. SmartCalc::execute on the one-line text                                              *)
(* ------------------------------------------------------------------------------------- *)
Lemma split_lines_arith x : forall cur, over ARITH x -> split_lines x cur = [rev cur ++ x].
Proof.
  induction x as [|c r IH]; intros cur Hx.
  - cbn [split_lines]. rewrite app_nil_r. reflexivity.
  - apply over_cons in Hx as [Hc Hr]. apply in_alpha_In in Hc.
    assert (E : split_lines (c :: r) cur = split_lines r (c :: cur)).
    { cbn [ARITH In] in Hc.
      repeat (destruct Hc as [<-|Hc]; [reflexivity|]). destruct Hc. }
    rewrite E, (IH (c :: cur) Hr). cbn [rev]. rewrite <- app_assoc. reflexivity.
Qed.

Theorem shape_execute ck lang d1 d2 k1 k2 o x1 x2 :
  d1 <> [] -> d2 <> [] -> forallb digit d1 = true -> forallb digit d2 = true -> shape_ok (bop_char o) k2 ->
  read_decimal default_config d1 = Some x1 -> read_decimal default_config d2 = Some x2 ->
  exists obs,
    execute LX ck default_config lang (shape_line d1 k1 (bop_char o) k2 d2)
    = Ok {| er_status := true; er_lines := [Some obs] |} /\
    lo_result obs = LOk (number_text default_config (arith_of o x1 x2)) (AItem (INumber (arith_of o x1 x2) Decimal)) /\
    lo_tokens obs = [TNumber x1 Decimal; TOperator (bop_char o); TNumber x2 Decimal].
Proof.
  intros Hne1 Hne2 Hd1 Hd2 Hop Hx1 Hx2.
  destruct (shape_execute_text ck lang d1 d2 k1 k2 o x1 x2 Hne1 Hne2 Hd1 Hd2 Hop Hx1 Hx2) as (ui & E).
  eexists. split; [|split].
  - rewrite execute_spec. rewrite (split_lines_arith _ [] (L_over d1 d2 k1 k2 (bop_char o) Hd1 Hd2 Hop)).
    cbn [rev app eval_lines]. rewrite E. reflexivity.
  - reflexivity.
  - reflexivity.
Qed.

(* ------------------------------------------------------------------------------------- *)
(* 5. non-vacuity: the hypotheses hold for concrete literals; the values are the binary64 ones *)
(* ------------------------------------------------------------------------------------- *)
Local Open Scope float_scope.

Example e2e_reads :
  read_decimal default_config (s "12") = Some 12 /\ read_decimal default_config (s "30") = Some 30 /\
  read_decimal default_config (s "7") = Some 7 /\ read_decimal default_config (s "0") = Some 0.
Proof. vm_compute. repeat split. Qed.

(* "12   +  30" = 42, "7/0" = 0 (division by zero), with the printed text *)
Example e2e_instances ck :
  (exists obs, execute LX ck default_config (s "en") (s "12   +  30") = Ok {| er_status := true; er_lines := [Some obs] |}
               /\ lo_result obs = LOk (s "42") (AItem (INumber 42 Decimal))) /\
  (exists obs, execute LX ck default_config (s "tr") (s "7/0") = Ok {| er_status := true; er_lines := [Some obs] |}
               /\ lo_result obs = LOk (s "0") (AItem (INumber 0 Decimal))).
Proof.
  destruct e2e_reads as (R12 & R30 & R7 & R0).
  split.
  - assert (Hop : shape_ok (bop_char BAdd) 2) by (right; split; [left; reflexivity|repeat constructor]).
    destruct (shape_execute ck (s "en") (s "12") (s "30") 3 2 BAdd 12 30
                ltac:(discriminate) ltac:(discriminate) eq_refl eq_refl Hop R12 R30) as (obs & E & R & _).
    exists obs. split; [exact E|]. rewrite R. vm_compute. reflexivity.
  - assert (Hop : shape_ok (bop_char BDiv) 0) by (left; right; reflexivity).
    destruct (shape_execute ck (s "tr") (s "7") (s "0") 0 0 BDiv 7 0
                ltac:(discriminate) ltac:(discriminate) eq_refl eq_refl Hop R7 R0) as (obs & E & R & _).
    exists obs. split; [exact E|]. rewrite R. vm_compute. reflexivity.
Qed.

Print Assumptions subst_three.
Print Assumptions dyn_three.
Print Assumptions rule_three_any.
Print Assumptions tokinize_three.
Print Assumptions shape_execute_text.
Print Assumptions shape_execute.
Print Assumptions e2e_instances.
