(* SC.Proofs.C02_Examples -- concrete binary64 instances for property C02.

   (1) The inputs that used to violate the property (three or more opening parentheses,
       "x = ((...))", a detached sign after an operator, a sign in front of a parenthesis,
       operands written next to each other around parentheses, a leading sign) now satisfy
       it: each token list goes through token_generator / token_cleaner /
       missing_token_adder / parse / execute_ast and yields the expected tree and value.
   (2) Non-vacuity: concrete non-trivial trees satisfy every hypothesis of c02_token_level
       and of c02_sign_parse / c02_sign_eval; the computed values are given.

   All facts are closed computations (vm_compute) or instances of the general theorems.
   No axioms. *)
From Coq Require Import Floats.
From SC.Model Require Import Base Num Types Config Case Post Parser Items Interp NumF64.
From SC.Spec Require Import Expr.
From SC.Proofs Require Import C02_Parser.

Local Open Scope float_scope.

(* ------------------------------------------------------------------ *)
(* 0. The token-level pipeline of Api.v on a given token list          *)
(* ------------------------------------------------------------------ *)

Definition num (x : float) : token float := TNumber x Decimal.
Definition LP : token float := TOperator OP_LP.
Definition RP : token float := TOperator OP_RP.
Definition PLUS : token float := TOperator OP_PLUS.
Definition MINUS : token float := TOperator OP_MINUS.
Definition MUL : token float := TOperator OP_MUL.
Definition DIV : token float := TOperator OP_DIV.
Definition EQ : token float := TOperator OP_EQ.

(* token infos (all active) whose types are the given tokens *)
Definition infos_of (ts : list (token float)) : list (token_info float) :=
  map (fun t => {| ti_start := 0; ti_end := 0; ti_ty := Some t; ti_text := []; ti_active := true |}) ts.

Definition post (ts : list (token float)) : list (token float) :=
  let infos := infos_of ts in
  missing_token_adder (token_cleaner infos (token_generator infos)).

(* [reads_as ts a v]: the tokens ts are post-processed and parsed to the tree a (the session
   stays empty), and a evaluates to the number v *)
Definition reads_as (ts : list (token float)) (a : ast float) (v : float) : Prop :=
  parse (post ts) [] = (PAst a, []) /\
  forall bexec cfg, execute_ast bexec cfg [] a = Ok (IOk (AItem (INumber v Decimal)), []).

Ltac compute_reads := split; [vm_compute; reflexivity | intros bexec cfg; vm_compute; reflexivity].

(* ------------------------------------------------------------------ *)
(* 1. Formerly failing inputs                                          *)
(* ------------------------------------------------------------------ *)

(* "(((1+2)))"  (was: "Parentheses not closed") *)
Definition e_paren3 : expr float := Par (Par (Par (Bin BAdd (Lit 1) (Lit 2)))).

Lemma e_paren3_toks :
  toks_of e_paren3 = [LP; LP; LP; num 1; PLUS; num 2; RP; RP; RP] /\ wf e_paren3 = true.
Proof. split; reflexivity. Qed.

Lemma e_paren3_post : post (toks_of e_paren3) = toks_of e_paren3.
Proof. vm_compute. reflexivity. Qed.

Theorem ex_paren3 : reads_as [LP; LP; LP; num 1; PLUS; num 2; RP; RP; RP] (ast_of e_paren3) 3.
Proof. compute_reads. Qed.

(* four deep, inside a product: "2*((((3))))" *)
Definition e_paren4_inner : expr float := Bin BMul (Lit 2) (Par (Par (Par (Par (Lit 3))))).
Theorem ex_paren4_inner : reads_as (toks_of e_paren4_inner) (ast_of e_paren4_inner) 6.
Proof. compute_reads. Qed.

(* "x = ((1+2))"  (was: "Parentheses not closed") *)
Definition e_paren2 : expr float := Par (Par (Bin BAdd (Lit 1) (Lit 2))).
Definition a_paren2 : list (token float) := assign_toks (s "x") e_paren2.

Lemma a_paren2_toks :
  a_paren2 = [TText (s "x"); EQ; LP; LP; num 1; PLUS; num 2; RP; RP].
Proof. reflexivity. Qed.

Theorem ex_assign_paren2 :
  let vs1 : vars float := [] in
  let vs2 := [(s "x", {| v_tokens := [TText (s "x")]; v_data := AItem (INumber 3 Decimal) |})] in
  post a_paren2 = a_paren2 /\
  parse (post a_paren2) [] = (PAst (AAssignment (s "x") [TText (s "x")] (ast_of e_paren2)), vs1) /\
  forall bexec cfg,
    execute_ast bexec cfg vs1 (AAssignment (s "x") [TText (s "x")] (ast_of e_paren2))
    = Ok (IOk (AItem (INumber 3 Decimal)), vs2).
Proof.
  cbv zeta. split; [vm_compute; reflexivity|].
  split; [vm_compute; reflexivity | intros bexec cfg; vm_compute; reflexivity].
Qed.

(* "3 * - 5 + 2" = -13  (was -15) *)
Definition s_mul_neg : sexpr float := SBin BAdd (SBin BMul (SLit 3) (SNeg true (SLit 5))) (SLit 2).

Lemma s_mul_neg_toks :
  stoks_of s_mul_neg = [num 3; MUL; MINUS; num 5; PLUS; num 2] /\ swf s_mul_neg = true.
Proof. split; reflexivity. Qed.

Theorem ex_mul_neg :
  reads_as [num 3; MUL; MINUS; num 5; PLUS; num 2] (sast_of s_mul_neg) (-13) /\
  sdenote s_mul_neg = -13.
Proof. split; [compute_reads | vm_compute; reflexivity]. Qed.

(* "2 * -(3)" = -6  (was an error) *)
Definition s_neg_paren : sexpr float := SBin BMul (SLit 2) (SNeg true (SPar (SLit 3))).

Lemma s_neg_paren_toks :
  stoks_of s_neg_paren = [num 2; MUL; MINUS; LP; num 3; RP] /\ swf s_neg_paren = true.
Proof. split; reflexivity. Qed.

Theorem ex_neg_paren :
  reads_as [num 2; MUL; MINUS; LP; num 3; RP] (sast_of s_neg_paren) (-6) /\
  sast_of s_neg_paren
  = ABinary (AItem (INumber 2 Decimal)) OP_MUL (APrefixUnary OP_MINUS (AItem (INumber 3 Decimal))).
Proof. split; [compute_reads | reflexivity]. Qed.

(* "(3) -2", the tokens being  ( 3 ) -2  with the signed literal -2:  3 + -2 = 1  (was 3) *)
Definition e_par_signed : expr float := Bin BAdd (Par (Lit 3)) (Lit (-2)).

Lemma e_par_signed_elided : elided [LP; num 3; RP; num (-2)] (toks_of e_par_signed).
Proof.
  apply el_keep, el_keep. apply el_drop; [reflexivity|reflexivity|]. apply elided_refl.
Qed.

Theorem ex_par_signed : reads_as [LP; num 3; RP; num (-2)] (ast_of e_par_signed) 1.
Proof. compute_reads. Qed.

(* "(1)(2)" = 3  (the second operand was dropped) *)
Definition e_par_par : expr float := Bin BAdd (Par (Lit 1)) (Par (Lit 2)).

Lemma e_par_par_elided : elided [LP; num 1; RP; LP; num 2; RP] (toks_of e_par_par).
Proof.
  apply el_keep, el_keep. apply el_drop; [reflexivity|reflexivity|]. apply elided_refl.
Qed.

Theorem ex_par_par : reads_as [LP; num 1; RP; LP; num 2; RP] (ast_of e_par_par) 3.
Proof. compute_reads. Qed.

(* "2 (3)" = 5 *)
Definition e_num_par : expr float := Bin BAdd (Lit 2) (Par (Lit 3)).

Lemma e_num_par_elided : elided [num 2; LP; num 3; RP] (toks_of e_num_par).
Proof. apply el_drop; [reflexivity|reflexivity|]. apply elided_refl. Qed.

Theorem ex_num_par : reads_as [num 2; LP; num 3; RP] (ast_of e_num_par) 5.
Proof. compute_reads. Qed.

(* "1 2 (3)" = 6 *)
Definition e_num_num_par : expr float := Bin BAdd (Bin BAdd (Lit 1) (Lit 2)) (Par (Lit 3)).

Lemma e_num_num_par_elided : elided [num 1; num 2; LP; num 3; RP] (toks_of e_num_num_par).
Proof.
  apply el_drop; [reflexivity|reflexivity|]. apply el_drop; [reflexivity|reflexivity|].
  apply elided_refl.
Qed.

Theorem ex_num_num_par : reads_as [num 1; num 2; LP; num 3; RP] (ast_of e_num_num_par) 6.
Proof. compute_reads. Qed.

(* "(1) 2" = 3 *)
Definition e_par_num : expr float := Bin BAdd (Par (Lit 1)) (Lit 2).
Theorem ex_par_num : reads_as [LP; num 1; RP; num 2] (ast_of e_par_num) 3.
Proof. compute_reads. Qed.

(* "- 5 + 2" = -3: a 0 is supplied, the line is read as 0 - 5 + 2 *)
Definition e_5_plus_2 : expr float := Bin BAdd (Lit 5) (Lit 2).

Lemma lead_5_plus_2 :
  lead true e_5_plus_2 = Bin BAdd (Bin BSub (Lit 0) (Lit 5)) (Lit 2) /\
  post [MINUS; num 5; PLUS; num 2] = [num 0; MINUS; num 5; PLUS; num 2].
Proof. split; vm_compute; reflexivity. Qed.

Theorem ex_leading_minus : reads_as [MINUS; num 5; PLUS; num 2] (ast_of (lead true e_5_plus_2)) (-3).
Proof. compute_reads. Qed.

(* "-(3)" at the start of the line: 0 - (3) = -3  (was an error) *)
Theorem ex_leading_minus_paren :
  reads_as [MINUS; LP; num 3; RP] (ast_of (lead true (Par (Lit 3)))) (-3).
Proof. compute_reads. Qed.

(* all of them *)
Theorem c02_repaired_examples :
  (* (((1+2))) *)
  reads_as [LP; LP; LP; num 1; PLUS; num 2; RP; RP; RP] (ast_of e_paren3) 3 /\
  (* x = ((1+2)) *)
  (let vs1 : vars float := [] in
   let vs2 := [(s "x", {| v_tokens := [TText (s "x")]; v_data := AItem (INumber 3 Decimal) |})] in
   post a_paren2 = a_paren2 /\
   parse (post a_paren2) [] = (PAst (AAssignment (s "x") [TText (s "x")] (ast_of e_paren2)), vs1) /\
   forall bexec cfg,
     execute_ast bexec cfg vs1 (AAssignment (s "x") [TText (s "x")] (ast_of e_paren2))
     = Ok (IOk (AItem (INumber 3 Decimal)), vs2)) /\
  (* 3 * - 5 + 2 *)
  reads_as [num 3; MUL; MINUS; num 5; PLUS; num 2] (sast_of s_mul_neg) (-13) /\
  (* 2 * -(3) *)
  reads_as [num 2; MUL; MINUS; LP; num 3; RP] (sast_of s_neg_paren) (-6) /\
  (* (3) -2 *)
  reads_as [LP; num 3; RP; num (-2)] (ast_of e_par_signed) 1 /\
  (* (1)(2) *)
  reads_as [LP; num 1; RP; LP; num 2; RP] (ast_of e_par_par) 3 /\
  (* 2 (3) *)
  reads_as [num 2; LP; num 3; RP] (ast_of e_num_par) 5 /\
  (* 1 2 (3) *)
  reads_as [num 1; num 2; LP; num 3; RP] (ast_of e_num_num_par) 6 /\
  (* - 5 + 2 *)
  reads_as [MINUS; num 5; PLUS; num 2] (ast_of (lead true e_5_plus_2)) (-3).
Proof.
  split; [exact ex_paren3|]. split; [exact ex_assign_paren2|].
  split; [exact (proj1 ex_mul_neg)|]. split; [exact (proj1 ex_neg_paren)|].
  split; [exact ex_par_signed|]. split; [exact ex_par_par|]. split; [exact ex_num_par|].
  split; [exact ex_num_num_par|exact ex_leading_minus].
Qed.

(* the same examples as instances of the general theorems (empty session, no '=' in infos) *)
Theorem c02_repaired_examples_by_theorem : forall bexec cfg,
  (parse (missing_token_adder (token_cleaner [] (toks_of e_paren3))) [] = (PAst (ast_of e_paren3), []) /\
   execute_ast bexec cfg [] (ast_of e_paren3) = Ok (IOk (AItem (INumber 3 Decimal)), [])) /\
  (parse (missing_token_adder [LP; num 3; RP; num (-2)]) [] = (PAst (ast_of e_par_signed), []) /\
   execute_ast bexec cfg [] (ast_of e_par_signed) = Ok (IOk (AItem (INumber 1 Decimal)), [])) /\
  (parse (missing_token_adder [LP; num 1; RP; LP; num 2; RP]) [] = (PAst (ast_of e_par_par), []) /\
   execute_ast bexec cfg [] (ast_of e_par_par) = Ok (IOk (AItem (INumber 3 Decimal)), [])) /\
  (parse (missing_token_adder [num 2; LP; num 3; RP]) [] = (PAst (ast_of e_num_par), []) /\
   execute_ast bexec cfg [] (ast_of e_num_par) = Ok (IOk (AItem (INumber 5 Decimal)), [])) /\
  (parse (missing_token_adder [num 1; num 2; LP; num 3; RP]) [] = (PAst (ast_of e_num_num_par), []) /\
   execute_ast bexec cfg [] (ast_of e_num_num_par) = Ok (IOk (AItem (INumber 6 Decimal)), [])) /\
  (parse (missing_token_adder (TOperator (sign_char true) :: toks_of e_5_plus_2)) []
   = (PAst (ast_of (lead true e_5_plus_2)), []) /\
   execute_ast bexec cfg [] (ast_of (lead true e_5_plus_2)) = Ok (IOk (AItem (INumber (-3) Decimal)), [])).
Proof.
  intros bexec cfg.
  split; [exact (c02_token_level bexec cfg [] [] e_paren3 eq_refl eq_refl)|].
  split; [exact (c02_juxtaposition_level bexec cfg [] e_par_signed _ eq_refl e_par_signed_elided)|].
  split; [exact (c02_juxtaposition_level bexec cfg [] e_par_par _ eq_refl e_par_par_elided)|].
  split; [exact (c02_juxtaposition_level bexec cfg [] e_num_par _ eq_refl e_num_par_elided)|].
  split; [exact (c02_juxtaposition_level bexec cfg [] e_num_num_par _ eq_refl e_num_num_par_elided)|].
  exact (c02_leading_sign_level bexec cfg [] e_5_plus_2 true eq_refl).
Qed.

(* ------------------------------------------------------------------ *)
(* 2. Non-vacuity of c02_token_level                                   *)
(* ------------------------------------------------------------------ *)

(* (1+2*(3-4/(5+6)))*7-8/(2*(1+1))+9/((2-2))*3 *)
Definition e_big : expr float :=
  Bin BAdd
    (Bin BSub
       (Bin BMul
          (Par (Bin BAdd (Lit 1)
                         (Bin BMul (Lit 2)
                                   (Par (Bin BSub (Lit 3)
                                                  (Bin BDiv (Lit 4) (Par (Bin BAdd (Lit 5) (Lit 6)))))))))
          (Lit 7))
       (Bin BDiv (Lit 8) (Par (Bin BMul (Lit 2) (Par (Bin BAdd (Lit 1) (Lit 1)))))))
    (Bin BMul (Bin BDiv (Lit 9) (Par (Par (Bin BSub (Lit 2) (Lit 2))))) (Lit 3)).

Lemma e_big_wf : wf e_big = true.
Proof. vm_compute. reflexivity. Qed.

Lemma e_big_size : length (toks_of e_big) = 43%nat /\ cost (inj e_big) = 197%nat /\
                   parse_fuel (toks_of e_big) = 540%nat.
Proof. vm_compute. repeat split; reflexivity. Qed.

(* printed 41.909090909090907 (the exact quotient is 461/11 = 41.90909...; the division by
   zero 9/((2-2)) yields 0) *)
Definition v_big : float := 0x1.4f45d1745d174p+5.

Lemma e_big_value : denote e_big = v_big.
Proof. vm_compute. reflexivity. Qed.

(* instance of the general theorem *)
Theorem c02_nonvacuous : forall bexec cfg vs infos,
  find_index info_is_eq infos = None ->
  wf e_big = true /\
  parse (missing_token_adder (token_cleaner infos (toks_of e_big))) vs = (PAst (ast_of e_big), vs) /\
  execute_ast bexec cfg vs (ast_of e_big) = Ok (IOk (AItem (INumber v_big Decimal)), vs).
Proof.
  intros bexec cfg vs infos Hinf. split; [exact e_big_wf|].
  rewrite <- e_big_value.
  exact (c02_token_level bexec cfg vs infos e_big e_big_wf Hinf).
Qed.

(* and the same by direct computation (through token_generator, empty session) *)
Theorem c02_nonvacuous_computed : reads_as (toks_of e_big) (ast_of e_big) v_big.
Proof. compute_reads. Qed.

(* division by zero yields 0 (do_division), also at the specification level: 1/(2-2) *)
Definition e_div0 : expr float := Bin BDiv (Lit 1) (Par (Bin BSub (Lit 2) (Lit 2))).
Lemma e_div0_value : wf e_div0 = true /\ denote e_div0 = 0.
Proof. vm_compute. split; reflexivity. Qed.

(* parenthesise: 2*(3+4) given as the bare tree *)
Definition e_bare : expr float := Bin BMul (Lit 2) (Bin BAdd (Lit 3) (Lit 4)).
Lemma e_bare_parenthesise :
  wf e_bare = false /\ parenthesise e_bare = Bin BMul (Lit 2) (Par (Bin BAdd (Lit 3) (Lit 4))) /\
  denote e_bare = 14.
Proof. vm_compute. repeat split; reflexivity. Qed.

(* ------------------------------------------------------------------ *)
(* 3. Non-vacuity of c02_sign_parse / c02_sign_eval                    *)
(* ------------------------------------------------------------------ *)

(* 3 * - 5 + 2 / -(4 - 6) - (1 + + 2) * -(0 + - 0.5)
   (signs in front of literals and of parentheses, '-' and '+', after each of + - * /) *)
Definition s_big : sexpr float :=
  SBin BSub
    (SBin BAdd
       (SBin BMul (SLit 3) (SNeg true (SLit 5)))
       (SBin BDiv (SLit 2) (SNeg true (SPar (SBin BSub (SLit 4) (SLit 6))))))
    (SBin BMul
       (SPar (SBin BAdd (SLit 1) (SNeg false (SLit 2))))
       (SNeg true (SPar (SBin BAdd (SLit 0) (SNeg true (SLit 0.5)))))).

Lemma s_big_hyps : swf s_big = true /\ not_neg s_big = true /\ length (stoks_of s_big) = 28%nat.
Proof. vm_compute. repeat split; reflexivity. Qed.

(* -15 + 2/2 - 3*0.5 = -15.5 *)
Lemma s_big_value : sdenote s_big = -15.5.
Proof. vm_compute. reflexivity. Qed.

Theorem c02_sign_nonvacuous : forall bexec cfg vs,
  swf s_big = true /\
  missing_token_adder (stoks_of s_big) = stoks_of s_big /\
  parse_level (parse_fuel (stoks_of s_big)) LAddSub (stoks_of s_big) = (PAst (sast_of s_big), []) /\
  execute_ast bexec cfg vs (sast_of s_big) = Ok (IOk (AItem (INumber (-15.5) Decimal)), vs).
Proof.
  intros bexec cfg vs. destruct s_big_hyps as (Hwf & _ & _).
  split; [exact Hwf|].
  destruct (c02_sign_parse s_big Hwf I) as [H1 H2].
  split; [exact H1|]. split; [exact H2|].
  rewrite <- s_big_value. exact (c02_sign_eval bexec cfg vs s_big Hwf).
Qed.

Theorem c02_sign_nonvacuous_computed : reads_as (stoks_of s_big) (sast_of s_big) (-15.5).
Proof. compute_reads. Qed.

(* a sign at the very start is not in operand position: the tokenizer supplies a 0 and the
   tree is the subtraction from 0, not the sign prefix ("- 5" : 0 - 5) *)
Lemma top_neg_example :
  post (stoks_of (SNeg true (SLit 5))) = [num 0; MINUS; num 5] /\
  reads_as [MINUS; num 5] (ast_of (Bin BSub (Lit 0) (Lit 5))) (-5).
Proof. split; [vm_compute; reflexivity|compute_reads]. Qed.

(* juxtaposition of numbers: "1 2 3.5" is 6.5 *)
Lemma juxtaposition_example :
  missing_token_adder (nums [1; 2; 3.5]) =
  [num 1; PLUS; num 2; PLUS; num 3.5]
  /\ fold_left fadd [2; 3.5] 1 = 6.5.
Proof. vm_compute. split; reflexivity. Qed.

(* Print Assumptions lists only Coq's primitive binary64 / 63-bit integer types and
   operations (kernel primitives, shown as "Axioms" by Coq 8.16); nothing else is assumed. *)
Print Assumptions c02_repaired_examples.
Print Assumptions c02_repaired_examples_by_theorem.
Print Assumptions c02_nonvacuous.
Print Assumptions c02_nonvacuous_computed.
Print Assumptions c02_sign_nonvacuous.
Print Assumptions c02_sign_nonvacuous_computed.
Print Assumptions e_big_value.
Print Assumptions s_big_value.
