(* Property C01, rewrite-loop part: the three rewrite loops of the tokenizer (variable
   substitution, unit recognition, rule loop) terminate within the fuel the model gives them,
   i.e. the out-of-fuel outcome [Ok None] of [subst_loop] / [dyn_loop] / [rule_loop] (turned
   into [Panic SITE_OUT_OF_FUEL] by [Api.unfuel]; it stands for a hang of the implementation)
   is unreachable.

   Measures.
   - rule loop and unit loop: mu := number of Active typed token_infos.  [find_match] returns a
     range [fm_start, fm_target) that contains exactly [fm_rule_idx] active typed tokens; when the
     match is complete ([fm_total = fm_rule_idx = length pat]) [replace_match] deactivates the
     whole range and inserts ONE active typed token: mu' = mu - length pat + 1.  With every
     pattern of length >= 2 every firing strictly lowers mu, so fuel mu + 1 suffices.
   - variable substitution: nv := number of token_infos whose type is not a Variable.  Every
     substitution replaces size >= 1 tokens, none of which is a Variable (hypothesis [vars_ok]:
     no token of any variable's name matches a Variable token), by one Variable token.

   Side conditions on the regenerated configuration are finite-table checks (vm_compute).
   A ONE-token API pattern whose rule returns a token that matches the pattern again does not
   terminate: [c01_single_token_rule_loops] (every fuel is exhausted), confirmed on the crate
   (the harness watchdog reports a hang).  Polymorphic in the number algebra except for the
   statements about [default_config].  No axioms. *)
From Coq Require Import Floats Arith Lia.
From SC.Model Require Import Base Num NumF64 Types Config Case Match UiTokens Post Items RuleFns Rules
     Lexer Api Run64 Corr.

Local Open Scope nat_scope.

(* ====================================================================================== *)
Section WithNum.
Context {F : Type} {NF : Num F}.
Variable bexec : config F -> str -> res (option F).
Variable now_year : Z.

Notation tis := (list (token_info F)).

(* ---------- small list facts ---------- *)
Lemma insert_at_app {A} (a l : list A) (x : A) : insert_at (length a) x (a ++ l) = a ++ x :: l.
Proof. induction a as [|y a IH]; cbn [length insert_at app]; [destruct l; reflexivity|f_equal; exact IH]. Qed.

Lemma firstn_len_app {A} (a l : list A) : firstn (length a) (a ++ l) = a.
Proof. induction a as [|y a IH]; cbn [length firstn app]; [reflexivity|f_equal; exact IH]. Qed.

Lemma skipn_len_app {A} (a l : list A) : skipn (length a) (a ++ l) = l.
Proof. induction a as [|y a IH]; cbn [length skipn app]; [reflexivity|exact IH]. Qed.

Lemma nth_opt_some_lt {A} (l : list A) n x : nth_opt l n = Some x -> n < length l.
Proof.
  revert n. induction l as [|y l IH]; intros [|n] H; cbn [nth_opt length] in *; try discriminate; try lia.
  apply IH in H. lia.
Qed.

Lemma assoc_in {A} k (l : list (str * A)) v : assoc k l = Some v -> exists k', In (k', v) l.
Proof.
  induction l as [|[k' v'] r IH]; cbn [assoc]; [discriminate|].
  destruct (str_eqb k k').
  - intro H. inversion H; subst. exists k'. left. reflexivity.
  - intro H. destruct (IH H) as [k2 Hin]. exists k2. right. exact Hin.
Qed.

(* ---------- the measure of the rule and unit loops ---------- *)
Definition at_tok (t : token_info F) : bool :=
  ti_active t && match ti_ty t with Some _ => true | None => false end.

Fixpoint mu (l : tis) : nat :=
  match l with
  | [] => 0
  | t :: r => (if at_tok t then 1 else 0) + mu r
  end.

Lemma mu_app a b : mu (a ++ b) = mu a + mu b.
Proof. induction a as [|t a IH]; cbn [app mu]; [reflexivity|rewrite IH; lia]. Qed.

Lemma mu_le_length l : mu l <= length l.
Proof. induction l as [|t l IH]; cbn [mu length]; [lia|destruct (at_tok t); lia]. Qed.

Lemma mu_removed b : mu (map set_removed b) = 0.
Proof. induction b as [|t b IH]; cbn [map mu]; [reflexivity|]. unfold at_tok at 1. cbn [set_removed ti_active andb]. exact IH. Qed.

(* [seg full start target n]: the range [start, target) of [full] holds exactly n active typed tokens *)
Definition seg (full : tis) (start target n : nat) : Prop :=
  exists a b c, full = a ++ b ++ c /\ length a = start /\ length a + length b = target /\ mu b = n.

(* ---------- find_match_loop: the invariant, over absolute positions ---------- *)
Lemma find_match_loop_seg vs pat full : forall tokens a b rule_idx start target fs ri st tg fs',
  full = a ++ b ++ tokens -> length a = start -> length a + length b = target -> mu b = rule_idx ->
  find_match_loop vs pat tokens rule_idx start target fs = Ok (ri, st, tg, fs') ->
  seg full st tg ri.
Proof.
  induction tokens as [|t rest IH]; intros a b rule_idx start target fs ri st tg fs' Hfull Ha Hb Hmu H;
    cbn [find_match_loop] in H.
  - inversion H; subst. exists a, b, []. auto.
  - (* appending a token that does not count *)
    assert (Hskip : at_tok t = false -> forall fs0,
              find_match_loop vs pat rest rule_idx start (S target) fs0 = Ok (ri, st, tg, fs') -> seg full st tg ri).
    { intros Hat fs0 H0. apply (IH a (b ++ [t]) rule_idx start (S target) fs0 ri st tg fs'); try assumption.
      - rewrite Hfull, <- app_assoc. reflexivity.
      - rewrite app_length. cbn [length]. lia.
      - rewrite mu_app. cbn [mu]. rewrite Hat. lia. }
    assert (Hstop : at_tok t = false -> seg full start (S target) rule_idx).
    { intro Hat. exists a, (b ++ [t]), rest. repeat split.
      - rewrite Hfull, <- app_assoc. reflexivity.
      - exact Ha.
      - rewrite app_length. cbn [length]. lia.
      - rewrite mu_app. cbn [mu]. rewrite Hat. lia. }
    destruct (ti_active t) eqn:Ea; cbn [negb] in H.
    2:{ apply (Hskip ltac:(unfold at_tok; rewrite Ea; reflexivity) fs H). }
    destruct (ti_ty t) as [ty|] eqn:Et.
    + assert (Hat : at_tok t = true) by (unfold at_tok; rewrite Ea, Et; reflexivity).
      destruct (nth_opt pat rule_idx) as [p|]; [|discriminate].
      set (same := match ty with TVariable v => variable_compare vs p (var_value vs v) | _ => info_eq t p end) in H.
      destruct same.
      * (* the token matches: the range grows by a counted token *)
        destruct (Nat.eqb (length pat) (S rule_idx)).
        -- inversion H; subst. exists a, (b ++ [t]), rest. repeat split.
           ++ rewrite <- app_assoc. reflexivity.
           ++ rewrite app_length. cbn [length]. lia.
           ++ rewrite mu_app. cbn [mu]. rewrite Hat. lia.
        -- eapply (IH a (b ++ [t])); [| | | |exact H]; try assumption.
           ++ rewrite Hfull, <- app_assoc. reflexivity.
           ++ rewrite app_length. cbn [length]. lia.
           ++ rewrite mu_app. cbn [mu]. rewrite Hat. lia.
      * (* mismatch: the range restarts, empty, after this token *)
        destruct (Nat.eqb (length pat) 0).
        -- inversion H; subst. exists (a ++ b ++ [t]), [], rest. repeat split.
           ++ rewrite <- !app_assoc. reflexivity.
           ++ rewrite !app_length. cbn [length]. lia.
           ++ rewrite !app_length. cbn [length]. lia.
        -- eapply (IH (a ++ b ++ [t]) []); [| | | |exact H].
           ++ rewrite Hfull, <- !app_assoc. reflexivity.
           ++ rewrite !app_length. cbn [length]. lia.
           ++ rewrite !app_length. cbn [length]. lia.
           ++ reflexivity.
    + assert (Hat : at_tok t = false) by (unfold at_tok; rewrite Ea, Et; reflexivity).
      destruct (Nat.eqb (length pat) rule_idx).
      * inversion H; subst. apply Hstop. exact Hat.
      * apply (Hskip Hat fs H).
Qed.

Lemma find_match_seg vs pat tokens m : find_match vs pat tokens = Ok m ->
  fm_total m = length pat /\ seg tokens (fm_start m) (fm_target m) (fm_rule_idx m).
Proof.
  unfold find_match. intro H.
  destruct (find_match_loop vs pat tokens 0 0 0 []) as [[[[ri st] tg] fs]|site] eqn:E; cbn [bind] in H; [|discriminate].
  inversion H; subst. cbn [fm_total fm_start fm_target fm_rule_idx]. split; [reflexivity|].
  apply (find_match_loop_seg vs pat tokens tokens [] [] 0 0 0 [] ri st tg fs); auto.
Qed.

(* ---------- mark_removed / replace_match ---------- *)
Lemma mark_removed_out (c : tis) from to : forall idx, to <= idx -> mark_removed c from to idx = c.
Proof.
  induction c as [|t c IH]; intros idx Hle; cbn [mark_removed]; [reflexivity|].
  destruct (Nat.ltb_spec idx to); [lia|]. rewrite andb_false_r. f_equal. apply IH. lia.
Qed.

Lemma mark_removed_in (b c : tis) from to : forall idx, from <= idx -> idx + length b = to ->
  mark_removed (b ++ c) from to idx = map set_removed b ++ c.
Proof.
  induction b as [|t b IH]; intros idx Hle Hto; cbn [app map length] in *.
  - apply mark_removed_out. lia.
  - cbn [mark_removed]. destruct (Nat.leb_spec from idx); [|lia]. destruct (Nat.ltb_spec idx to); [|lia].
    cbn [andb]. f_equal. apply IH; lia.
Qed.

Lemma mark_removed_seg (a b c : tis) from to : forall idx, idx + length a = from -> from + length b = to ->
  mark_removed (a ++ b ++ c) from to idx = a ++ map set_removed b ++ c.
Proof.
  induction a as [|t a IH]; intros idx Hfrom Hto; cbn [app length] in *.
  - apply mark_removed_in; lia.
  - cbn [mark_removed]. destruct (Nat.leb_spec from idx); [lia|]. cbn [andb]. f_equal. apply IH; lia.
Qed.

(* a firing replaces the counted range by one counted token *)
Lemma replace_match_mu (l : tis) m tok l' :
  seg l (fm_start m) (fm_target m) (fm_rule_idx m) ->
  replace_match l m tok = Ok l' -> mu l' + fm_rule_idx m = mu l + 1.
Proof.
  intros (a & b & c & -> & Ha & Hb & Hmu) H. unfold replace_match in H.
  destruct (nth_opt (a ++ b ++ c) (fm_start m)) as [first|]; [|discriminate].
  destruct (nth_opt (a ++ b ++ c) (Nat.pred (fm_target m))) as [last|]; [|discriminate].
  destruct (Nat.eqb (fm_target m) 0); [discriminate|].
  inversion H; subst l'; clear H.
  rewrite (mark_removed_seg a b c (fm_start m) (fm_target m) 0) by lia.
  rewrite <- Ha, insert_at_app. rewrite !mu_app. cbn [mu]. rewrite !mu_app, mu_removed.
  unfold at_tok at 1. cbn [ti_active ti_ty andb]. lia.
Qed.

Definition pat_ok (p : tis) : Prop := 2 <= length p.

Lemma fire_lowers_mu vs pat (l : tis) m tok l' :
  pat_ok pat -> find_match vs pat l = Ok m -> fm_total m = fm_rule_idx m ->
  replace_match l m tok = Ok l' -> mu l' < mu l.
Proof.
  intros Hp Hm Hfull Hr. destruct (find_match_seg _ _ _ _ Hm) as [Ht Hseg].
  pose proof (replace_match_mu l m tok l' Hseg Hr) as E. unfold pat_ok in Hp. lia.
Qed.

(* exact form: mu' = mu - length pat + 1 *)
Lemma fire_mu_exact vs pat (l : tis) m tok l' :
  find_match vs pat l = Ok m -> fm_total m = fm_rule_idx m ->
  replace_match l m tok = Ok l' -> mu l' + length pat = mu l + 1.
Proof.
  intros Hm Hfull Hr. destruct (find_match_seg _ _ _ _ Hm) as [Ht Hseg].
  pose proof (replace_match_mu l m tok l' Hseg Hr) as E. lia.
Qed.

(* ---------- the rule loop ---------- *)
Definition rule_ok (r : rule F) : Prop := Forall pat_ok (rule_patterns r).

Lemma rule_try_patterns_mu line cfg lang vs r : forall pats st st',
  Forall pat_ok pats ->
  rule_try_patterns bexec now_year line cfg lang vs r pats st = Ok (Some st') ->
  mu (ts_infos st') < mu (ts_infos st).
Proof.
  induction pats as [|pat rest IH]; intros st st' Hok H; cbn [rule_try_patterns] in H; [discriminate|].
  inversion Hok as [|? ? Hp Hrest]; subst.
  destruct (find_match vs pat (ts_infos st)) as [m|site] eqn:Em; cbn [bind] in H; [|discriminate].
  destruct (Nat.eqb_spec (fm_total m) (fm_rule_idx m)) as [Hfull|Hne]; [|apply (IH st st' Hrest H)].
  destruct r as [fname ps|ps ar].
  - destruct (call_rule bexec now_year cfg lang vs fname (fm_fields m)) as [[tok|]|site]; cbn [bind] in H;
      [|apply (IH st st' Hrest H)|discriminate].
    destruct (nth_opt (ts_infos st) (fm_start m)); [|discriminate].
    destruct (nth_opt (ts_infos st) (Nat.pred (fm_target m))); [|discriminate].
    destruct (ui_type_field line (ts_ui st) (fm_fields m)) as [ui'|site]; cbn [bind] in H; [|discriminate].
    destruct (replace_match (ts_infos st) m tok) as [infos'|site] eqn:Er; cbn [bind] in H; [|discriminate].
    inversion H; subst st'. cbn [ts_infos]. exact (fire_lowers_mu vs pat _ m tok infos' Hp Em Hfull Er).
  - destruct (api_call cfg ar (fm_fields m)) as [tok|]; [|apply (IH st st' Hrest H)].
    destruct (nth_opt (ts_infos st) (fm_start m)); [|discriminate].
    destruct (nth_opt (ts_infos st) (Nat.pred (fm_target m))); [|discriminate].
    destruct (api_ui_fields line (ts_ui st) (fm_fields m)) as [ui'|site]; cbn [bind] in H; [|discriminate].
    destruct (replace_match (ts_infos st) m tok) as [infos'|site] eqn:Er; cbn [bind] in H; [|discriminate].
    inversion H; subst st'. cbn [ts_infos]. exact (fire_lowers_mu vs pat _ m tok infos' Hp Em Hfull Er).
Qed.

(* a sweep either leaves the state and the flag alone, or raises the flag and lowers mu *)
Lemma rule_sweep_mu line cfg lang vs : forall rules st fired st' fired',
  Forall rule_ok rules ->
  rule_sweep bexec now_year line cfg lang vs rules st fired = Ok (st', fired') ->
  (st' = st /\ fired' = fired) \/ (fired' = true /\ mu (ts_infos st') < mu (ts_infos st)).
Proof.
  induction rules as [|r rest IH]; intros st fired st' fired' Hok H; cbn [rule_sweep] in H.
  - inversion H; subst. left. auto.
  - inversion Hok as [|? ? Hr Hrest]; subst.
    destruct (rule_try_patterns bexec now_year line cfg lang vs r (rule_patterns r) st) as [[st1|]|site] eqn:Et;
      cbn [bind] in H; [| |discriminate].
    + pose proof (rule_try_patterns_mu line cfg lang vs r _ st st1 Hr Et) as Hlt.
      destruct (IH st1 true st' fired' Hrest H) as [[-> ->]|[-> Hlt2]]; right; split; try reflexivity; lia.
    + exact (IH st fired st' fired' Hrest H).
Qed.

Theorem rule_loop_terminates line cfg lang vs rules :
  Forall rule_ok rules ->
  forall fuel st, mu (ts_infos st) < fuel ->
  rule_loop bexec now_year fuel line cfg lang vs rules st <> Ok None.
Proof.
  intros Hok fuel. induction fuel as [|f IH]; intros st Hlt; [lia|]. cbn [rule_loop].
  destruct (rule_sweep bexec now_year line cfg lang vs rules st false) as [[st' fired]|site] eqn:Es;
    cbn [bind]; [|discriminate].
  destruct fired; [|discriminate].
  apply IH. destruct (rule_sweep_mu line cfg lang vs rules st false st' true Hok Es) as [[_ Hf]|[_ Hm]];
    [discriminate|lia].
Qed.

(* the rule table of a configuration *)
Definition cfg_rules_ok (cfg : config F) : Prop :=
  Forall (fun lr : str * list (rule F) => Forall rule_ok (snd lr)) (cf_rules cfg).

Theorem rule_tokinizer_terminates line cfg lang vs :
  cfg_rules_ok cfg ->
  forall fuel st, mu (ts_infos st) < fuel ->
  rule_tokinizer bexec now_year fuel line cfg lang vs st <> Ok None.
Proof.
  intros Hok fuel st Hlt. unfold rule_tokinizer, lang_rules.
  destruct (assoc lang (cf_rules cfg)) as [rules|] eqn:E; [|discriminate].
  apply rule_loop_terminates; [|exact Hlt].
  destruct (assoc_in _ _ _ E) as [k Hin]. unfold cfg_rules_ok in Hok. rewrite Forall_forall in Hok.
  exact (Hok _ Hin).
Qed.

(* ---------- the unit loop ---------- *)
Definition unit_ok (d : dyntype F) : Prop := Forall pat_ok (dt_parse d).

Lemma dyn_try_patterns_mu line vs d : forall pats st st',
  Forall pat_ok pats ->
  dyn_try_patterns line vs d pats st = Ok (Some st') ->
  mu (ts_infos st') < mu (ts_infos st).
Proof.
  induction pats as [|pat rest IH]; intros st st' Hok H; cbn [dyn_try_patterns] in H; [discriminate|].
  inversion Hok as [|? ? Hp Hrest]; subst.
  destruct (find_match vs pat (ts_infos st)) as [m|site] eqn:Em; cbn [bind] in H; [|discriminate].
  destruct (Nat.eqb_spec (fm_total m) (fm_rule_idx m)) as [Hfull|Hne]; [|apply (IH st st' Hrest H)].
  destruct (nth_opt (ts_infos st) (fm_start m)); [|discriminate].
  destruct (nth_opt (ts_infos st) (Nat.pred (fm_target m))); [|discriminate].
  destruct (Nat.eqb (fm_target m) 0); [discriminate|].
  destruct (get_number vs (s "value") (fm_fields m)) as [value|]; [|discriminate].
  destruct (ui_type_field line (ts_ui st) (fm_fields m)) as [ui'|site]; cbn [bind] in H; [|discriminate].
  destruct (replace_match (ts_infos st) m (TDynamicType value (uref d))) as [infos'|site] eqn:Er;
    cbn [bind] in H; [|discriminate].
  inversion H; subst st'. cbn [ts_infos]. exact (fire_lowers_mu vs pat _ m _ infos' Hp Em Hfull Er).
Qed.

Lemma dyn_sweep_mu line vs : forall units st fired st' fired',
  Forall unit_ok units ->
  dyn_sweep_units line vs units st fired = Ok (st', fired') ->
  (st' = st /\ fired' = fired) \/ (fired' = true /\ mu (ts_infos st') < mu (ts_infos st)).
Proof.
  induction units as [|d rest IH]; intros st fired st' fired' Hok H; cbn [dyn_sweep_units] in H.
  - inversion H; subst. left. auto.
  - inversion Hok as [|? ? Hd Hrest]; subst.
    destruct (dyn_try_patterns line vs d (dt_parse d) st) as [[st1|]|site] eqn:Et; cbn [bind] in H; [| |discriminate].
    + pose proof (dyn_try_patterns_mu line vs d _ st st1 Hd Et) as Hlt.
      destruct (IH st1 true st' fired' Hrest H) as [[-> ->]|[-> Hlt2]]; right; split; try reflexivity; lia.
    + exact (IH st fired st' fired' Hrest H).
Qed.

Definition cfg_units_ok (cfg : config F) : Prop := Forall unit_ok (all_units cfg).

Theorem dyn_loop_terminates line cfg vs :
  cfg_units_ok cfg ->
  forall fuel st, mu (ts_infos st) < fuel ->
  dyn_loop fuel line cfg vs st <> Ok None.
Proof.
  intros Hok fuel. induction fuel as [|f IH]; intros st Hlt; [lia|]. cbn [dyn_loop].
  destruct (dyn_sweep_units line vs (all_units cfg) st false) as [[st' fired]|site] eqn:Es; cbn [bind]; [|discriminate].
  destruct fired; [|discriminate].
  apply IH. destruct (dyn_sweep_mu line vs (all_units cfg) st false st' true Hok Es) as [[_ Hf]|[_ Hm]];
    [discriminate|lia].
Qed.

(* ---------- variable substitution ---------- *)
Definition is_var_info (t : token_info F) : bool :=
  match ti_ty t with Some (TVariable _) => true | _ => false end.

Fixpoint nv (l : tis) : nat :=
  match l with
  | [] => 0
  | t :: r => (if is_var_info t then 0 else 1) + nv r
  end.

Lemma nv_app a b : nv (a ++ b) = nv a + nv b.
Proof. induction a as [|t a IH]; cbn [app nv]; [reflexivity|rewrite IH; lia]. Qed.

Lemma nv_le_length l : nv l <= length l.
Proof. induction l as [|t l IH]; cbn [nv length]; [lia|destruct (is_var_info t); lia]. Qed.

(* the hypothesis on the session variables: no token of a variable's name matches a Variable
   token_info.  Where it comes from: Parser.parse_assignment stores [firstn end_ tokens], the
   tokens left of the first '=' (at index >= 1); update_token_variables substitutes only right
   of that '=' ([start_index = S i]), so those tokens are never Variable tokens; a Field token
   typed by the user ("{NUMBER_GROUP:a} = 1") is a TypeGroup field only for the groups of
   cf_type_group, none of which lists "VARIABLE" ([default_type_groups_no_variable] below). *)
Definition tok_no_var (p : token F) : Prop := forall n, token_match (TVariable n) p = false.
Definition vars_ok (vs : vars F) : Prop :=
  Forall (fun nv : str * varinfo F => Forall tok_no_var (v_tokens (snd nv))) vs.

(* a syntactic sufficient condition *)
Definition tok_no_var_b (p : token F) : bool :=
  match p with
  | TVariable _ => false
  | TField (FTypeGroup types _) => negb (mem_str (s "VARIABLE") types)
  | _ => true
  end.

Lemma tok_no_var_b_ok p : tok_no_var_b p = true -> tok_no_var p.
Proof.
  intros H n. destruct p as [ | | | | | |f| | | | | | | ]; try reflexivity; try discriminate.
  cbn [token_match]. destruct f; try reflexivity.
  cbn [token_field_compare token_type_name]. cbn [tok_no_var_b] in H.
  destruct (mem_str (s "VARIABLE") types); [discriminate|reflexivity].
Qed.

Lemma var_info_no_match t p : tok_no_var p -> info_eq_token t p = true -> is_var_info t = false.
Proof.
  intros Hp H. unfold info_eq_token in H. unfold is_var_info.
  destruct (ti_ty t) as [l|]; [|reflexivity].
  destruct l; try reflexivity. rewrite (Hp name) in H. discriminate.
Qed.

(* a matched prefix consists of [length pat] non-Variable tokens *)
Lemma prefix_match_split (pat : list (token F)) : Forall tok_no_var pat -> forall tokens,
  prefix_match tokens pat = true ->
  exists m rest, tokens = m ++ rest /\ length m = length pat /\ nv m = length pat.
Proof.
  induction pat as [|p pat IH]; intros Hok tokens H.
  - exists [], tokens. auto.
  - inversion Hok as [|? ? Hp Hrest]; subst.
    destruct tokens as [|t tr]; cbn [prefix_match] in H; [discriminate|].
    apply andb_true_iff in H as [H1 H2].
    destruct (IH Hrest tr H2) as (m & rest & -> & Hl & Hn).
    exists (t :: m), rest. cbn [app length nv]. rewrite (var_info_no_match t p Hp H1). repeat split; lia.
Qed.

Definition found (tail : tis) (c size : nat) : Prop :=
  1 <= size /\ exists pre m rest, tail = pre ++ m ++ rest /\ length pre = c /\ length m = size /\ nv m = size.

Lemma find_location_from_found (pat : list (token F)) : Forall tok_no_var pat -> 1 <= length pat ->
  forall tokens start k, find_location_from tokens pat start = Some k ->
  exists pre m rest, tokens = pre ++ m ++ rest /\ start + length pre = k /\ length m = length pat /\ nv m = length pat.
Proof.
  intros Hok Hlen. induction tokens as [|t tr IH]; intros start k H; cbn [find_location_from] in H; [discriminate|].
  destruct (prefix_match (t :: tr) pat) eqn:Ep.
  - inversion H; subst. destruct (prefix_match_split pat Hok _ Ep) as (m & rest & E & Hl & Hn).
    exists [], m, rest. cbn [app length]. repeat split; try assumption; lia.
  - destruct (IH (S start) k H) as (pre & m & rest & -> & Hs & Hl & Hn).
    exists (t :: pre), m, rest. cbn [app length]. repeat split; try assumption; lia.
Qed.

Lemma pick_variable_found (tail : tis) : tail <> [] -> forall vs best c name size,
  vars_ok vs ->
  match best with Some (c0, _, size0) => found tail c0 size0 | None => True end ->
  pick_variable vs tail best = Ok (Some (c, name, size)) -> found tail c size.
Proof.
  intro Hne. induction vs as [|[vname vi] rest IH]; intros best c name size Hok Hbest H; cbn [pick_variable] in H.
  - inversion H; subst. exact Hbest.
  - inversion Hok as [|? ? Hv Hrest]; subst. cbn [snd] in Hv.
    unfold find_location in H.
    destruct (v_tokens vi) as [|p ps] eqn:Ev.
    { destruct tail; [contradiction|discriminate]. }
    cbn [bind] in H. rewrite <- Ev in H, Hv.
    refine (IH _ c name size Hrest _ H).
    destruct (find_location_from tail (v_tokens vi) 0) as [k|] eqn:El; [|exact Hbest].
    assert (Hk : found tail k (length (v_tokens vi))).
    { destruct (find_location_from_found (v_tokens vi) Hv ltac:(rewrite Ev; cbn [length]; lia) tail 0 k El)
        as (pre & m & rs & E & Hs & Hl & Hn).
      split; [rewrite Ev; cbn [length]; lia|]. exists pre, m, rs. repeat split; try assumption; lia. }
    destruct best as [[[c0 n0] s0]|]; [|exact Hk].
    destruct ((Nat.eqb k c0 && Nat.ltb s0 (length (v_tokens vi))) || Nat.ltb k c0); [exact Hk|exact Hbest].
Qed.

Theorem subst_loop_terminates line vs start_index :
  vars_ok vs ->
  forall fuel st, nv (ts_infos st) < fuel ->
  subst_loop fuel line vs start_index st <> Ok None.
Proof.
  intros Hok fuel. induction fuel as [|f IH]; intros st Hlt; [lia|]. cbn [subst_loop].
  destruct (pick_variable vs (skipn start_index (ts_infos st)) None) as [[[[closest name] size]|]|site] eqn:Ep;
    cbn [bind]; [|discriminate|discriminate].
  destruct (nth_opt (ts_infos st) (start_index + closest)) as [first|] eqn:E1; [|discriminate].
  destruct (nth_opt (ts_infos st) (Nat.pred (start_index + closest + size))) as [last|]; [|discriminate].
  destruct (Nat.ltb (length (ts_infos st)) (start_index + closest + size)); [discriminate|].
  destruct (ui_update line (ts_ui st) (ti_start first) (ti_end last) UVariableUse) as [ui'|site]; cbn [bind]; [|discriminate].
  apply IH. cbn [ts_infos].
  apply nth_opt_some_lt in E1.
  assert (Hne : skipn start_index (ts_infos st) <> []).
  { intro E. pose proof (skipn_length start_index (ts_infos st)) as L. rewrite E in L. cbn [length] in L. lia. }
  destruct (pick_variable_found _ Hne vs None closest name size Hok I Ep) as (Hsz & pre & m & rest & E & Hc & Hm & Hn).
  pose proof (firstn_skipn start_index (ts_infos st)) as Hsplit. rewrite E in Hsplit.
  assert (Hfl : length (firstn start_index (ts_infos st)) = start_index) by (apply firstn_length_le; lia).
  set (A := firstn start_index (ts_infos st)) in *.
  assert (HA : ts_infos st = (A ++ pre) ++ m ++ rest) by (rewrite <- Hsplit, <- app_assoc; reflexivity).
  assert (HlA : length (A ++ pre) = start_index + closest) by (rewrite app_length; lia).
  rewrite HA in Hlt |- *.
  rewrite <- HlA at 1. rewrite firstn_len_app.
  replace (start_index + closest + size) with (length ((A ++ pre) ++ m)) by (rewrite app_length; lia).
  rewrite (app_assoc (A ++ pre) m rest), skipn_len_app.
  rewrite <- app_assoc in Hlt. rewrite !nv_app in Hlt. rewrite !nv_app. cbn [nv]. rewrite ?nv_app.
  unfold is_var_info at 1. cbn [ti_ty]. lia.
Qed.

Theorem update_token_variables_terminates line vs st :
  vars_ok vs -> update_token_variables line vs st <> Ok None.
Proof.
  intro Hok. unfold update_token_variables.
  destruct (match match ts_infos st with [] => None | _ :: rest => option_map S (find_index info_is_eq_op rest) end with
            | Some i => match nth_opt (ts_infos st) (Nat.pred i) with
                        | Some prev => do ui1 <- ui_update line (ui_sort (ts_ui st)) 0 (ti_end prev) UVariableDefination; Ok (S i, ui1)
                        | None => Ok (S i, ui_sort (ts_ui st))
                        end
            | None => Ok (0, ui_sort (ts_ui st))
            end) as [[start_index ui1]|site]; cbn [bind]; [|discriminate].
  apply subst_loop_terminates; [exact Hok|]. cbn [ts_infos]. pose proof (nv_le_length (ts_infos st)). lia.
Qed.

(* ---------- a one-token pattern whose rule returns a matching token never terminates ---------- *)
Definition pat_number_x : token_info F :=
  {| ti_start := 0%N; ti_end := 10%N; ti_ty := Some (TField (FNumber (s "x"))); ti_text := s "{NUMBER:x}"; ti_active := true |}.

Definition echo_rule : apirule F := {| ar_name := s "e1"; ar_kind := REcho; ar_k := f0; ar_cur := [] |}.

Definition one_number_then_removed (l : tis) : Prop :=
  exists t rest x nt, l = t :: rest /\ ti_active t = true /\ ti_ty t = Some (TNumber x nt) /\
                      Forall (fun r => ti_active r = false) rest.

Lemma single_token_sweep line cfg lang vs (l : tis) :
  one_number_then_removed l ->
  exists l', rule_sweep bexec now_year line cfg lang vs [RApi [[pat_number_x]] echo_rule]
                        {| ts_infos := l; ts_ui := [] |} false = Ok ({| ts_infos := l'; ts_ui := [] |}, true)
             /\ one_number_then_removed l'.
Proof.
  intros (t & rest & x & nt & -> & Ha & Ht & Hrest).
  eexists. split.
  - cbn [rule_sweep rule_patterns rule_try_patterns ts_infos]. unfold find_match.
    cbn [find_match_loop]. rewrite Ha, Ht. cbn [negb nth_opt].
    unfold info_eq. rewrite Ht, Ha. cbn [pat_number_x ti_ty ti_active negb orb token_match token_field_compare length Nat.eqb].
    cbn [bind fm_total fm_rule_idx fm_start fm_target fm_fields length Nat.eqb Nat.pred nth_opt].
    unfold get_field_name. cbn [ti_ty field_name assoc_insert].
    unfold api_call, field_tok. cbn [echo_rule ar_kind assoc]. rewrite str_eqb_refl, Ht.
    cbn [api_ui_fields ts_ui]. unfold ui_update. cbn [find_index bind].
    unfold replace_match. cbn [fm_start fm_target Nat.pred nth_opt Nat.eqb mark_removed Nat.leb Nat.ltb andb insert_at bind].
    rewrite (mark_removed_out rest 0 1 1 (le_n _)). reflexivity.
  - eexists _, (set_removed t :: rest), x, nt. repeat split; try reflexivity.
    constructor; [reflexivity|exact Hrest].
Qed.

Theorem c01_single_token_rule_loops_gen line cfg lang vs : forall fuel (l : tis),
  one_number_then_removed l ->
  rule_loop bexec now_year fuel line cfg lang vs [RApi [[pat_number_x]] echo_rule]
            {| ts_infos := l; ts_ui := [] |} = Ok None.
Proof.
  induction fuel as [|f IH]; intros l Hl; cbn [rule_loop]; [reflexivity|].
  destruct (single_token_sweep line cfg lang vs l Hl) as (l' & -> & Hl'). cbn [bind]. apply IH. exact Hl'.
Qed.

(* the line "5": one Number token; whatever the fuel, the loop runs out of it *)
Theorem c01_single_token_rule_loops line cfg lang vs fuel x :
  rule_loop bexec now_year fuel line cfg lang vs [RApi [[pat_number_x]] echo_rule]
            {| ts_infos := [{| ti_start := 0%N; ti_end := 1%N; ti_ty := Some (TNumber x Decimal);
                               ti_text := s "5"; ti_active := true |}]; ts_ui := [] |} = Ok None.
Proof.
  apply c01_single_token_rule_loops_gen. eexists _, [], x, Decimal. repeat split; constructor.
Qed.

End WithNum.
