(* Property C01, rewrite-loop part: the three rewrite loops of the tokenizer (variable
   substitution, unit recognition, rule loop) terminate within the fuel the model gives them,
   i.e. the out-of-fuel outcome [Ok None] of [subst_loop] / [dyn_loop] / [rule_loop] (turned
   into [Panic SITE_OUT_OF_FUEL] by [Api.unfuel]; it stands for a hang of the implementation)
   is unreachable.

   Measures.
   - rule loop and unit loop: mu := number of Active typed token_infos.  [find_match] returns a
     range [fm_start, fm_target) that contains exactly [fm_rule_idx] active typed tokens; when the
     match is complete ([fm_total = fm_rule_idx = length pat]) [replace_match] deactivates the
     whole range and inserts ONE active typed token: mu' = mu - length pat + 1.  With every
     pattern of length >= 2 every firing strictly lowers mu, so fuel mu + 1 suffices.
   - variable substitution: nv := number of token_infos whose type is not a Variable.  Every
     substitution replaces size >= 1 tokens, none of which is a Variable (hypothesis [vars_ok]:
     no token of any variable's name matches a Variable token), by one Variable token.

   Side conditions on the regenerated configuration are finite-table checks (vm_compute).
   A ONE-token API pattern whose rule returns a token that matches the pattern again does not
   terminate: [c01_single_token_rule_loops] (every fuel is exhausted), confirmed on the crate
   (the harness watchdog reports a hang).  Polymorphic in the number algebra except for the
   statements about [default_config].  No axioms. *)
From Coq Require Import Floats Arith Lia.
From SC.Model Require Import Base Num NumF64 Types Config Case Match UiTokens Post Items RuleFns Rules
     Lexer Api Run64 Corr.

Local Open Scope nat_scope.

(* ====================================================================================== *)
Section WithNum.
Context {F : Type} {NF : Num F}.
Variable bexec : config F -> str -> res (option F).
Variable now_year : Z.

Notation tis := (list (token_info F)).

(* ---------- small list facts ---------- *)
Lemma insert_at_app {A} (a l : list A) (x : A) : insert_at (length a) x (a ++ l) = a ++ x :: l.
Proof. induction a as [|y a IH]; cbn [length insert_at app]; [destruct l; reflexivity|f_equal; exact IH]. Qed.

Lemma firstn_len_app {A} (a l : list A) : firstn (length a) (a ++ l) = a.
Proof. induction a as [|y a IH]; cbn [length firstn app]; [reflexivity|f_equal; exact IH]. Qed.

Lemma skipn_len_app {A} (a l : list A) : skipn (length a) (a ++ l) = l.
Proof. induction a as [|y a IH]; cbn [length skipn app]; [reflexivity|exact IH]. Qed.

Lemma nth_opt_some_lt {A} (l : list A) n x : nth_opt l n = Some x -> n < length l.
Proof.
  revert n. induction l as [|y l IH]; intros [|n] H; cbn [nth_opt length] in *; try discriminate; try lia.
  apply IH in H. lia.
Qed.

Lemma assoc_in {A} k (l : list (str * A)) v : assoc k l = Some v -> exists k', In (k', v) l.
Proof.
  induction l as [|[k' v'] r IH]; cbn [assoc]; [discriminate|].
  destruct (str_eqb k k').
  - intro H. inversion H; subst. exists k'. left. reflexivity.
  - intro H. destruct (IH H) as [k2 Hin]. exists k2. right. exact Hin.
Qed.

(* ---------- the measure of the rule and unit loops ---------- *)
Definition at_tok (t : token_info F) : bool :=
  ti_active t && match ti_ty t with Some _ => true | None => false end.

Fixpoint mu (l : tis) : nat :=
  match l with
  | [] => 0
  | t :: r => (if at_tok t then 1 else 0) + mu r
  end.

Lemma mu_app a b : mu (a ++ b) = mu a + mu b.
Proof. induction a as [|t a IH]; cbn [app mu]; [reflexivity|rewrite IH; lia]. Qed.

Lemma mu_le_length l : mu l <= length l.
Proof. induction l as [|t l IH]; cbn [mu length]; [lia|destruct (at_tok t); lia]. Qed.

Lemma mu_removed b : mu (map set_removed b) = 0.
Proof. induction b as [|t b IH]; cbn [map mu]; [reflexivity|]. unfold at_tok at 1. cbn [set_removed ti_active andb]. exact IH. Qed.

(* [seg full start target n]: the range [start, target) of [full] holds exactly n active typed tokens *)
Definition seg (full : tis) (start target n : nat) : Prop :=
  exists a b c, full = a ++ b ++ c /\ length a = start /\ length a + length b = target /\ mu b = n.

(* ---------- find_match_loop: the invariant, over absolute positions ---------- *)
Lemma find_match_loop_seg vs pat full : forall tokens a b rule_idx start target fs ri st tg fs',
  full = a ++ b ++ tokens -> length a = start -> length a + length b = target -> mu b = rule_idx ->
  find_match_loop vs pat tokens rule_idx start target fs = Ok (ri, st, tg, fs') ->
  seg full st tg ri.
Proof.
  induction tokens as [|t rest IH]; intros a b rule_idx start target fs ri st tg fs' Hfull Ha Hb Hmu H;
    cbn [find_match_loop] in H.
  - inversion H; subst. exists a, b, []. auto.
  - (* appending a token that does not count *)
    assert (Hskip : at_tok t = false -> forall fs0,
              find_match_loop vs pat rest rule_idx start (S target) fs0 = Ok (ri, st, tg, fs') -> seg full st tg ri).
    { intros Hat fs0 H0. apply (IH a (b ++ [t]) rule_idx start (S target) fs0 ri st tg fs'); try assumption.
      - rewrite Hfull, <- app_assoc. reflexivity.
      - rewrite app_length. cbn [length]. lia.
      - rewrite mu_app. cbn [mu]. rewrite Hat. lia. }
    assert (Hstop : at_tok t = false -> seg full start (S target) rule_idx).
    { intro Hat. exists a, (b ++ [t]), rest. repeat split.
      - rewrite Hfull, <- app_assoc. reflexivity.
      - exact Ha.
      - rewrite app_length. cbn [length]. lia.
      - rewrite mu_app. cbn [mu]. rewrite Hat. lia. }
    destruct (ti_active t) eqn:Ea; cbn [negb] in H.
    2:{ apply (Hskip ltac:(unfold at_tok; rewrite Ea; reflexivity) fs H). }
    destruct (ti_ty t) as [ty|] eqn:Et.
    + assert (Hat : at_tok t = true) by (unfold at_tok; rewrite Ea, Et; reflexivity).
      destruct (nth_opt pat rule_idx) as [p|]; [|discriminate].
      set (same := match ty with TVariable v => variable_compare vs p (var_value vs v) | _ => info_eq t p end) in H.
      destruct same.
      * (* the token matches: the range grows by a counted token *)
        destruct (Nat.eqb (length pat) (S rule_idx)).
        -- inversion H; subst. exists a, (b ++ [t]), rest. repeat split.
           ++ rewrite <- app_assoc. reflexivity.
           ++ rewrite app_length. cbn [length]. lia.
           ++ rewrite mu_app. cbn [mu]. rewrite Hat. lia.
        -- eapply (IH a (b ++ [t])); [| | | |exact H]; try assumption.
           ++ rewrite Hfull, <- app_assoc. reflexivity.
           ++ rewrite app_length. cbn [length]. lia.
           ++ rewrite mu_app. cbn [mu]. rewrite Hat. lia.
      * (* mismatch: the range restarts, empty, after this token *)
        destruct (Nat.eqb (length pat) 0).
        -- inversion H; subst. exists (a ++ b ++ [t]), [], rest. repeat split.
           ++ rewrite <- !app_assoc. reflexivity.
           ++ rewrite !app_length. cbn [length]. lia.
           ++ rewrite !app_length. cbn [length]. lia.
        -- eapply (IH (a ++ b ++ [t]) []); [| | | |exact H].
           ++ rewrite Hfull, <- !app_assoc. reflexivity.
           ++ rewrite !app_length. cbn [length]. lia.
           ++ rewrite !app_length. cbn [length]. lia.
           ++ reflexivity.
    + assert (Hat : at_tok t = false) by (unfold at_tok; rewrite Ea, Et; reflexivity).
      destruct (Nat.eqb (length pat) rule_idx).
      * inversion H; subst. apply Hstop. exact Hat.
      * apply (Hskip Hat fs H).
Qed.

Lemma find_match_seg vs pat tokens m : find_match vs pat tokens = Ok m ->
  fm_total m = length pat /\ seg tokens (fm_start m) (fm_target m) (fm_rule_idx m).
Proof.
  unfold find_match. intro H.
  destruct (find_match_loop vs pat tokens 0 0 0 []) as [[[[ri st] tg] fs]|site] eqn:E; cbn [bind] in H; [|discriminate].
  inversion H; subst. cbn [fm_total fm_start fm_target fm_rule_idx]. split; [reflexivity|].
  apply (find_match_loop_seg vs pat tokens tokens [] [] 0 0 0 [] ri st tg fs); auto.
Qed.

(* ---------- mark_removed / replace_match ---------- *)
Lemma mark_removed_out (c : tis) from to : forall idx, to <= idx -> mark_removed c from to idx = c.
Proof.
  induction c as [|t c IH]; intros idx Hle; cbn [mark_removed]; [reflexivity|].
  destruct (Nat.ltb_spec idx to); [lia|]. rewrite andb_false_r. f_equal. apply IH. lia.
Qed.

Lemma mark_removed_in (b c : tis) from to : forall idx, from <= idx -> idx + length b = to ->
  mark_removed (b ++ c) from to idx = map set_removed b ++ c.
Proof.
  induction b as [|t b IH]; intros idx Hle Hto; cbn [app map length] in *.
  - apply mark_removed_out. lia.
  - cbn [mark_removed]. destruct (Nat.leb_spec from idx); [|lia]. destruct (Nat.ltb_spec idx to); [|lia].
    cbn [andb]. f_equal. apply IH; lia.
Qed.

Lemma mark_removed_seg (a b c : tis) from to : forall idx, idx + length a = from -> from + length b = to ->
  mark_removed (a ++ b ++ c) from to idx = a ++ map set_removed b ++ c.
Proof.
  induction a as [|t a IH]; intros idx Hfrom Hto; cbn [app length] in *.
  - apply mark_removed_in; lia.
  - cbn [mark_removed]. destruct (Nat.leb_spec from idx); [lia|]. cbn [andb]. f_equal. apply IH; lia.
Qed.

(* a firing replaces the counted range by one counted token *)
Lemma replace_match_mu (l : tis) m tok l' :
  seg l (fm_start m) (fm_target m) (fm_rule_idx m) ->
  replace_match l m tok = Ok l' -> mu l' + fm_rule_idx m = mu l + 1.
Proof.
  intros (a & b & c & -> & Ha & Hb & Hmu) H. unfold replace_match in H.
  destruct (nth_opt (a ++ b ++ c) (fm_start m)) as [first|]; [|discriminate].
  destruct (nth_opt (a ++ b ++ c) (Nat.pred (fm_target m))) as [last|]; [|discriminate].
  destruct (Nat.eqb (fm_target m) 0); [discriminate|].
  inversion H; subst l'; clear H.
  rewrite (mark_removed_seg a b c (fm_start m) (fm_target m) 0) by lia.
  rewrite <- Ha, insert_at_app. rewrite !mu_app. cbn [mu]. rewrite !mu_app, mu_removed.
  unfold at_tok at 1. cbn [ti_active ti_ty andb]. lia.
Qed.

Definition pat_ok (p : tis) : Prop := 2 <= length p.

Lemma fire_lowers_mu vs pat (l : tis) m tok l' :
  pat_ok pat -> find_match vs pat l = Ok m -> fm_total m = fm_rule_idx m ->
  replace_match l m tok = Ok l' -> mu l' < mu l.
Proof.
  intros Hp Hm Hfull Hr. destruct (find_match_seg _ _ _ _ Hm) as [Ht Hseg].
  pose proof (replace_match_mu l m tok l' Hseg Hr) as E. unfold pat_ok in Hp. lia.
Qed.

(* exact form: mu' = mu - length pat + 1 *)
Lemma fire_mu_exact vs pat (l : tis) m tok l' :
  find_match vs pat l = Ok m -> fm_total m = fm_rule_idx m ->
  replace_match l m tok = Ok l' -> mu l' + length pat = mu l + 1.
Proof.
  intros Hm Hfull Hr. destruct (find_match_seg _ _ _ _ Hm) as [Ht Hseg].
  pose proof (replace_match_mu l m tok l' Hseg Hr) as E. lia.
Qed.

(* ---------- the rule loop ---------- *)
Definition rule_ok (r : rule F) : Prop := Forall pat_ok (rule_patterns r).

Lemma rule_try_patterns_mu line cfg lang vs r : forall pats st st',
  Forall pat_ok pats ->
  rule_try_patterns bexec now_year line cfg lang vs r pats st = Ok (Some st') ->
  mu (ts_infos st') < mu (ts_infos st).
Proof.
  induction pats as [|pat rest IH]; intros st st' Hok H; cbn [rule_try_patterns] in H; [discriminate|].
  inversion Hok as [|? ? Hp Hrest]; subst.
  destruct (find_match vs pat (ts_infos st)) as [m|site] eqn:Em; cbn [bind] in H; [|discriminate].
  destruct (Nat.eqb_spec (fm_total m) (fm_rule_idx m)) as [Hfull|Hne]; [|apply (IH st st' Hrest H)].
  destruct r as [fname ps|ps ar].
  - destruct (call_rule bexec now_year cfg lang vs fname (fm_fields m)) as [[tok|]|site]; cbn [bind] in H;
      [|apply (IH st st' Hrest H)|discriminate].
    destruct (nth_opt (ts_infos st) (fm_start m)); [|discriminate].
    destruct (nth_opt (ts_infos st) (Nat.pred (fm_target m))); [|discriminate].
    destruct (ui_type_field line (ts_ui st) (fm_fields m)) as [ui'|site]; cbn [bind] in H; [|discriminate].
    destruct (replace_match (ts_infos st) m tok) as [infos'|site] eqn:Er; cbn [bind] in H; [|discriminate].
    inversion H; subst st'. cbn [ts_infos]. exact (fire_lowers_mu vs pat _ m tok infos' Hp Em Hfull Er).
  - destruct (api_call cfg ar (fm_fields m)) as [tok|]; [|apply (IH st st' Hrest H)].
    destruct (nth_opt (ts_infos st) (fm_start m)); [|discriminate].
    destruct (nth_opt (ts_infos st) (Nat.pred (fm_target m))); [|discriminate].
    destruct (api_ui_fields line (ts_ui st) (fm_fields m)) as [ui'|site]; cbn [bind] in H; [|discriminate].
    destruct (replace_match (ts_infos st) m tok) as [infos'|site] eqn:Er; cbn [bind] in H; [|discriminate].
    inversion H; subst st'. cbn [ts_infos]. exact (fire_lowers_mu vs pat _ m tok infos' Hp Em Hfull Er).
Qed.

(* a sweep either leaves the state and the flag alone, or raises the flag and lowers mu *)
Lemma rule_sweep_mu line cfg lang vs : forall rules st fired st' fired',
  Forall rule_ok rules ->
  rule_sweep bexec now_year line cfg lang vs rules st fired = Ok (st', fired') ->
  (st' = st /\ fired' = fired) \/ (fired' = true /\ mu (ts_infos st') < mu (ts_infos st)).
Proof.
  induction rules as [|r rest IH]; intros st fired st' fired' Hok H; cbn [rule_sweep] in H.
  - inversion H; subst. left. auto.
  - inversion Hok as [|? ? Hr Hrest]; subst.
    destruct (rule_try_patterns bexec now_year line cfg lang vs r (rule_patterns r) st) as [[st1|]|site] eqn:Et;
      cbn [bind] in H; [| |discriminate].
    + pose proof (rule_try_patterns_mu line cfg lang vs r _ st st1 Hr Et) as Hlt.
      destruct (IH st1 true st' fired' Hrest H) as [[-> ->]|[-> Hlt2]]; right; split; try reflexivity; lia.
    + exact (IH st fired st' fired' Hrest H).
Qed.

(* as the loop calls it: flag down, state unchanged; or flag up, mu lower *)
Corollary rule_sweep_false line cfg lang vs rules st st' fired' :
  Forall rule_ok rules ->
  rule_sweep bexec now_year line cfg lang vs rules st false = Ok (st', fired') ->
  (fired' = false /\ st' = st) \/ (fired' = true /\ mu (ts_infos st') < mu (ts_infos st)).
Proof.
  intros Hok H. destruct (rule_sweep_mu line cfg lang vs rules st false st' fired' Hok H) as [[-> ->]|[-> Hm]];
    [left|right]; auto.
Qed.

Theorem rule_loop_terminates line cfg lang vs rules :
  Forall rule_ok rules ->
  forall fuel st, mu (ts_infos st) < fuel ->
  rule_loop bexec now_year fuel line cfg lang vs rules st <> Ok None.
Proof.
  intros Hok fuel. induction fuel as [|f IH]; intros st Hlt; [lia|]. cbn [rule_loop].
  destruct (rule_sweep bexec now_year line cfg lang vs rules st false) as [[st' fired]|site] eqn:Es;
    cbn [bind]; [|discriminate].
  destruct fired; [|discriminate].
  apply IH. destruct (rule_sweep_mu line cfg lang vs rules st false st' true Hok Es) as [[_ Hf]|[_ Hm]];
    [discriminate|lia].
Qed.

(* the rule table of a configuration *)
Definition cfg_rules_ok (cfg : config F) : Prop :=
  Forall (fun lr : str * list (rule F) => Forall rule_ok (snd lr)) (cf_rules cfg).

Theorem rule_tokinizer_terminates line cfg lang vs :
  cfg_rules_ok cfg ->
  forall fuel st, mu (ts_infos st) < fuel ->
  rule_tokinizer bexec now_year fuel line cfg lang vs st <> Ok None.
Proof.
  intros Hok fuel st Hlt. unfold rule_tokinizer, lang_rules.
  destruct (assoc lang (cf_rules cfg)) as [rules|] eqn:E; [|discriminate].
  apply rule_loop_terminates; [|exact Hlt].
  destruct (assoc_in _ _ _ E) as [k Hin]. unfold cfg_rules_ok in Hok. rewrite Forall_forall in Hok.
  exact (Hok _ Hin).
Qed.

(* ---------- the unit loop ---------- *)
Definition unit_ok (d : dyntype F) : Prop := Forall pat_ok (dt_parse d).

Lemma dyn_try_patterns_mu line vs d : forall pats st st',
  Forall pat_ok pats ->
  dyn_try_patterns line vs d pats st = Ok (Some st') ->
  mu (ts_infos st') < mu (ts_infos st).
Proof.
  induction pats as [|pat rest IH]; intros st st' Hok H; cbn [dyn_try_patterns] in H; [discriminate|].
  inversion Hok as [|? ? Hp Hrest]; subst.
  destruct (find_match vs pat (ts_infos st)) as [m|site] eqn:Em; cbn [bind] in H; [|discriminate].
  destruct (Nat.eqb_spec (fm_total m) (fm_rule_idx m)) as [Hfull|Hne]; [|apply (IH st st' Hrest H)].
  destruct (get_number vs (s "value") (fm_fields m)) as [value|]; [|apply (IH st st' Hrest H)].
  destruct (nth_opt (ts_infos st) (fm_start m)); [|discriminate].
  destruct (nth_opt (ts_infos st) (Nat.pred (fm_target m))); [|discriminate].
  destruct (Nat.eqb (fm_target m) 0); [discriminate|].
  destruct (ui_type_field line (ts_ui st) (fm_fields m)) as [ui'|site]; cbn [bind] in H; [|discriminate].
  destruct (replace_match (ts_infos st) m (TDynamicType value (uref d))) as [infos'|site] eqn:Er;
    cbn [bind] in H; [|discriminate].
  inversion H; subst st'. cbn [ts_infos]. exact (fire_lowers_mu vs pat _ m _ infos' Hp Em Hfull Er).
Qed.

Lemma dyn_sweep_mu line vs : forall units st fired st' fired',
  Forall unit_ok units ->
  dyn_sweep_units line vs units st fired = Ok (st', fired') ->
  (st' = st /\ fired' = fired) \/ (fired' = true /\ mu (ts_infos st') < mu (ts_infos st)).
Proof.
  induction units as [|d rest IH]; intros st fired st' fired' Hok H; cbn [dyn_sweep_units] in H.
  - inversion H; subst. left. auto.
  - inversion Hok as [|? ? Hd Hrest]; subst.
    destruct (dyn_try_patterns line vs d (dt_parse d) st) as [[st1|]|site] eqn:Et; cbn [bind] in H; [| |discriminate].
    + pose proof (dyn_try_patterns_mu line vs d _ st st1 Hd Et) as Hlt.
      destruct (IH st1 true st' fired' Hrest H) as [[-> ->]|[-> Hlt2]]; right; split; try reflexivity; lia.
    + exact (IH st fired st' fired' Hrest H).
Qed.

Corollary dyn_sweep_false line vs units st st' fired' :
  Forall unit_ok units ->
  dyn_sweep_units line vs units st false = Ok (st', fired') ->
  (fired' = false /\ st' = st) \/ (fired' = true /\ mu (ts_infos st') < mu (ts_infos st)).
Proof.
  intros Hok H. destruct (dyn_sweep_mu line vs units st false st' fired' Hok H) as [[-> ->]|[-> Hm]];
    [left|right]; auto.
Qed.

Definition cfg_units_ok (cfg : config F) : Prop := Forall unit_ok (all_units cfg).

Theorem dyn_loop_terminates line cfg vs :
  cfg_units_ok cfg ->
  forall fuel st, mu (ts_infos st) < fuel ->
  dyn_loop fuel line cfg vs st <> Ok None.
Proof.
  intros Hok fuel. induction fuel as [|f IH]; intros st Hlt; [lia|]. cbn [dyn_loop].
  destruct (dyn_sweep_units line vs (all_units cfg) st false) as [[st' fired]|site] eqn:Es; cbn [bind]; [|discriminate].
  destruct fired; [|discriminate].
  apply IH. destruct (dyn_sweep_mu line vs (all_units cfg) st false st' true Hok Es) as [[_ Hf]|[_ Hm]];
    [discriminate|lia].
Qed.

(* ---------- variable substitution ---------- *)
Definition is_var_info (t : token_info F) : bool :=
  match ti_ty t with Some (TVariable _) => true | _ => false end.

Fixpoint nv (l : tis) : nat :=
  match l with
  | [] => 0
  | t :: r => (if is_var_info t then 0 else 1) + nv r
  end.

Lemma nv_app a b : nv (a ++ b) = nv a + nv b.
Proof. induction a as [|t a IH]; cbn [app nv]; [reflexivity|rewrite IH; lia]. Qed.

Lemma nv_le_length l : nv l <= length l.
Proof. induction l as [|t l IH]; cbn [nv length]; [lia|destruct (is_var_info t); lia]. Qed.

(* the hypothesis on the session variables: no token of a variable's name matches a Variable
   token_info.  Where it comes from: Parser.parse_assignment stores [firstn end_ tokens], the
   tokens left of the first '=' (at index >= 1); update_token_variables substitutes only right
   of that '=' ([start_index = S i]), so those tokens are never Variable tokens; a Field token
   typed by the user ("{NUMBER_GROUP:a} = 1") is a TypeGroup field only for the groups of
   cf_type_group, none of which lists "VARIABLE" ([default_type_groups_no_variable] below). *)
Definition tok_no_var (p : token F) : Prop := forall n, token_match (TVariable n) p = false.
Definition vars_ok (vs : vars F) : Prop :=
  Forall (fun kv : str * varinfo F => Forall tok_no_var (v_tokens (snd kv))) vs.

(* a syntactic sufficient condition *)
Definition tok_no_var_b (p : token F) : bool :=
  match p with
  | TVariable _ => false
  | TField (FTypeGroup types _) => negb (mem_str (s "VARIABLE") types)
  | _ => true
  end.

Lemma tok_no_var_b_ok p : tok_no_var_b p = true -> tok_no_var p.
Proof.
  intros H n. destruct p as [ | | | | | |f| | | | | | | ]; try reflexivity; try discriminate.
  cbn [token_match]. destruct f; try reflexivity.
  cbn [token_field_compare token_type_name]. cbn [tok_no_var_b] in H.
  destruct (mem_str (s "VARIABLE") types); [discriminate|reflexivity].
Qed.

Lemma var_info_no_match t p : tok_no_var p -> info_eq_token t p = true -> is_var_info t = false.
Proof.
  intros Hp H. unfold info_eq_token in H. unfold is_var_info.
  destruct (ti_ty t) as [l|]; [|reflexivity].
  destruct l; try reflexivity. rewrite (Hp name) in H. discriminate.
Qed.

(* a matched prefix consists of [length pat] non-Variable tokens *)
Lemma prefix_match_split (pat : list (token F)) : Forall tok_no_var pat -> forall tokens,
  prefix_match tokens pat = true ->
  exists m rest, tokens = m ++ rest /\ length m = length pat /\ nv m = length pat.
Proof.
  induction pat as [|p pat IH]; intros Hok tokens H.
  - exists [], tokens. auto.
  - inversion Hok as [|? ? Hp Hrest]; subst.
    destruct tokens as [|t tr]; cbn [prefix_match] in H; [discriminate|].
    apply andb_true_iff in H as [H1 H2].
    destruct (IH Hrest tr H2) as (m & rest & -> & Hl & Hn).
    exists (t :: m), rest. cbn [app length nv]. rewrite (var_info_no_match t p Hp H1). repeat split; lia.
Qed.

Definition found (tail : tis) (c size : nat) : Prop :=
  1 <= size /\ exists pre m rest, tail = pre ++ m ++ rest /\ length pre = c /\ length m = size /\ nv m = size.

Lemma find_location_from_found (pat : list (token F)) : Forall tok_no_var pat -> 1 <= length pat ->
  forall tokens start k, find_location_from tokens pat start = Some k ->
  exists pre m rest, tokens = pre ++ m ++ rest /\ start + length pre = k /\ length m = length pat /\ nv m = length pat.
Proof.
  intros Hok Hlen. induction tokens as [|t tr IH]; intros start k H; cbn [find_location_from] in H; [discriminate|].
  destruct (prefix_match (t :: tr) pat) eqn:Ep.
  - inversion H; subst. destruct (prefix_match_split pat Hok _ Ep) as (m & rest & E & Hl & Hn).
    exists [], m, rest. cbn [app length]. repeat split; try assumption; lia.
  - destruct (IH (S start) k H) as (pre & m & rest & -> & Hs & Hl & Hn).
    exists (t :: pre), m, rest. cbn [app length]. repeat split; try assumption; lia.
Qed.

Lemma pick_variable_found (tail : tis) : tail <> [] -> forall vs best c name size,
  vars_ok vs ->
  match best with Some (c0, _, size0) => found tail c0 size0 | None => True end ->
  pick_variable vs tail best = Ok (Some (c, name, size)) -> found tail c size.
Proof.
  intro Hne. induction vs as [|[vname vi] rest IH]; intros best c name size Hok Hbest H; cbn [pick_variable] in H.
  - inversion H; subst. exact Hbest.
  - inversion Hok as [|? ? Hv Hrest]; subst. cbn [snd] in Hv.
    unfold find_location in H.
    destruct (v_tokens vi) as [|p ps] eqn:Ev.
    { destruct tail; [contradiction|discriminate]. }
    cbn [bind] in H. rewrite <- Ev in H, Hv.
    refine (IH _ c name size Hrest _ H).
    destruct (find_location_from tail (v_tokens vi) 0) as [k|] eqn:El; [|exact Hbest].
    assert (Hk : found tail k (length (v_tokens vi))).
    { destruct (find_location_from_found (v_tokens vi) Hv ltac:(rewrite Ev; cbn [length]; lia) tail 0 k El)
        as (pre & m & rs & E & Hs & Hl & Hn).
      split; [rewrite Ev; cbn [length]; lia|]. exists pre, m, rs. repeat split; try assumption; lia. }
    destruct best as [[[c0 n0] s0]|]; [|exact Hk].
    destruct ((Nat.eqb k c0 && Nat.ltb s0 (length (v_tokens vi))) || Nat.ltb k c0); [exact Hk|exact Hbest].
Qed.

Theorem subst_loop_terminates line vs start_index :
  vars_ok vs ->
  forall fuel st, nv (ts_infos st) < fuel ->
  subst_loop fuel line vs start_index st <> Ok None.
Proof.
  intros Hok fuel. induction fuel as [|f IH]; intros st Hlt; [lia|]. cbn [subst_loop].
  destruct (pick_variable vs (skipn start_index (ts_infos st)) None) as [[[[closest name] size]|]|site] eqn:Ep;
    cbn [bind]; [|discriminate|discriminate].
  destruct (nth_opt (ts_infos st) (start_index + closest)) as [first|] eqn:E1; [|discriminate].
  destruct (nth_opt (ts_infos st) (Nat.pred (start_index + closest + size))) as [last|]; [|discriminate].
  destruct (Nat.ltb (length (ts_infos st)) (start_index + closest + size)); [discriminate|].
  destruct (ui_update line (ts_ui st) (ti_start first) (ti_end last) UVariableUse) as [ui'|site]; cbn [bind]; [|discriminate].
  apply IH. cbn [ts_infos].
  apply nth_opt_some_lt in E1.
  assert (Hne : skipn start_index (ts_infos st) <> []).
  { intro E. pose proof (skipn_length start_index (ts_infos st)) as L. rewrite E in L. cbn [length] in L. lia. }
  destruct (pick_variable_found _ Hne vs None closest name size Hok I Ep) as (Hsz & pre & m & rest & E & Hc & Hm & Hn).
  pose proof (firstn_skipn start_index (ts_infos st)) as Hsplit. rewrite E in Hsplit.
  assert (Hfl : length (firstn start_index (ts_infos st)) = start_index) by (apply firstn_length_le; lia).
  set (A := firstn start_index (ts_infos st)) in *.
  assert (HA : ts_infos st = (A ++ pre) ++ m ++ rest) by (rewrite <- Hsplit, <- app_assoc; reflexivity).
  assert (HlA : length (A ++ pre) = start_index + closest) by (rewrite app_length; lia).
  rewrite HA in Hlt |- *.
  rewrite <- HlA at 1. rewrite firstn_len_app.
  replace (start_index + closest + size) with (length ((A ++ pre) ++ m)) by (rewrite app_length; lia).
  rewrite (app_assoc (A ++ pre) m rest), skipn_len_app.
  rewrite <- app_assoc in Hlt. rewrite !nv_app in Hlt. rewrite !nv_app. cbn [nv]. rewrite ?nv_app.
  unfold is_var_info at 1. cbn [ti_ty]. lia.
Qed.

Theorem update_token_variables_terminates line vs st :
  vars_ok vs -> update_token_variables line vs st <> Ok None.
Proof.
  intro Hok. unfold update_token_variables.
  destruct (match match ts_infos st with [] => None | _ :: rest => option_map S (find_index info_is_eq_op rest) end with
            | Some i => match nth_opt (ts_infos st) (Nat.pred i) with
                        | Some prev => do ui1 <- ui_update line (ui_sort (ts_ui st)) 0 (ti_end prev) UVariableDefination; Ok (S i, ui1)
                        | None => Ok (S i, ui_sort (ts_ui st))
                        end
            | None => Ok (0, ui_sort (ts_ui st))
            end) as [[start_index ui1]|site]; cbn [bind]; [|discriminate].
  apply subst_loop_terminates; [exact Hok|]. cbn [ts_infos]. pose proof (nv_le_length (ts_infos st)). lia.
Qed.

(* the hypothesis is needed: a (hypothetical, unreachable - see [vars_ok]) variable whose name
   consists of its own Variable token is substituted for ever *)
Definition self_var : vars F := [(s "a", {| v_tokens := [TVariable (s "a")]; v_data := ANone |})].

Theorem subst_loop_without_vars_ok_refuted line : forall fuel (t : token_info F),
  ti_ty t = Some (TVariable (s "a")) ->
  subst_loop fuel line self_var 0 {| ts_infos := [t]; ts_ui := [] |} = Ok None.
Proof.
  induction fuel as [|f IH]; intros t Ht; cbn [subst_loop]; [reflexivity|].
  cbn [ts_infos skipn self_var pick_variable find_location v_tokens find_location_from prefix_match].
  unfold info_eq_token. rewrite Ht. cbn [token_match]. rewrite str_eqb_refl.
  cbn [andb bind length Nat.add Nat.pred nth_opt Nat.ltb Nat.leb ts_ui].
  unfold ui_update. cbn [find_index bind firstn skipn app].
  apply IH. reflexivity.
Qed.

Lemma self_var_not_ok : ~ vars_ok self_var.
Proof.
  intro H. inversion H as [|? ? Hv _]; subst. cbn [snd v_tokens] in Hv.
  inversion Hv as [|? ? Hp _]; subst. specialize (Hp (s "a")). cbn [token_match] in Hp.
  rewrite str_eqb_refl in Hp. discriminate.
Qed.

(* ---------- a one-token pattern whose rule returns a matching token never terminates ---------- *)
Definition pat_number_x : token_info F :=
  {| ti_start := 0%N; ti_end := 10%N; ti_ty := Some (TField (FNumber (s "x"))); ti_text := s "{NUMBER:x}"; ti_active := true |}.

Definition echo_rule : apirule F := {| ar_name := s "e1"; ar_kind := REcho; ar_k := f0; ar_cur := [] |}.

Definition one_number_then_removed (l : tis) : Prop :=
  exists t rest x nt, l = t :: rest /\ ti_active t = true /\ ti_ty t = Some (TNumber x nt) /\
                      Forall (fun r => ti_active r = false) rest.

Lemma single_token_sweep line cfg lang vs (l : tis) :
  one_number_then_removed l ->
  exists l', rule_sweep bexec now_year line cfg lang vs [RApi [[pat_number_x]] echo_rule]
                        {| ts_infos := l; ts_ui := [] |} false = Ok ({| ts_infos := l'; ts_ui := [] |}, true)
             /\ one_number_then_removed l'.
Proof.
  intros (t & rest & x & nt & -> & Ha & Ht & Hrest).
  eexists. split.
  - unfold pat_number_x, echo_rule. cbn [rule_sweep rule_patterns rule_try_patterns ts_infos]. unfold find_match.
    cbn [find_match_loop]. rewrite Ha, Ht. cbn [negb nth_opt].
    unfold info_eq. rewrite Ht, Ha. cbn [pat_number_x ti_ty ti_active negb orb token_match token_field_compare length Nat.eqb].
    cbn [bind fm_total fm_rule_idx fm_start fm_target fm_fields length Nat.eqb Nat.pred nth_opt].
    unfold get_field_name. cbn [ti_ty field_name assoc_insert].
    unfold api_call, field_tok. cbn [ar_kind assoc]. rewrite str_eqb_refl, Ht.
    cbn [api_ui_fields ts_ui]. unfold ui_update. cbn [find_index bind].
    unfold replace_match. cbn [fm_start fm_target Nat.pred nth_opt Nat.eqb mark_removed Nat.leb Nat.ltb andb insert_at bind].
    rewrite (mark_removed_out rest 0 1 1 (le_n _)). reflexivity.
  - eexists _, (set_removed t :: rest), x, nt. repeat split; try reflexivity.
    constructor; [reflexivity|exact Hrest].
Qed.

Theorem c01_single_token_rule_loops_gen line cfg lang vs : forall fuel (l : tis),
  one_number_then_removed l ->
  rule_loop bexec now_year fuel line cfg lang vs [RApi [[pat_number_x]] echo_rule]
            {| ts_infos := l; ts_ui := [] |} = Ok None.
Proof.
  induction fuel as [|f IH]; intros l Hl; cbn [rule_loop]; [reflexivity|].
  destruct (single_token_sweep line cfg lang vs l Hl) as (l' & -> & Hl'). cbn [bind]. apply IH. exact Hl'.
Qed.

(* the line "5": one Number token; whatever the fuel, the loop runs out of it *)
Theorem c01_single_token_rule_loops line cfg lang vs fuel x :
  rule_loop bexec now_year fuel line cfg lang vs [RApi [[pat_number_x]] echo_rule]
            {| ts_infos := [{| ti_start := 0%N; ti_end := 1%N; ti_ty := Some (TNumber x Decimal);
                               ti_text := s "5"; ti_active := true |}]; ts_ui := [] |} = Ok None.
Proof.
  apply c01_single_token_rule_loops_gen. eexists _, [], x, Decimal. repeat split; constructor.
Qed.

End WithNum.

(* ====================================================================================== *)
(* The fuel of Api.tokinize: loop_fuel st = 2 * length + 8 > mu; update_token_variables uses
   S (length) > nv. *)
Section Fuel.
Context {F : Type} {NF : Num F}.

Lemma loop_fuel_enough (st : @Rules.tstate F) : mu (ts_infos st) < loop_fuel st.
Proof. unfold loop_fuel. pose proof (mu_le_length (ts_infos st)). lia. Qed.

(* [unfuel] itself produces the out-of-fuel panic only from [Ok None] *)
Lemma unfuel_out_of_fuel {A} (x : res (option A)) :
  unfuel x = Panic SITE_OUT_OF_FUEL -> x = Ok None \/ x = Panic SITE_OUT_OF_FUEL.
Proof. destruct x as [[a|]|site]; cbn [unfuel]; intro H; [discriminate|left; reflexivity|right; inversion H; reflexivity]. Qed.

(* the three [unfuel] calls of Api.tokinize, for any configuration whose rule and unit patterns
   all have at least two tokens and any session variables satisfying [vars_ok] *)
Theorem tokinize_loops_terminate_cfg lx ck (cfg : config F) lang vs line :
  cfg_rules_ok cfg -> cfg_units_ok cfg -> vars_ok vs ->
  (forall st3, update_token_variables line vs st3 <> Ok None) /\
  (forall st4, dyn_loop (loop_fuel st4) line cfg vs st4 <> Ok None) /\
  (forall st5, rule_tokinizer (basic_execute lx ck) (ck_year ck) (loop_fuel st5) line cfg lang vs st5 <> Ok None).
Proof.
  intros Hr Hu Hv. repeat split.
  - intro st3. apply update_token_variables_terminates. exact Hv.
  - intro st4. apply dyn_loop_terminates; [exact Hu|apply loop_fuel_enough].
  - intro st5. apply rule_tokinizer_terminates; [exact Hr|apply loop_fuel_enough].
Qed.

(* ---------- generic Forall facts used for the tables ---------- *)
Lemma forallb_Forall {A} (f : A -> bool) (P : A -> Prop) :
  (forall x, f x = true -> P x) -> forall l, forallb f l = true -> Forall P l.
Proof.
  intros HfP l H. apply Forall_forall. intros x Hin. apply HfP.
  rewrite forallb_forall in H. exact (H x Hin).
Qed.

Lemma Forall_flat_map_iff {A B} (P : B -> Prop) (f : A -> list B) l :
  Forall P (flat_map f l) <-> Forall (fun x => Forall P (f x)) l.
Proof.
  induction l as [|x l IH]; cbn [flat_map]; [split; constructor|].
  rewrite Forall_app, IH. split.
  - intros [H1 H2]. constructor; assumption.
  - intro H. inversion H; subst. split; assumption.
Qed.

Lemma Forall_map_iff {A B} (P : B -> Prop) (f : A -> B) l :
  Forall P (map f l) <-> Forall (fun x => P (f x)) l.
Proof.
  induction l as [|x l IH]; cbn [map]; [split; constructor|].
  split; intro H; inversion H; subst; constructor; try assumption; apply IH; assumption.
Qed.

Definition types_ok (tys : list (str * list (N * dyntype F))) : Prop :=
  Forall (fun g : str * list (N * dyntype F) => Forall (fun kd : N * dyntype F => unit_ok (snd kd)) (snd g)) tys.

Lemma cfg_units_ok_iff (cfg : config F) : cfg_units_ok cfg <-> types_ok (cf_types cfg).
Proof.
  unfold cfg_units_ok, all_units, types_ok. rewrite Forall_flat_map_iff.
  split; intro H; eapply Forall_impl; try exact H; intros g Hg; cbv beta in *; apply Forall_map_iff; exact Hg.
Qed.

Lemma assoc_update_Forall {A} (Q : A -> Prop) k (f : A -> A) l :
  (forall v, Q v -> Q (f v)) ->
  Forall (fun kv : str * A => Q (snd kv)) l -> Forall (fun kv : str * A => Q (snd kv)) (assoc_update k f l).
Proof.
  intros Hf. induction l as [|[k' v] r IH]; intro H; cbn [assoc_update]; [constructor|].
  inversion H as [|? ? Hv Hr]; subst. cbn [snd] in Hv.
  destruct (str_eqb k k'); constructor; cbn [snd]; auto.
Qed.

Lemma assoc_insert_Forall {A} (Q : A -> Prop) k v (l : list (str * A)) :
  Q v -> Forall (fun kv : str * A => Q (snd kv)) l -> Forall (fun kv : str * A => Q (snd kv)) (assoc_insert k v l).
Proof.
  intros Hv. induction l as [|[k' v'] r IH]; intro H; cbn [assoc_insert].
  - constructor; [exact Hv|constructor].
  - inversion H as [|? ? Hv' Hr]; subst.
    destruct (str_eqb k k'); [constructor; [exact Hv|exact Hr]|].
    destruct (str_ltb k k'); [constructor; [exact Hv|exact H]|].
    constructor; [exact Hv'|exact (IH Hr)].
Qed.

Lemma ninsert_Forall {A} (Q : A -> Prop) k v (l : list (N * A)) :
  Q v -> Forall (fun kv : N * A => Q (snd kv)) l -> Forall (fun kv : N * A => Q (snd kv)) (ninsert k v l).
Proof.
  intros Hv. induction l as [|[k' v'] r IH]; intro H; cbn [ninsert].
  - constructor; [exact Hv|constructor].
  - inversion H as [|? ? Hv' Hr]; subst.
    destruct (N.eqb k k'); [constructor; [exact Hv|exact Hr]|].
    destruct (N.ltb k k'); [constructor; [exact Hv|exact H]|].
    constructor; [exact Hv'|exact (IH Hr)].
Qed.

Lemma remove_at_Forall {A} (Q : A -> Prop) (l : list A) : forall i, Forall Q l -> Forall Q (remove_at i l).
Proof.
  induction l as [|x l IH]; intros i H; destruct i; cbn [remove_at]; try constructor;
    inversion H; subst; auto.
Qed.

End Fuel.

(* ====================================================================================== *)
(* The regenerated configuration (F = float): finite-table side conditions, recomputed from
   /repo/src/json/config.json on every run. *)
Definition pat_ok_b (p : list (token_info float)) : bool := Nat.leb 2 (length p).

Lemma pat_ok_b_ok p : pat_ok_b p = true -> pat_ok p.
Proof. unfold pat_ok_b, pat_ok. intro H. apply Nat.leb_le. exact H. Qed.

(* every pattern of every built-in rule of every language has at least two tokens *)
Lemma default_rules_ok_b :
  forallb (fun lr : str * list (rule float) => forallb (fun r => forallb pat_ok_b (rule_patterns r)) (snd lr))
          (cf_rules default_config) = true.
Proof. vm_compute. reflexivity. Qed.

Theorem default_rules_ok : cfg_rules_ok default_config.
Proof.
  unfold cfg_rules_ok. refine (forallb_Forall _ _ _ _ default_rules_ok_b). intros lr H.
  refine (forallb_Forall _ _ _ _ H). intros r Hr. unfold rule_ok.
  refine (forallb_Forall _ _ pat_ok_b_ok _ Hr).
Qed.

(* every parse pattern of every built-in unit has at least two tokens *)
Lemma default_units_ok_b :
  forallb (fun d : dyntype float => forallb pat_ok_b (dt_parse d)) (all_units default_config) = true.
Proof. vm_compute. reflexivity. Qed.

Theorem default_units_ok : cfg_units_ok default_config.
Proof.
  unfold cfg_units_ok. refine (forallb_Forall _ _ _ _ default_units_ok_b). intros d H. unfold unit_ok.
  refine (forallb_Forall _ _ pat_ok_b_ok _ H).
Qed.

(* the tables are not empty (non-vacuity of the two side conditions) *)
Example default_tables_nonempty :
  map (fun lr : str * list (rule float) => length (snd lr)) (cf_rules default_config) = [20; 14] /\
  length (all_units default_config) = 33.
Proof. vm_compute. split; reflexivity. Qed.

(* no type group lists "VARIABLE": a TypeGroup field typed into a line never matches a Variable token *)
Lemma default_type_groups_no_variable :
  forallb (fun g : str * list str => negb (mem_str (s "VARIABLE") (snd g))) (cf_type_group default_config) = true.
Proof. vm_compute. reflexivity. Qed.

(* ---------- the side conditions are invariants of the public setters ---------- *)
(* an operation registers no ONE-token pattern (empty ones are dropped by the registration) *)
Definition no_single (ps0 : list (list (token_info float))) : Prop :=
  Forall (fun p : list (token_info float) => length p <> 1) ps0.

Definition op_pats_ok (ck : clock) (m : mstate) (o : op) : Prop :=
  match o with
  | OAddRule lang patterns _ _ _ _ =>
    forall ps0, tokenise_patterns LX ck (m_cfg m) lang patterns = Ok ps0 -> no_single ps0
  | OAddTypeItem _ _ _ parse _ _ _ _ _ _ =>
    forall ps0, tokenise_patterns LX ck (m_cfg m) (s "en") parse = Ok ps0 -> no_single ps0
  | OSetDateRule lang patterns =>
    (* set_date_rule stores the patterns unfiltered *)
    forall ps0, tokenise_patterns LX ck (m_cfg m) lang patterns = Ok ps0 -> Forall pat_ok ps0
  | _ => True
  end.

Lemma stored_pats_ok ps0 : no_single ps0 ->
  Forall pat_ok (filter (fun p : list (token_info float) => match p with [] => false | _ => true end) ps0).
Proof.
  intro H. apply Forall_forall. intros p Hin. apply filter_In in Hin as [Hin Hne].
  unfold no_single in H. rewrite Forall_forall in H. specialize (H p Hin). unfold pat_ok.
  destruct p as [|a [|b r]]; cbn [length] in *; [discriminate|lia|lia].
Qed.

Theorem step_preserves_ok ck m o :
  op_pats_ok ck m o ->
  cfg_rules_ok (m_cfg m) /\ cfg_units_ok (m_cfg m) ->
  cfg_rules_ok (m_cfg (fst (step ck m o))) /\ cfg_units_ok (m_cfg (fst (step ck m o))).
Proof.
  intros Hop [Hr Hu].
  assert (Hsame : cfg_rules_ok (m_cfg m) /\ cfg_units_ok (m_cfg m)) by (split; assumption).
  destruct o as [lang text|lang text|sid|sid text|sid lang|sid|v|v|v| |d rm rnd|d rm rnd|rm rnd|cur rate
                 |lang patterns name kind k cur|lang name|name|name index format parse up down names digits rnd rm
                 |lang patterns];
    cbn [step]; cbn [op_pats_ok] in Hop; try exact Hsame.
  - (* OSetText *) destruct (sess_get sid (m_sessions m)); exact Hsame.
  - (* OSetLanguage *) destruct (sess_get sid (m_sessions m)); exact Hsame.
  - (* OExecSession *)
    destruct (sess_get sid (m_sessions m)) as [se|]; [|exact Hsame].
    destruct (execute_session LX ck (m_cfg m) se) as [[se' r]|site]; exact Hsame.
  - (* OSetTz *) destruct (set_timezone (m_cfg m) v) as [[n o]|]; exact Hsame.
  - (* OUpdateCurrency *) destruct (read_currency (m_cfg m) cur); exact Hsame.
  - (* OAddRule *)
    destruct (tokenise_patterns LX ck (m_cfg m) lang patterns) as [ps0|site] eqn:Et; [|exact Hsame].
    destruct (assoc lang (cf_rules (m_cfg m))); [|exact Hsame].
    cbn [fst with_cfg m_cfg]. split; [|exact Hu].
    unfold cfg_rules_ok. cbn [set_rules cf_rules].
    apply (assoc_update_Forall (fun rs => Forall rule_ok rs)); [|exact Hr].
    intros rs Hrs. apply Forall_app. split; [exact Hrs|]. constructor; [|constructor].
    unfold rule_ok. cbn [rule_patterns]. apply stored_pats_ok. exact (Hop ps0 eq_refl).
  - (* ODeleteRule *)
    destruct (assoc lang (cf_rules (m_cfg m))) as [rs0|]; [|exact Hsame].
    destruct (find_index _ rs0) as [i|]; [|exact Hsame].
    cbn [fst with_cfg m_cfg]. split; [|exact Hu].
    unfold cfg_rules_ok. cbn [set_rules cf_rules].
    apply (assoc_update_Forall (fun rs => Forall rule_ok rs)); [|exact Hr].
    intros rs Hrs. apply remove_at_Forall. exact Hrs.
  - (* OAddType *)
    destruct (assoc name (cf_types (m_cfg m))); [exact Hsame|].
    cbn [fst with_cfg m_cfg]. split; [exact Hr|].
    apply cfg_units_ok_iff. cbn [set_types cf_types].
    apply (assoc_insert_Forall (fun g => Forall (fun kd : N * dyntype float => unit_ok (snd kd)) g)); [constructor|].
    apply cfg_units_ok_iff. exact Hu.
  - (* OAddTypeItem *)
    destruct (assoc name (cf_types (m_cfg m))) as [g|] eqn:Eg; [|exact Hsame].
    destruct (nassoc index g); [exact Hsame|].
    destruct (tokenise_patterns LX ck (m_cfg m) (s "en") parse) as [ps0|site] eqn:Et; [|exact Hsame].
    cbn [fst with_cfg m_cfg]. split; [exact Hr|].
    apply cfg_units_ok_iff. cbn [set_types cf_types].
    pose proof (proj1 (cfg_units_ok_iff _) Hu) as Hty.
    apply (assoc_insert_Forall (fun g => Forall (fun kd : N * dyntype float => unit_ok (snd kd)) g)); [|exact Hty].
    apply (ninsert_Forall (fun d : dyntype float => unit_ok d)).
    + unfold unit_ok. cbn [dt_parse]. apply stored_pats_ok. exact (Hop ps0 eq_refl).
    + destruct (assoc_in _ _ _ Eg) as [k' Hin]. unfold types_ok in Hty. rewrite Forall_forall in Hty.
      exact (Hty _ Hin).
  - (* OSetDateRule *)
    unfold set_date_rule.
    destruct (tokenise_patterns LX ck (m_cfg m) lang patterns) as [ps0|site] eqn:Et; cbn [bind]; [|exact Hsame].
    cbn [fst with_cfg m_cfg]. split; [|exact Hu].
    unfold cfg_rules_ok. cbn [set_rules cf_rules].
    apply (assoc_update_Forall (fun rs => Forall rule_ok rs)); [|exact Hr].
    intros rs Hrs. apply Forall_app. split.
    + apply Forall_forall. intros r Hin. apply filter_In in Hin as [Hin _].
      rewrite Forall_forall in Hrs. exact (Hrs r Hin).
    + constructor; [|constructor]. unfold rule_ok. cbn [rule_patterns].
      pose proof (Hop ps0 eq_refl) as Hall. apply Forall_forall. intros p Hin. apply filter_In in Hin as [Hin _].
      rewrite Forall_forall in Hall. exact (Hall p Hin).
Qed.

(* every configuration reached from the default one by a history that registers no one-token
   pattern satisfies both side conditions *)
Fixpoint history_ok (ck : clock) (m : mstate) (ops : list op) : Prop :=
  match ops with
  | [] => True
  | o :: r => op_pats_ok ck m o /\ history_ok ck (fst (step ck m o)) r
  end.

Fixpoint final_state (ck : clock) (m : mstate) (ops : list op) : mstate :=
  match ops with
  | [] => m
  | o :: r => final_state ck (fst (step ck m o)) r
  end.

Theorem reachable_cfg_ok ck : forall ops m,
  cfg_rules_ok (m_cfg m) /\ cfg_units_ok (m_cfg m) -> history_ok ck m ops ->
  cfg_rules_ok (m_cfg (final_state ck m ops)) /\ cfg_units_ok (m_cfg (final_state ck m ops)).
Proof.
  induction ops as [|o r IH]; intros m Hm Hh; cbn [final_state]; [exact Hm|].
  destruct Hh as [Ho Hr]. apply IH; [|exact Hr]. apply step_preserves_ok; assumption.
Qed.

Corollary reachable_from_default_ok ck ops :
  history_ok ck init_state ops ->
  cfg_rules_ok (m_cfg (final_state ck init_state ops)) /\ cfg_units_ok (m_cfg (final_state ck init_state ops)).
Proof. apply reachable_cfg_ok. split; [exact default_rules_ok|exact default_units_ok]. Qed.

(* ---------- the one-token API rule: the model's prediction for the crate ---------- *)
(* add_rule stores exactly the pattern of [c01_single_token_rule_loops] *)
Lemma api_pattern_number_x :
  tokenise_patterns LX CK0 default_config (s "en") [s "{NUMBER:x}"] = Ok [[pat_number_x]].
Proof. vm_compute. reflexivity. Qed.

(* the history [add_rule en ["{NUMBER:x}"] echo; exec "5"]: registration succeeds, the execution
   exhausts the rule loop's fuel.  On the crate this history hangs (harness watchdog: {"hang":true});
   Corr.obs_eqb accepts exactly this pair (MPanic SITE_OUT_OF_FUEL ~ IHang). *)
Theorem c01_single_token_rule_hangs_model :
  run CK0 init_state [OAddRule (s "en") [s "{NUMBER:x}"] (s "e1") REcho 0%float []; OExec (s "en") (s "5")]
  = [MRet (Some true); MPanic SITE_OUT_OF_FUEL].
Proof. vm_compute. reflexivity. Qed.

(* same with a scaling rule, k = 1 *)
Theorem c01_single_token_scale_hangs_model :
  run CK0 init_state [OAddRule (s "en") [s "{NUMBER:x}"] (s "s1") RScale 1%float []; OExec (s "en") (s "5")]
  = [MRet (Some true); MPanic SITE_OUT_OF_FUEL].
Proof. vm_compute. reflexivity. Qed.

(* ---------- non-vacuity: the loops do fire, and mu goes down while the list grows ---------- *)
Definition infos_of (line : str) : list (token_info float) :=
  match token_infos LX 0%Z default_config (s "en") line with Ok l => l | Panic _ => [] end.

Example unit_loop_fires :
  let st := {| ts_infos := infos_of (s "10 km"); ts_ui := [] |} in
  (mu (ts_infos st), length (ts_infos st)) = (2, 2) /\
  match dyn_loop (loop_fuel st) (s "10 km") default_config [] st with
  | Ok (Some st') => (mu (ts_infos st'), length (ts_infos st')) = (1, 3)
  | _ => False
  end.
Proof. vm_compute. split; reflexivity. Qed.

Example rule_loop_fires :
  let line := s "2 hours 30 minutes" in
  let st := {| ts_infos := infos_of line; ts_ui := [] |} in
  (mu (ts_infos st), length (ts_infos st)) = (4, 4) /\
  match rule_tokinizer (basic_execute LX CK0) 1970 (loop_fuel st) line default_config (s "en") [] st with
  | Ok (Some st') => (mu (ts_infos st'), length (ts_infos st')) = (1, 7)
  | _ => False
  end.
Proof. vm_compute. split; reflexivity. Qed.

(* ---------- summary ---------- *)
(* For the regenerated default configuration and any session variables satisfying [vars_ok], none
   of the three loop calls under [unfuel] in Api.tokinize returns the out-of-fuel outcome. *)
Theorem tokinize_loops_terminate ck lang (vs : vars float) line :
  vars_ok vs ->
  (forall st3, update_token_variables line vs st3 <> Ok None) /\
  (forall st4, dyn_loop (loop_fuel st4) line default_config vs st4 <> Ok None) /\
  (forall st5, rule_tokinizer (basic_execute LX ck) (ck_year ck) (loop_fuel st5) line default_config lang vs st5 <> Ok None).
Proof. apply tokinize_loops_terminate_cfg; [exact default_rules_ok|exact default_units_ok]. Qed.

(* ... and for every configuration reachable from it through the public setters by a history that
   registers no one-token pattern *)
Theorem tokinize_loops_terminate_reachable ck ops lang (vs : vars float) line :
  history_ok ck init_state ops -> vars_ok vs ->
  let cfg := m_cfg (final_state ck init_state ops) in
  (forall st3, update_token_variables line vs st3 <> Ok None) /\
  (forall st4, dyn_loop (loop_fuel st4) line cfg vs st4 <> Ok None) /\
  (forall st5, rule_tokinizer (basic_execute LX ck) (ck_year ck) (loop_fuel st5) line cfg lang vs st5 <> Ok None).
Proof.
  intros Hh Hv cfg. destruct (reachable_from_default_ok ck ops Hh) as [Hr Hu].
  apply tokinize_loops_terminate_cfg; assumption.
Qed.

(* the empty session trivially satisfies the hypothesis *)
Example vars_ok_empty : vars_ok (@nil (str * varinfo float)).
Proof. constructor. Qed.

Print Assumptions rule_loop_terminates.
Print Assumptions rule_tokinizer_terminates.
Print Assumptions dyn_loop_terminates.
Print Assumptions subst_loop_terminates.
Print Assumptions update_token_variables_terminates.
Print Assumptions subst_loop_without_vars_ok_refuted.
Print Assumptions fire_mu_exact.
Print Assumptions c01_single_token_rule_loops.
Print Assumptions c01_single_token_rule_hangs_model.
Print Assumptions default_rules_ok.
Print Assumptions default_units_ok.
Print Assumptions step_preserves_ok.
Print Assumptions tokinize_loops_terminate.
Print Assumptions tokinize_loops_terminate_reachable.
