(* Proofs for property C16 (blanks, comments and the letter case of keywords never change a value).

   1. untyped            blanks and comments are lexed into token_infos without a type; Lexer.cleanup and
                         Post.token_generator drop them: they never reach the token list
   2. positions          no stage after the lexer reads ti_start / ti_end / ti_text except to build the highlighting
                         (UI) tokens and the text of a variable token: on two token_info lists that agree pointwise
                         in type and status (same_tokens) variable substitution, unit recognition and the rule loop
                         give same_tokens lists again (or the same panic; the UI bookkeeping may panic on its own
                         with site 1701), and the token list, the parse and the value are EQUAL
   3. blank / comment    lines of blanks only (any length) evaluate to nothing; lines `blanks # text` for a finite family
   4. case               every comparison of a keyword class goes through a lower-/upper-cased copy
   5. pipeline           original vs rewritten lines through the whole model (exec64), by vm_compute *)
From SC.Model Require Import Base Num Types Config Case Chrono UiTokens Rx Match Post Parser Items Interp RuleFns Rules
     Format Lexer Api.
From Coq Require Import ZArith Lia.

(* ------------------------------------------------------------------------------------- *)
(* 1. untyped token_infos are dropped                                                     *)
(* ------------------------------------------------------------------------------------- *)
Section Untyped.
Context {F : Type} {NF : Num F}.

Definition typed (t : token_info F) : Prop := ti_ty t <> None.
Definition untyped (t : token_info F) : Prop := ti_ty t = None.

(* Post.token_generator keeps exactly the Active typed infos, in order *)
Theorem token_generator_in (infos : list (token_info F)) t :
  In t (token_generator infos) <-> exists ti, In ti infos /\ ti_active ti = true /\ ti_ty ti = Some t.
Proof.
  unfold token_generator. rewrite in_flat_map. split.
  - intros (ti & Hin & Ht). exists ti. split; [exact Hin|].
    destruct (ti_active ti); [|destruct Ht]. destruct (ti_ty ti) as [t'|]; [|destruct Ht].
    destruct Ht as [->|[]]. split; reflexivity.
  - intros (ti & Hin & Ha & Ht). exists ti. split; [exact Hin|]. rewrite Ha, Ht. left. reflexivity.
Qed.

Lemma token_generator_app (a b : list (token_info F)) :
  token_generator (a ++ b) = token_generator a ++ token_generator b.
Proof. unfold token_generator. apply flat_map_app. Qed.

(* an untyped (or Removed) info anywhere in the list contributes nothing *)
Theorem token_generator_skips (a b : list (token_info F)) ti :
  ti_ty ti = None \/ ti_active ti = false ->
  token_generator (a ++ ti :: b) = token_generator (a ++ b).
Proof.
  intros H. rewrite !token_generator_app. f_equal.
  change (ti :: b) with ([ti] ++ b). rewrite token_generator_app.
  unfold token_generator at 1. cbn [flat_map].
  destruct H as [H|H]; rewrite H; [destruct (ti_active ti)|]; reflexivity.
Qed.

Lemma insert_sorted_Forall (P : token_info F -> Prop) t l :
  P t -> Forall P l -> Forall P (info_insert_sorted t l).
Proof.
  intros Pt. induction 1 as [|x r Px Hr IH]; cbn [info_insert_sorted]; [repeat constructor; exact Pt|].
  destruct (N.ltb _ _); repeat constructor; assumption.
Qed.

Lemma fold_insert_Forall (P : token_info F -> Prop) l : forall acc,
  Forall P l -> Forall P acc -> Forall P (fold_left (fun acc t => info_insert_sorted t acc) l acc).
Proof.
  induction l as [|t r IH]; intros acc Hl Hacc; cbn [fold_left]; [exact Hacc|].
  inversion Hl; subst. apply IH; [assumption|]. apply insert_sorted_Forall; assumption.
Qed.

(* Lexer.cleanup (cleanup_token_infos): only typed infos survive *)
Theorem cleanup_typed (st : @Rules.tstate F) : Forall typed (ts_infos (cleanup st)).
Proof.
  unfold cleanup. cbn [ts_infos]. apply fold_insert_Forall; [|constructor].
  apply Forall_forall. intros t Hin. apply filter_In in Hin as [_ Hin]. unfold typed.
  destruct (ti_ty t); [discriminate|discriminate].
Qed.

(* what the whitespace and the comment parser add carries no type *)
Definition extends_untyped (st st' : @Rules.tstate F) : Prop :=
  exists extra, ts_infos st' = ts_infos st ++ extra /\ Forall untyped extra.

Lemma extends_untyped_refl st : extends_untyped st st.
Proof. exists []. rewrite app_nil_r. split; [reflexivity|constructor]. Qed.

Lemma add_token_None (st : @Rules.tstate F) b e text :
  extends_untyped st (fst (add_token st b e None text)).
Proof.
  unfold add_token. destruct (collides _ _ _); cbn [fst]; [apply extends_untyped_refl|].
  eexists. cbn [ts_infos]. split; [reflexivity|]. repeat constructor.
Qed.

Theorem whitespace_body_untyped line c cp (st st' : @Rules.tstate F) :
  whitespace_body line c cp st = Ok st' -> extends_untyped st st'.
Proof.
  unfold whitespace_body. destruct (cap_get cp 0) as [[b e]|]; intros H; inversion H; subst.
  - apply add_token_None.
  - apply extends_untyped_refl.
Qed.

Theorem comment_body_untyped line c cp (st st' : @Rules.tstate F) :
  comment_body line c cp st = Ok st' -> extends_untyped st st'.
Proof.
  unfold comment_body. destruct (cap_get cp 0) as [[b e]|]; intros H; [|inversion H; subst; apply extends_untyped_refl].
  pose proof (add_token_None st b e (slice line (b, e))) as Hx.
  destruct (add_token st b e None (slice line (b, e))) as [st1 ok]. cbn [fst] in Hx.
  inversion H; subst. destruct ok; [|exact Hx].
  destruct Hx as (extra & He & Hf). exists extra. split; [exact He|exact Hf].
Qed.

End Untyped.

(* ------------------------------------------------------------------------------------- *)
(* 2. positions and texts of token_infos are irrelevant after the lexer                   *)
(* ------------------------------------------------------------------------------------- *)
Section Positions.
Context {F : Type} {NF : Num F}.

(* two token_infos that agree in type and status (start, end and text are free) *)
Definition same_tok (a b : token_info F) : Prop := ti_ty a = ti_ty b /\ ti_active a = ti_active b.
Definition same_tokens : list (token_info F) -> list (token_info F) -> Prop := Forall2 same_tok.
Definition same_state (s1 s2 : @Rules.tstate F) : Prop := same_tokens (ts_infos s1) (ts_infos s2).
Definition fields_sim (f1 f2 : fields F) : Prop :=
  Forall2 (fun a b => fst a = fst b /\ same_tok (snd a) (snd b)) f1 f2.

Lemma same_tok_refl a : same_tok a a. Proof. split; reflexivity. Qed.
Lemma same_tokens_refl l : same_tokens l l.
Proof. induction l; constructor; [apply same_tok_refl|assumption]. Qed.
Lemma same_tok_sym a b : same_tok a b -> same_tok b a. Proof. intros [H1 H2]; split; congruence. Qed.
Lemma same_tok_trans a b c : same_tok a b -> same_tok b c -> same_tok a c.
Proof. intros [H1 H2] [H3 H4]; split; congruence. Qed.
Lemma same_tokens_sym l1 l2 : same_tokens l1 l2 -> same_tokens l2 l1.
Proof. induction 1; constructor; [apply same_tok_sym|]; assumption. Qed.
Lemma same_tokens_trans l1 l2 l3 : same_tokens l1 l2 -> same_tokens l2 l3 -> same_tokens l1 l3.
Proof.
  intros H; revert l3; induction H as [|a b r1 r2 Hab Hr IH]; intros l3 H3; inversion H3; subst; constructor.
  - eapply same_tok_trans; eassumption.
  - apply IH. assumption.
Qed.

Lemma same_tokens_length l1 l2 : same_tokens l1 l2 -> length l1 = length l2.
Proof. induction 1; cbn [List.length]; congruence. Qed.

Lemma Forall2_firstn {A B} (R : A -> B -> Prop) n : forall l1 l2,
  Forall2 R l1 l2 -> Forall2 R (firstn n l1) (firstn n l2).
Proof. induction n; intros l1 l2 H; cbn [firstn]; [constructor|]. destruct H; constructor; auto. Qed.

Lemma Forall2_skipn {A B} (R : A -> B -> Prop) n : forall l1 l2,
  Forall2 R l1 l2 -> Forall2 R (skipn n l1) (skipn n l2).
Proof. induction n; intros l1 l2 H; cbn [skipn]; [exact H|]. destruct H; [constructor|auto]. Qed.

Definition rel_option {A} (R : A -> A -> Prop) (o1 o2 : option A) : Prop :=
  match o1, o2 with Some a, Some b => R a b | None, None => True | _, _ => False end.

Lemma nth_opt_sim {A} (R : A -> A -> Prop) l1 l2 : Forall2 R l1 l2 ->
  forall n, rel_option R (nth_opt l1 n) (nth_opt l2 n).
Proof.
  induction 1; intros n; [destruct n; exact I|].
  destruct n; cbn [nth_opt]; [assumption|apply IHForall2].
Qed.

(* ---- the comparisons read type and status only ---- *)
Lemma info_eq_token_sim a b p : same_tok a b -> info_eq_token a p = info_eq_token b p.
Proof. intros [H _]. unfold info_eq_token. rewrite H. reflexivity. Qed.

Lemma info_eq_sim a b p : same_tok a b -> info_eq a p = info_eq b p.
Proof. intros [H1 H2]. unfold info_eq. rewrite H1, H2. reflexivity. Qed.

Lemma prefix_match_sim pat : forall t1 t2, same_tokens t1 t2 -> prefix_match t1 pat = prefix_match t2 pat.
Proof.
  induction pat as [|p pr IH]; intros t1 t2 H; [destruct t1, t2; reflexivity|].
  destruct H as [|a b r1 r2 Hab Hr]; cbn [prefix_match]; [reflexivity|].
  rewrite (info_eq_token_sim a b p Hab), (IH r1 r2 Hr). reflexivity.
Qed.

Lemma find_location_from_sim pat t1 t2 : same_tokens t1 t2 ->
  forall start, find_location_from t1 pat start = find_location_from t2 pat start.
Proof.
  induction 1 as [|a b r1 r2 Hab Hr IH]; intros start; [reflexivity|].
  cbn [find_location_from].
  rewrite (prefix_match_sim pat (a :: r1) (b :: r2)); [|constructor; assumption].
  destruct (prefix_match _ _); [reflexivity|apply IH].
Qed.

Lemma find_location_sim pat t1 t2 : same_tokens t1 t2 -> find_location t1 pat = find_location t2 pat.
Proof.
  intros H. unfold find_location. destruct pat; [destruct H; reflexivity|].
  rewrite (find_location_from_sim _ _ _ H). reflexivity.
Qed.

Lemma pick_variable_sim (vs : vars F) t1 t2 : same_tokens t1 t2 ->
  forall best, pick_variable vs t1 best = pick_variable vs t2 best.
Proof.
  intros H. induction vs as [|[name vi] rest IH]; intros best; [reflexivity|].
  cbn [pick_variable]. rewrite (find_location_sim _ _ _ H).
  destruct (find_location t2 (v_tokens vi)); cbn [bind]; [apply IH|reflexivity].
Qed.

Lemma find_index_sim (p : token_info F -> bool) :
  (forall a b, same_tok a b -> p a = p b) ->
  forall l1 l2, same_tokens l1 l2 -> find_index p l1 = find_index p l2.
Proof.
  intros Hp l1 l2. induction 1 as [|a b r1 r2 Hab Hr IH]; [reflexivity|].
  cbn [find_index]. rewrite (Hp a b Hab), IH. reflexivity.
Qed.

Lemma info_is_eq_op_sim a b : same_tok a b -> info_is_eq_op a = info_is_eq_op b.
Proof. intros [H _]. unfold info_is_eq_op. rewrite H. reflexivity. Qed.

Lemma info_is_eq_sim a b : same_tok a b -> @info_is_eq F a = info_is_eq b.
Proof. intros [H _]. unfold info_is_eq. rewrite H. reflexivity. Qed.

(* ---- outcomes: equal up to a panic of the highlighting bookkeeping (ui_token.rs drain, site 1701) ---- *)
Definition UI_SITE : N := 1701.

Definition rel_exact {A} (R : A -> A -> Prop) (r1 r2 : res A) : Prop :=
  match r1, r2 with Ok a, Ok b => R a b | Panic s1, Panic s2 => s1 = s2 | _, _ => False end.

Definition rel_res {A} (R : A -> A -> Prop) (r1 r2 : res A) : Prop :=
  r1 = Panic UI_SITE \/ r2 = Panic UI_SITE \/ rel_exact R r1 r2.

Lemma rel_exact_res {A} (R : A -> A -> Prop) r1 r2 : rel_exact R r1 r2 -> rel_res R r1 r2.
Proof. intros H. right. right. exact H. Qed.

Lemma rel_bind {A B} (R : A -> A -> Prop) (R' : B -> B -> Prop) r1 r2 f g :
  rel_res R r1 r2 -> (forall a b, R a b -> rel_res R' (f a) (g b)) -> rel_res R' (bind r1 f) (bind r2 g).
Proof.
  intros [->|[->|H]] Hk; [left; reflexivity|right; left; reflexivity|].
  destruct r1 as [a|s1], r2 as [b|s2]; cbn in H; try contradiction; cbn [bind].
  - apply Hk, H.
  - subst. right. right. reflexivity.
Qed.

Lemma rel_eq_bind {A B} (R' : B -> B -> Prop) (r : res A) f g :
  (forall a, rel_res R' (f a) (g a)) -> rel_res R' (bind r f) (bind r g).
Proof. intros Hk. destruct r; cbn [bind]; [apply Hk|right; right; reflexivity]. Qed.

(* ui_update is total up to its own panic site *)
Definition ui_res {A} (u : res A) : Prop := forall s, u = Panic s -> s = UI_SITE.

Lemma ui_update_res line us a b k : ui_res (ui_update line us a b k).
Proof.
  unfold ui_update, ui_res. intros s.
  destruct (find_index _ us); [|discriminate].
  destruct (_ >? _); [|discriminate].
  destruct (find_index _ us); [|discriminate].
  destruct (Nat.ltb _ _); [|discriminate]. intros H; inversion H; reflexivity.
Qed.

Lemma rel_ui_bind {A B} (R' : B -> B -> Prop) (u1 u2 : res A) f g :
  ui_res u1 -> ui_res u2 -> (forall x y, rel_res R' (f x) (g y)) -> rel_res R' (bind u1 f) (bind u2 g).
Proof.
  intros H1 H2 Hk. destruct u1 as [x|s1]; [|left; rewrite (H1 s1 eq_refl); reflexivity].
  destruct u2 as [y|s2]; [|right; left; rewrite (H2 s2 eq_refl); reflexivity].
  apply Hk.
Qed.

(* ---- update_token_variables ---- *)
Lemma subst_loop_sim fuel line1 line2 (vs : vars F) start : forall st1 st2, same_state st1 st2 ->
  rel_res (rel_option same_state) (subst_loop fuel line1 vs start st1) (subst_loop fuel line2 vs start st2).
Proof.
  induction fuel as [|f IH]; intros st1 st2 H; [right; right; exact I|].
  cbn [subst_loop].
  rewrite (pick_variable_sim vs _ _ (Forall2_skipn _ start _ _ H) None).
  apply rel_eq_bind. intros [[[closest name] size]|]; [|right; right; exact H].
  pose proof (nth_opt_sim _ _ _ H (start + closest)%nat) as Hf.
  pose proof (nth_opt_sim _ _ _ H (Nat.pred (start + closest + size))) as Hl.
  destruct (nth_opt (ts_infos st1) (start + closest)) as [f1|], (nth_opt (ts_infos st2) (start + closest)) as [f2|];
    cbn in Hf; try contradiction; [|right; right; reflexivity].
  destruct (nth_opt (ts_infos st1) _) as [l1|], (nth_opt (ts_infos st2) _) as [l2|];
    cbn in Hl; try contradiction; [|right; right; reflexivity].
  rewrite (same_tokens_length _ _ H).
  destruct (Nat.ltb _ _); [right; right; reflexivity|].
  apply rel_ui_bind; [apply ui_update_res|apply ui_update_res|]. intros u1 u2.
  apply IH. unfold same_state. cbn [ts_infos].
  apply Forall2_app; [apply Forall2_firstn, H|].
  constructor; [split; reflexivity|apply Forall2_skipn, H].
Qed.

Theorem update_token_variables_sim line1 line2 (vs : vars F) st1 st2 : same_state st1 st2 ->
  rel_res (rel_option same_state) (update_token_variables line1 vs st1) (update_token_variables line2 vs st2).
Proof.
  intros H. unfold update_token_variables.
  assert (Heq : match ts_infos st1 with [] => None | _ :: rest => option_map S (find_index info_is_eq_op rest) end
                = match ts_infos st2 with [] => None | _ :: rest => option_map S (find_index info_is_eq_op rest) end).
  { destruct H as [|a b r1 r2 _ Hr]; [reflexivity|].
    rewrite (find_index_sim _ info_is_eq_op_sim _ _ Hr). reflexivity. }
  rewrite Heq. clear Heq.
  rewrite (same_tokens_length _ _ H).
  destruct (match ts_infos st2 with [] => None | _ :: rest => option_map S (find_index info_is_eq_op rest) end) as [i|].
  - pose proof (nth_opt_sim _ _ _ H (Nat.pred i)) as Hp.
    destruct (nth_opt (ts_infos st1) (Nat.pred i)) as [p1|], (nth_opt (ts_infos st2) (Nat.pred i)) as [p2|];
      cbn in Hp; try contradiction.
    + cbn [bind]. 
      destruct (ui_update line1 _ 0 (ti_end p1) _) as [u1|s1] eqn:E1;
        [|left; cbn [bind]; rewrite (ui_update_res _ _ _ _ _ _ E1); reflexivity].
      destruct (ui_update line2 _ 0 (ti_end p2) _) as [u2|s2] eqn:E2;
        [|right; left; cbn [bind]; rewrite (ui_update_res _ _ _ _ _ _ E2); reflexivity].
      cbn [bind]. apply subst_loop_sim. exact H.
    + cbn [bind]. apply subst_loop_sim. exact H.
  - cbn [bind]. apply subst_loop_sim. exact H.
Qed.

(* ---- find_match ---- *)
Lemma assoc_sim (fs1 fs2 : fields F) k : fields_sim fs1 fs2 ->
  rel_option same_tok (assoc k fs1) (assoc k fs2).
Proof.
  induction 1 as [|[k1 v1] [k2 v2] r1 r2 [Hk Hv] Hr IH]; [exact I|].
  cbn [fst snd] in Hk, Hv. subst k2. cbn [assoc]. destruct (str_eqb k k1); [exact Hv|exact IH].
Qed.

Lemma assoc_insert_sim (fs1 fs2 : fields F) k t1 t2 : same_tok t1 t2 -> fields_sim fs1 fs2 ->
  fields_sim (assoc_insert k t1 fs1) (assoc_insert k t2 fs2).
Proof.
  intros Ht. induction 1 as [|[k1 v1] [k2 v2] r1 r2 [Hk Hv] Hr IH]; cbn [assoc_insert].
  - constructor; [split; [reflexivity|exact Ht]|constructor].
  - cbn [fst snd] in Hk, Hv. subst k2.
    destruct (str_eqb k k1); [constructor; [split; [reflexivity|exact Ht]|exact Hr]|].
    destruct (str_ltb k k1).
    + constructor; [split; [reflexivity|exact Ht]|]. constructor; [split; [reflexivity|exact Hv]|exact Hr].
    + constructor; [split; [reflexivity|exact Hv]|exact IH].
Qed.

Definition fml_sim (x y : nat * nat * nat * fields F) : Prop :=
  let '(a, b, c, fs) := x in let '(a', b', c', fs') := y in a = a' /\ b = b' /\ c = c' /\ fields_sim fs fs'.

Lemma find_match_loop_sim (vs : vars F) pat t1 t2 : same_tokens t1 t2 ->
  forall ri st tg fs1 fs2, fields_sim fs1 fs2 ->
  rel_exact fml_sim (find_match_loop vs pat t1 ri st tg fs1) (find_match_loop vs pat t2 ri st tg fs2).
Proof.
  induction 1 as [|a b r1 r2 Hab Hr IH]; intros ri st tg fs1 fs2 Hfs.
  - cbn. repeat split; assumption.
  - cbn [find_match_loop]. destruct Hab as [Hty Hact]. rewrite <- Hact, <- Hty.
    destruct (negb (ti_active a)); [apply IH, Hfs|].
    destruct (ti_ty a) as [ty|] eqn:Ety.
    + destruct (nth_opt pat ri) as [p|]; [|reflexivity].
      assert (Hinfo : info_eq a p = info_eq b p).
      { apply info_eq_sim. split; [congruence|exact Hact]. }
      rewrite <- Hinfo.
      set (same := match ty with TVariable v => variable_compare vs p (var_value vs v) | _ => info_eq a p end).
      destruct same.
      * destruct (get_field_name p) as [n|].
        -- assert (Hs : fields_sim (assoc_insert n a fs1) (assoc_insert n b fs2)).
           { apply assoc_insert_sim; [split; [congruence|exact Hact]|exact Hfs]. }
           destruct (Nat.eqb (length pat) (S ri)); [cbn; repeat split; exact Hs|apply IH, Hs].
        -- destruct (Nat.eqb (length pat) (S ri)); [cbn; repeat split; exact Hfs|apply IH, Hfs].
      * destruct (Nat.eqb (length pat) 0); [cbn; repeat split; exact Hfs|apply IH, Hfs].
    + destruct (Nat.eqb (length pat) ri); [cbn; repeat split; exact Hfs|apply IH, Hfs].
Qed.

Definition fm_sim (m1 m2 : @fm F) : Prop :=
  fm_total m1 = fm_total m2 /\ fm_rule_idx m1 = fm_rule_idx m2 /\ fm_start m1 = fm_start m2 /\
  fm_target m1 = fm_target m2 /\ fields_sim (fm_fields m1) (fm_fields m2).

Lemma find_match_sim (vs : vars F) pat t1 t2 : same_tokens t1 t2 ->
  rel_exact fm_sim (find_match vs pat t1) (find_match vs pat t2).
Proof.
  intros H. unfold find_match.
  pose proof (find_match_loop_sim vs pat t1 t2 H 0 0 0 [] [] (Forall2_nil _)) as Hl.
  destruct (find_match_loop vs pat t1 0 0 0 []) as [[[[a1 b1] c1] f1]|s1],
           (find_match_loop vs pat t2 0 0 0 []) as [[[[a2 b2] c2] f2]|s2]; cbn in Hl; try contradiction; cbn [bind].
  - destruct Hl as (-> & -> & -> & Hf). cbn. repeat split. exact Hf.
  - exact Hl.
Qed.

(* ---- replace_match ---- *)
Lemma mark_removed_sim from to : forall l1 l2, same_tokens l1 l2 ->
  forall idx, same_tokens (mark_removed l1 from to idx) (mark_removed l2 from to idx).
Proof.
  induction 1 as [|a b r1 r2 [Hty Hact] Hr IH]; intros idx; cbn [mark_removed]; [constructor|].
  constructor; [|apply IH].
  destruct (_ && _); [split; [exact Hty|reflexivity]|split; assumption].
Qed.

Lemma insert_at_sim n : forall (l1 l2 : list (token_info F)) x y, same_tok x y -> same_tokens l1 l2 ->
  same_tokens (insert_at n x l1) (insert_at n y l2).
Proof.
  induction n as [|n IH]; intros l1 l2 x y Hxy H; [cbn [insert_at]; constructor; assumption|].
  destruct H; cbn [insert_at]; [constructor; [exact Hxy|constructor]|]. constructor; [assumption|apply IH; assumption].
Qed.

Lemma replace_match_sim l1 l2 (m1 m2 : @fm F) tok : same_tokens l1 l2 -> fm_sim m1 m2 ->
  rel_exact same_tokens (replace_match l1 m1 tok) (replace_match l2 m2 tok).
Proof.
  intros H (_ & _ & Hs & Ht & _). unfold replace_match. rewrite Hs, Ht.
  pose proof (nth_opt_sim _ _ _ H (fm_start m2)) as Hf.
  pose proof (nth_opt_sim _ _ _ H (Nat.pred (fm_target m2))) as Hl.
  destruct (nth_opt l1 (fm_start m2)), (nth_opt l2 (fm_start m2)); cbn in Hf; try contradiction; [|reflexivity].
  destruct (nth_opt l1 _), (nth_opt l2 _); cbn in Hl; try contradiction; [|reflexivity].
  destruct (Nat.eqb _ _); [reflexivity|]. cbn.
  apply insert_at_sim; [split; reflexivity|apply mark_removed_sim, H].
Qed.

(* ---- the rule functions read the fields through field_token / has / the key list only ---- *)
Lemma field_token_sim (vs : vars F) k fs1 fs2 : fields_sim fs1 fs2 -> field_token vs k fs1 = field_token vs k fs2.
Proof.
  intros H. unfold field_token. pose proof (assoc_sim _ _ k H) as Ha.
  destruct (assoc k fs1), (assoc k fs2); cbn in Ha; try contradiction; [apply Ha|reflexivity].
Qed.

Lemma has_sim k fs1 fs2 : fields_sim fs1 fs2 -> @has F k fs1 = has k fs2.
Proof.
  intros H. unfold has, assoc_mem. pose proof (assoc_sim _ _ (s k) H) as Ha.
  destruct (assoc (s k) fs1), (assoc (s k) fs2); cbn in Ha; try contradiction; reflexivity.
Qed.

Lemma field_tok_sim k fs1 fs2 : fields_sim fs1 fs2 -> field_tok fs1 k = field_tok fs2 k.
Proof.
  intros H. unfold field_tok. pose proof (assoc_sim _ _ (s k) H) as Ha.
  destruct (assoc (s k) fs1), (assoc (s k) fs2); cbn in Ha; try contradiction; [apply Ha|reflexivity].
Qed.

Section Calls.
Variable bexec : config F -> str -> res (option F).
Variable yr : Z.

Lemma get_duration_sim (vs : vars F) k fs1 fs2 : fields_sim fs1 fs2 -> get_duration vs k fs1 = get_duration vs k fs2.
Proof. intros H. unfold get_duration. rewrite (field_token_sim vs k _ _ H). reflexivity. Qed.

Lemma combine_go_sim (vs : vars F) fs1 fs2 : fields_sim fs1 fs2 -> forall l1 l2, fields_sim l1 l2 -> forall sum,
  (fix go (l : fields F) (sum : Z) : rret F :=
     match l with
     | [] => some (TDuration sum)
     | (k, _) :: r =>
       match get_duration vs k fs1 with
       | None => none
       | Some d => match try_dur (sum + d) with Some sum' => go r sum' | None => none end
       end
     end) l1 sum =
  (fix go (l : fields F) (sum : Z) : rret F :=
     match l with
     | [] => some (TDuration sum)
     | (k, _) :: r =>
       match get_duration vs k fs2 with
       | None => none
       | Some d => match try_dur (sum + d) with Some sum' => go r sum' | None => none end
       end
     end) l2 sum.
Proof.
  intros H. induction 1 as [|[k1 v1] [k2 v2] r1 r2 [Hk _] Hr IH]; intros sum; [reflexivity|].
  cbn [fst] in Hk. subst k2. rewrite (get_duration_sim vs k1 _ _ H).
  destruct (get_duration vs k1 fs2); [|reflexivity].
  destruct (try_dur _); [apply IH|reflexivity].
Qed.

Theorem call_rule_sim cfg lang (vs : vars F) fname fs1 fs2 : fields_sim fs1 fs2 ->
  call_rule bexec yr cfg lang vs fname fs1 = call_rule bexec yr cfg lang vs fname fs2.
Proof.
  intros H. unfold call_rule.
  repeat match goal with |- (if ?b then _ else _) = _ => destruct b end; try reflexivity.
  15: { unfold combine_durations. rewrite !(fun k => has_sim k fs1 fs2 H).
        destruct (_ && _); [|reflexivity]. apply combine_go_sim; exact H. }
  all: unfold percent_calculator, convert_timezone, time_with_timezone, to_unixtime, from_unixtime, convert_money,
       number_on, number_of, number_off, division_cleanup, duration_parse, as_duration, to_duration, at_date,
       find_numbers_percent, find_total_from_percent, number_type_convert, dynamic_type_convert, small_date,
       get_number_or_time, money_or_number, get_number_or_price, get_number_or_month, get_currency, get_number,
       get_duration, get_time, get_date, get_date_time, get_text, get_dynamic_type, get_timezone, get_month, get_money,
       get_percent.
  all: rewrite ?(fun k => has_sim k fs1 fs2 H), ?(fun k => field_token_sim vs k fs1 fs2 H).
  all: reflexivity.
Qed.

Lemma api_call_sim cfg (r : apirule F) fs1 fs2 : fields_sim fs1 fs2 -> api_call cfg r fs1 = api_call cfg r fs2.
Proof.
  intros H. unfold api_call. rewrite !(fun k => field_tok_sim k fs1 fs2 H). reflexivity.
Qed.

Lemma get_number_sim (vs : vars F) k fs1 fs2 : fields_sim fs1 fs2 -> get_number vs k fs1 = get_number vs k fs2.
Proof. intros H. unfold get_number. rewrite (field_token_sim vs k _ _ H). reflexivity. Qed.

Lemma ui_type_field_res line ui (fs : fields F) : ui_res (ui_type_field line ui fs).
Proof.
  unfold ui_type_field. destruct (assoc _ fs); [apply ui_update_res|]. intros s0 E; discriminate.
Qed.

Lemma api_ui_fields_res line (fs : fields F) : forall ui, ui_res (api_ui_fields line ui fs).
Proof.
  induction fs as [|[k t] rest IH]; intros ui s0; cbn [api_ui_fields]; [discriminate|].
  destruct (ui_update line ui _ _ _) as [ui'|s1] eqn:E; cbn [bind].
  - apply IH.
  - intros E'; inversion E'; subst. eapply ui_update_res; exact E.
Qed.

(* the state after a rule / unit pattern fired *)
Lemma fire_sim st1 st2 (m1 m2 : @fm F) tok (u1 u2 : res (list uitoken)) :
  same_state st1 st2 -> fm_sim m1 m2 -> ui_res u1 -> ui_res u2 ->
  rel_res (rel_option same_state)
    (do ui' <- u1; do infos' <- replace_match (ts_infos st1) m1 tok; Ok (Some {| ts_infos := infos'; ts_ui := ui' |}))
    (do ui' <- u2; do infos' <- replace_match (ts_infos st2) m2 tok; Ok (Some {| ts_infos := infos'; ts_ui := ui' |})).
Proof.
  intros H Hm Hu1 Hu2. apply rel_ui_bind; [exact Hu1|exact Hu2|]. intros x y.
  pose proof (replace_match_sim _ _ m1 m2 tok H Hm) as Hr.
  destruct (replace_match (ts_infos st1) m1 tok), (replace_match (ts_infos st2) m2 tok); cbn in Hr; try contradiction;
    right; right; cbn; exact Hr.
Qed.

(* ---- unit recognition ---- *)
Lemma dyn_try_patterns_sim line1 line2 (vs : vars F) d pats : forall st1 st2, same_state st1 st2 ->
  rel_res (rel_option same_state) (dyn_try_patterns line1 vs d pats st1) (dyn_try_patterns line2 vs d pats st2).
Proof.
  induction pats as [|pat rest IH]; intros st1 st2 H; [right; right; exact I|].
  cbn [dyn_try_patterns].
  pose proof (find_match_sim vs pat _ _ H) as Hm.
  destruct (find_match vs pat (ts_infos st1)) as [m1|s1], (find_match vs pat (ts_infos st2)) as [m2|s2];
    cbn in Hm; try contradiction; cbn [bind]; [|right; right; exact Hm].
  pose proof Hm as (Ht & Hri & Hs & Htg & Hf). rewrite Ht, Hri, Hs, Htg.
  destruct (Nat.eqb _ _); [|apply IH, H].
  rewrite (get_number_sim vs _ _ _ Hf).
  destruct (get_number vs _ (fm_fields m2)); [|apply IH, H].
  pose proof (nth_opt_sim _ _ _ H (fm_start m2)) as Hn1.
  pose proof (nth_opt_sim _ _ _ H (Nat.pred (fm_target m2))) as Hn2.
  destruct (nth_opt (ts_infos st1) (fm_start m2)), (nth_opt (ts_infos st2) (fm_start m2)); cbn in Hn1; try contradiction;
    [|right; right; reflexivity].
  destruct (nth_opt (ts_infos st1) _), (nth_opt (ts_infos st2) _); cbn in Hn2; try contradiction;
    [|right; right; reflexivity].
  destruct (Nat.eqb _ _); [right; right; reflexivity|].
  apply fire_sim; [exact H|exact Hm|apply ui_type_field_res|apply ui_type_field_res].
Qed.

Definition sweep_sim (x y : @Rules.tstate F * bool) : Prop := same_state (fst x) (fst y) /\ snd x = snd y.

Lemma dyn_sweep_units_sim line1 line2 (vs : vars F) units : forall st1 st2 fired, same_state st1 st2 ->
  rel_res sweep_sim (dyn_sweep_units line1 vs units st1 fired) (dyn_sweep_units line2 vs units st2 fired).
Proof.
  induction units as [|d rest IH]; intros st1 st2 fired H; [right; right; split; [exact H|reflexivity]|].
  cbn [dyn_sweep_units].
  eapply rel_bind; [apply dyn_try_patterns_sim, H|].
  intros [a|] [b|] Hab; cbn in Hab; try contradiction; [apply IH, Hab|apply IH, H].
Qed.

Theorem dyn_loop_sim fuel line1 line2 cfg (vs : vars F) : forall st1 st2, same_state st1 st2 ->
  rel_res (rel_option same_state) (dyn_loop fuel line1 cfg vs st1) (dyn_loop fuel line2 cfg vs st2).
Proof.
  induction fuel as [|f IH]; intros st1 st2 H; [right; right; exact I|].
  cbn [dyn_loop]. eapply rel_bind; [apply dyn_sweep_units_sim, H|].
  intros [a fa] [b fb] [Hab Hf]; cbn [fst snd] in Hab, Hf. subst fb.
  destruct fa; [apply IH, Hab|right; right; exact Hab].
Qed.

(* ---- the rule loop ---- *)
Lemma rule_try_patterns_sim line1 line2 cfg lang (vs : vars F) r pats : forall st1 st2, same_state st1 st2 ->
  rel_res (rel_option same_state) (rule_try_patterns bexec yr line1 cfg lang vs r pats st1)
                                  (rule_try_patterns bexec yr line2 cfg lang vs r pats st2).
Proof.
  induction pats as [|pat rest IH]; intros st1 st2 H; [right; right; exact I|].
  cbn [rule_try_patterns].
  pose proof (find_match_sim vs pat _ _ H) as Hm.
  destruct (find_match vs pat (ts_infos st1)) as [m1|s1], (find_match vs pat (ts_infos st2)) as [m2|s2];
    cbn in Hm; try contradiction; cbn [bind]; [|right; right; exact Hm].
  pose proof Hm as (Ht & Hri & Hs & Htg & Hf). rewrite Ht, Hri, Hs, Htg.
  destruct (Nat.eqb _ _); [|apply IH, H].
  pose proof (nth_opt_sim _ _ _ H (fm_start m2)) as Hn1.
  pose proof (nth_opt_sim _ _ _ H (Nat.pred (fm_target m2))) as Hn2.
  destruct r as [fname ps|ps ar].
  - rewrite (call_rule_sim cfg lang vs fname _ _ Hf).
    apply rel_eq_bind. intros [tok|]; [|apply IH, H].
    destruct (nth_opt (ts_infos st1) (fm_start m2)), (nth_opt (ts_infos st2) (fm_start m2)); cbn in Hn1; try contradiction;
      [|right; right; reflexivity].
    destruct (nth_opt (ts_infos st1) _), (nth_opt (ts_infos st2) _); cbn in Hn2; try contradiction;
      [|right; right; reflexivity].
    apply fire_sim; [exact H|exact Hm|apply ui_type_field_res|apply ui_type_field_res].
  - rewrite (api_call_sim cfg ar _ _ Hf).
    destruct (api_call cfg ar (fm_fields m2)) as [tok|]; [|apply IH, H].
    destruct (nth_opt (ts_infos st1) (fm_start m2)), (nth_opt (ts_infos st2) (fm_start m2)); cbn in Hn1; try contradiction;
      [|right; right; reflexivity].
    destruct (nth_opt (ts_infos st1) _), (nth_opt (ts_infos st2) _); cbn in Hn2; try contradiction;
      [|right; right; reflexivity].
    apply fire_sim; [exact H|exact Hm|apply api_ui_fields_res|apply api_ui_fields_res].
Qed.

Lemma rule_sweep_sim line1 line2 cfg lang (vs : vars F) rules : forall st1 st2 fired, same_state st1 st2 ->
  rel_res sweep_sim (rule_sweep bexec yr line1 cfg lang vs rules st1 fired)
                    (rule_sweep bexec yr line2 cfg lang vs rules st2 fired).
Proof.
  induction rules as [|r rest IH]; intros st1 st2 fired H; [right; right; split; [exact H|reflexivity]|].
  cbn [rule_sweep].
  eapply rel_bind; [apply rule_try_patterns_sim, H|].
  intros [a|] [b|] Hab; cbn in Hab; try contradiction; [apply IH, Hab|apply IH, H].
Qed.

Lemma rule_loop_sim fuel line1 line2 cfg lang (vs : vars F) rules : forall st1 st2, same_state st1 st2 ->
  rel_res (rel_option same_state) (rule_loop bexec yr fuel line1 cfg lang vs rules st1)
                                  (rule_loop bexec yr fuel line2 cfg lang vs rules st2).
Proof.
  induction fuel as [|f IH]; intros st1 st2 H; [right; right; exact I|].
  cbn [rule_loop]. eapply rel_bind; [apply rule_sweep_sim, H|].
  intros [a fa] [b fb] [Hab Hf]; cbn [fst snd] in Hab, Hf. subst fb.
  destruct fa; [apply IH, Hab|right; right; exact Hab].
Qed.

Theorem rule_tokinizer_sim fuel line1 line2 cfg lang (vs : vars F) st1 st2 : same_state st1 st2 ->
  rel_res (rel_option same_state) (rule_tokinizer bexec yr fuel line1 cfg lang vs st1)
                                  (rule_tokinizer bexec yr fuel line2 cfg lang vs st2).
Proof.
  intros H. unfold rule_tokinizer. destruct (lang_rules cfg lang); [apply rule_loop_sim, H|right; right; exact H].
Qed.

End Calls.

(* ---- the token list ---- *)
Lemma token_generator_sim l1 l2 : same_tokens l1 l2 -> token_generator l1 = token_generator l2.
Proof.
  induction 1 as [|a b r1 r2 [Hty Hact] Hr IH]; [reflexivity|].
  unfold token_generator in *. cbn [flat_map]. rewrite Hty, Hact, IH. reflexivity.
Qed.

Lemma token_cleaner_sim l1 l2 (ts : list (token F)) : same_tokens l1 l2 -> token_cleaner l1 ts = token_cleaner l2 ts.
Proof.
  intros H. unfold token_cleaner. rewrite (find_index_sim _ info_is_eq_sim _ _ H). reflexivity.
Qed.

End Positions.

(* ---- the stages as Api.tokinize / Api.execute_text compose them ---- *)
Section Composed.
Context {F : Type} {NF : Num F}.
Variable lx : lexdata.
Variable ck : clock.

(* the lexer: month parser, regex parsers, aliases (Lexer.v); everything Api.tokinize does before the variables *)
Definition lexed (cfg : config F) (lang line : str) : res (@Rules.tstate F) :=
  do st1 <- language_tokinizer lx cfg lang line empty_state;
  do st2 <- regex_tokinizer lx (ck_today ck) cfg lang line st1;
  alias_tokinizer lx (ck_today ck) cfg lang st2.

(* ... and everything it does afterwards *)
Definition post_lexer (cfg : config F) (lang : str) (vs : vars F) (line : str) (st3 : @Rules.tstate F)
  : res (@Rules.tstate F * list (token F)) :=
  do st4 <- unfuel (update_token_variables line vs st3);
  do st5 <- unfuel (dyn_loop (loop_fuel st4) line cfg vs st4);
  do st6 <- unfuel (rule_tokinizer (basic_execute lx ck) (ck_year ck) (loop_fuel st5) line cfg lang vs st5);
  let tokens := token_generator (ts_infos st6) in
  let tokens := token_cleaner (ts_infos st6) tokens in
  let tokens := missing_token_adder tokens in
  Ok (st6, tokens).

Lemma tokinize_split cfg lang vs line :
  tokinize lx ck cfg lang vs line = bind (lexed cfg lang line) (post_lexer cfg lang vs line).
Proof.
  unfold tokinize, lexed, post_lexer.
  destruct (language_tokinizer lx cfg lang line empty_state) as [st1|]; cbn [bind]; [|reflexivity].
  destruct (regex_tokinizer lx (ck_today ck) cfg lang line st1) as [st2|]; cbn [bind]; reflexivity.
Qed.

Lemma unfuel_sim {A} (R : A -> A -> Prop) r1 r2 :
  rel_res (rel_option R) r1 r2 -> rel_res R (unfuel r1) (unfuel r2).
Proof.
  intros [->|[->|H]]; [left; reflexivity|right; left; reflexivity|].
  destruct r1 as [[a|]|s1], r2 as [[b|]|s2]; cbn in H; try contradiction; right; right; cbn; auto.
Qed.

Lemma loop_fuel_sim (s1 s2 : @Rules.tstate F) : same_state s1 s2 -> loop_fuel s1 = loop_fuel s2.
Proof. intros H. unfold loop_fuel. rewrite (same_tokens_length _ _ H). reflexivity. Qed.

Definition tok_sim (x y : @Rules.tstate F * list (token F)) : Prop := same_state (fst x) (fst y) /\ snd x = snd y.

(* after the lexer only the SEQUENCE of typed tokens matters: the line itself is read for highlighting only *)
Theorem post_lexer_sim cfg lang vs line1 line2 st1 st2 : same_state st1 st2 ->
  rel_res tok_sim (post_lexer cfg lang vs line1 st1) (post_lexer cfg lang vs line2 st2).
Proof.
  intros H. unfold post_lexer.
  eapply rel_bind; [apply unfuel_sim, update_token_variables_sim, H|]. intros a4 b4 H4.
  rewrite (loop_fuel_sim _ _ H4).
  eapply rel_bind; [apply unfuel_sim, dyn_loop_sim, H4|]. intros a5 b5 H5.
  rewrite (loop_fuel_sim _ _ H5).
  eapply rel_bind; [apply unfuel_sim, rule_tokinizer_sim, H5|]. intros a6 b6 H6.
  right. right. split; [exact H6|]. cbn [snd].
  rewrite (token_generator_sim _ _ H6), (token_cleaner_sim _ _ _ H6). reflexivity.
Qed.

Theorem tokinize_sim cfg lang vs line1 line2 :
  rel_res same_state (lexed cfg lang line1) (lexed cfg lang line2) ->
  rel_res tok_sim (tokinize lx ck cfg lang vs line1) (tokinize lx ck cfg lang vs line2).
Proof.
  intros H. rewrite !tokinize_split. eapply rel_bind; [exact H|]. intros a b Hab. apply post_lexer_sim, Hab.
Qed.

(* what a line evaluates to: value or error message, and the token list; not the highlighting, not the infos *)
Definition obs_result (o : option (line_obs (F:=F))) : option (line_result (F:=F) * list (token F)) :=
  option_map (fun o => (lo_result o, lo_tokens o)) o.

Definition exec_sim (x y : option (line_obs (F:=F)) * vars F) : Prop :=
  obs_result (fst x) = obs_result (fst y) /\ snd x = snd y.

Theorem execute_text_sim cfg lang vs line1 line2 :
  line1 <> [] -> line2 <> [] ->
  rel_res same_state (lexed cfg lang line1) (lexed cfg lang line2) ->
  rel_res exec_sim (execute_text lx ck cfg lang vs line1) (execute_text lx ck cfg lang vs line2).
Proof.
  intros N1 N2 H. unfold execute_text.
  destruct line1 as [|c1 r1]; [congruence|]. destruct line2 as [|c2 r2]; [congruence|].
  eapply rel_bind; [apply tokinize_sim, H|].
  intros [st1 tk1] [st2 tk2] [Hs Ht]. cbn [fst snd] in Hs, Ht. subst tk2.
  destruct Hs as [|a b l1 l2 Hab Hl]; [right; right; split; reflexivity|].
  destruct (parse tk1 vs) as [[a0|m|] vs1].
  - apply rel_eq_bind. intros [[v|m] vs2].
    + apply rel_eq_bind. intros out. right. right. split; reflexivity.
    + right. right. split; reflexivity.
  - right. right. split; reflexivity.
  - right. right. reflexivity.
Qed.

End Composed.

(* ------------------------------------------------------------------------------------- *)
(* 4. the comparisons of the keyword classes are case-insensitive                         *)
(* ------------------------------------------------------------------------------------- *)
Section CaseCompare.
Context {F : Type} {NF : Num F}.

(* two spellings of one word: the same lower-case image (what `changing the letter case` means) *)
Definition same_lower (a a' : str) : Prop := to_lowercase a = to_lowercase a'.

Lemma ci_eqb_same_lower_r x a a' : same_lower a a' -> ci_eqb x a = ci_eqb x a'.
Proof. intro H. unfold ci_eqb. rewrite H. reflexivity. Qed.

Lemma ci_eqb_same_lower_l x a a' : same_lower a a' -> ci_eqb a x = ci_eqb a' x.
Proof. intro H. unfold ci_eqb. rewrite H. reflexivity. Qed.

Lemma opt_expected_same_lower e a a' : same_lower a a' -> opt_expected e a = opt_expected e a'.
Proof. intro H. destruct e; cbn [opt_expected]; [apply ci_eqb_same_lower_r, H|reflexivity]. Qed.

Lemma group_same_lower items a a' : same_lower a a' ->
  existsb (fun it => ci_eqb it a) items = existsb (fun it => ci_eqb it a') items.
Proof.
  intro H. induction items as [|it r IH]; [reflexivity|]. cbn [existsb].
  rewrite IH, (ci_eqb_same_lower_r it a a' H). reflexivity.
Qed.

(* TokenType::field_compare on a text token: {TEXT:name:word}, {GROUP:name:group} and the type groups *)
Theorem field_compare_same_lower a a' f : same_lower a a' ->
  token_field_compare (TText a : token F) f = token_field_compare (TText a' : token F) f.
Proof.
  intro H. destruct f; cbn [token_field_compare]; try reflexivity.
  - apply opt_expected_same_lower, H.
  - apply group_same_lower, H.
Qed.

(* the PartialEq of tokens: a literal word of a rule pattern against a word of the line, either side *)
Theorem token_match_same_lower_l a a' (r : token F) :
  same_lower a a' -> token_match (TText a) r = token_match (TText a') r.
Proof.
  intro H. destruct r; cbn [token_match]; try reflexivity.
  - apply ci_eqb_same_lower_l, H.
  - apply field_compare_same_lower, H.
Qed.

Theorem token_match_same_lower_r a a' (l : token F) : same_lower a a' -> token_match l (TText a) = token_match l (TText a').
Proof.
  intro H. destruct l; cbn [token_match]; try reflexivity.
  - apply ci_eqb_same_lower_r, H.
  - apply field_compare_same_lower, H.
Qed.

(* ... hence the comparison of a line token with ANY rule-pattern token (rule loop, unit recognition) and with the
   tokens of a variable definition (variable substitution) *)
Theorem info_eq_same_lower (t t' p : token_info F) a a' : same_lower a a' ->
  ti_ty t = Some (TText a) -> ti_ty t' = Some (TText a') -> ti_active t = ti_active t' ->
  info_eq t p = info_eq t' p.
Proof.
  intros H E E' Ha. unfold info_eq. rewrite E, E', Ha.
  destruct (ti_ty p) as [r|]; [|reflexivity]. rewrite (token_match_same_lower_l a a' r H). reflexivity.
Qed.

Theorem info_eq_token_same_lower (t t' : token_info F) p a a' : same_lower a a' ->
  ti_ty t = Some (TText a) -> ti_ty t' = Some (TText a') ->
  info_eq_token t p = info_eq_token t' p.
Proof.
  intros H E E'. unfold info_eq_token. rewrite E, E'.
  rewrite <- (token_match_same_lower_l a a' p H). reflexivity.
Qed.

(* a variable whose NAME tokens were written in another case is still found (definition side) *)
Theorem info_eq_token_same_lower_pat (t : token_info F) a a' : same_lower a a' ->
  info_eq_token t (TText a) = info_eq_token t (TText a').
Proof.
  intros H. unfold info_eq_token. destruct (ti_ty t) as [l|]; [|reflexivity].
  rewrite <- (token_match_same_lower_r a a' l H). destruct l; reflexivity.
Qed.

(* a variable holding a symbol against a pattern word *)
Theorem variable_compare_same_lower (vs : vars F) (p : token_info F) a a' : same_lower a a' ->
  variable_compare vs p (ASymbol a) = variable_compare vs p (ASymbol a').
Proof.
  intros H. unfold variable_compare. destruct (ti_ty p) as [[]|]; try reflexivity.
  - apply ci_eqb_same_lower_r, H.
  - destruct f; cbn [ast_field_compare]; try reflexivity. apply opt_expected_same_lower, H.
Qed.

(* currency codes and aliases: tools.rs read_currency lower-cases first *)
Theorem read_currency_same_lower (cfg : config F) a a' : same_lower a a' -> read_currency cfg a = read_currency cfg a'.
Proof. intro H. unfold read_currency. rewrite H. reflexivity. Qed.

Theorem get_currency_text_same_lower (cfg : config F) vs k (fs fs' : fields F) a a' : same_lower a a' ->
  field_token vs k fs = Some (TText a) -> field_token vs k fs' = Some (TText a') ->
  get_currency cfg vs k fs = get_currency cfg vs k fs'.
Proof. intros H E E'. unfold get_currency. rewrite E, E'. apply read_currency_same_lower, H. Qed.

(* aliases (times, minus, euro ...): the alias regexes see the lower-cased text of the token *)
Theorem alias_apply_same_lower (lx : lexdata) today (cfg : config F) aliases (t t' : token_info F) :
  same_lower (ti_text t) (ti_text t') -> ti_ty t = ti_ty t' -> ti_active t = ti_active t' ->
  rel_exact same_tok (alias_apply lx today cfg aliases t) (alias_apply lx today cfg aliases t').
Proof.
  intros H Ety Ea. induction aliases as [|[c data] r IH]; [cbn; split; assumption|].
  cbn [alias_apply]. rewrite H.
  destruct (re_is_match c (to_lowercase (ti_text t'))); [|exact IH].
  destruct (get_atom today cfg data (atom_regexes lx)) as [atoms|s0]; cbn [bind]; [|reflexivity].
  destruct atoms as [|[[[? ?] ty] ?] [|]]; [cbn; split; [reflexivity|exact Ea]|cbn; split; [reflexivity|exact Ea]|exact IH].
Qed.

(* month names: the month parser searches the lower-cased line in front of '#';
   zone names: the zone parser searches the upper-cased line.  Both read the line itself only for highlighting. *)
Definition month_body (line data : str) (mi : monthinfo) : @parser_body F := fun c cp st =>
  match cap_get cp 0 with
  | None => Ok st
  | Some (b, e) =>
    let '(st1, ok) := add_token st b e (Some (TMonth (mi_month mi))) (slice data (b, e)) in
    Ok (if ok then with_ui st1 (ui_add line (ts_ui st1) b e UMonth) else st1)
  end.

Definition same_infos (s1 s2 : @Rules.tstate F) : Prop := ts_infos s1 = ts_infos s2.

Lemma month_caps line line' data mi c cps : forall s1 s1', same_infos s1 s1' ->
  rel_exact same_infos (over_captures (month_body line data mi) c cps s1)
                       (over_captures (month_body line' data mi) c cps s1').
Proof.
  induction cps as [|cp rest IHc]; intros s1 s1' Hs; [cbn; exact Hs|].
  cbn [over_captures]. unfold month_body at 1 3. destruct (cap_get cp 0) as [[b e]|]; cbn [bind]; [|apply IHc, Hs].
  unfold add_token. unfold same_infos in Hs. rewrite Hs.
  destruct (collides (ts_infos s1') b e); cbn [bind]; apply IHc; unfold same_infos; cbn [ts_infos with_ui];
    [exact Hs|reflexivity].
Qed.

Theorem month_parser_reads_lowercase (lx : lexdata) (cfg : config F) lang line line' :
  to_lowercase line = to_lowercase line' ->
  forall st st', same_infos st st' ->
  rel_exact same_infos (month_parser lx cfg lang line st) (month_parser lx cfg lang line' st').
Proof.
  intros H. unfold month_parser. rewrite H.
  destruct (assoc lang (lx_months lx)) as [months|]; [|intros; cbn; assumption].
  induction months as [|[c mi] r IH]; intros st st' Hst; [cbn; exact Hst|].
  set (data := before_hash (to_lowercase line')) in *.
  pose proof (month_caps line line' data mi c (caps_iter c data) st st' Hst) as Hc.
  match goal with |- rel_exact _ (bind ?x _) (bind ?y _) =>
    change x with (over_captures (month_body line data mi) c (caps_iter c data) st);
    change y with (over_captures (month_body line' data mi) c (caps_iter c data) st') end.
  destruct (over_captures (month_body line data mi) c (caps_iter c data) st) as [s1|p1],
           (over_captures (month_body line' data mi) c (caps_iter c data) st') as [s1'|p1'];
    cbn in Hc; try contradiction; cbn [bind]; [apply IH, Hc|exact Hc].
Qed.

Lemma timezone_caps (cfg : config F) line line' data c cps : forall s1 s1', same_infos s1 s1' ->
  rel_exact same_infos (over_captures (timezone_body cfg line data) c cps s1)
                       (over_captures (timezone_body cfg line' data) c cps s1').
Proof.
  induction cps as [|cp rest IHc]; intros s1 s1' Hs; [cbn; exact Hs|].
  cbn [over_captures]. unfold timezone_body at 1 3.
  destruct (parse_timezone cfg c data cp) as [[tz off]|]; [|cbn [bind]; apply IHc, Hs].
  destruct (cap_get cp 0) as [[b e]|]; cbn [bind]; [|apply IHc, Hs].
  unfold add_token. unfold same_infos in Hs. rewrite Hs.
  destruct (collides (ts_infos s1') b e); cbn [bind]; apply IHc; unfold same_infos; cbn [ts_infos with_ui];
    [exact Hs|reflexivity].
Qed.

Theorem timezone_parser_reads_uppercase today (cfg : config F) lang line line' regexes :
  to_uppercase line = to_uppercase line' ->
  forall st st', same_infos st st' ->
  rel_exact same_infos (run_parser today cfg lang line (s "timezone") regexes st)
                       (run_parser today cfg lang line' (s "timezone") regexes st').
Proof.
  intros H. unfold run_parser.
  change (str_is (s "timezone") "comment") with false. change (str_is (s "timezone") "field") with false.
  change (str_is (s "timezone") "money") with false. change (str_is (s "timezone") "atom") with false.
  change (str_is (s "timezone") "percent") with false. change (str_is (s "timezone") "timezone") with true.
  cbv iota. rewrite H. set (data := to_uppercase line').
  induction regexes as [|c r IH]; intros st st' Hst; [cbn; exact Hst|].
  cbn [over_regexes].
  pose proof (timezone_caps cfg line line' data c (caps_iter c data) st st' Hst) as Hc.
  destruct (over_captures (timezone_body cfg line data) c (caps_iter c data) st) as [s1|p1],
           (over_captures (timezone_body cfg line' data) c (caps_iter c data) st') as [s1'|p1'];
    cbn in Hc; try contradiction; cbn [bind]; [apply IH, Hc|exact Hc].
Qed.

End CaseCompare.


(* ------------------------------------------------------------------------------------- *)
(* 3. + 5. through the whole model at binary64 (Run64.exec64, the loaded default config)   *)
(* ------------------------------------------------------------------------------------- *)
From Coq Require Import Floats.
From SC.Model Require Import NumF64 Run64.

(* the clock of the examples: 28 Sep 2026 *)
Definition CK16 : clock := {| ck_today := 20724; ck_year := 2026 |}.

(* the VALUE of every line of a text: nothing / error message / result (not the printed text, not the highlighting) *)
Definition values_of (lang : string) (text : str) : option (list (option (str + ast float))) :=
  match exec64 CK16 default_config (s lang) text with
  | Ok r => Some (map (option_map (fun o => match lo_result o with LErr m => inl m | LOk _ v => inr v end)) (er_lines r))
  | Panic _ => None
  end.
Definition values (lang text : string) := values_of lang (s text).

Definition is_value (x : option (str + ast float)) : bool :=
  match x with Some (inr (AItem _)) => true | _ => false end.
Definition evaluates (lang text : string) : bool :=
  match values lang text with Some ls => forallb is_value ls | None => false end.

(* every rewriting gives the values of the original, and the original evaluates to a value on every line *)
Fixpoint agree (lang orig : string) (rewritten : list string) : Prop :=
  match rewritten with
  | [] => evaluates lang orig = true
  | v :: r => values lang v = values lang orig /\ agree lang orig r
  end.

Ltac conjs := repeat match goal with |- _ /\ _ => split end.
Ltac agree_tac := cbn [agree]; conjs; vm_compute; reflexivity.

(* blank-only lines, every length from 1 to 80; the slot is empty (and the whole text gives exactly one slot) *)
Definition blank_only_upto (n : nat) : bool :=
  forallb (fun k => match values_of "en" (repeat 32%N k) with Some [None] => true | _ => false end) (seq 1 n).

Example blank_only_80 : blank_only_upto 80 = true.
Proof. vm_compute. reflexivity. Qed.

(* comment-only lines: 0-3 blanks, '#', a comment text, for en and tr *)
Definition COMMENT_TEXTS : list string :=
  [""; " "; " note"; "march 2020"; " jan"; "5 + 3"; "* 2"; " 10 usd to try"; "to hex"; " # again"; "#"; "x = 9"; "50%";
   " est"; "12:30 pm"; "today"; " 2 hours"; "("; ")"; "= 1"; "$5"; "- 1"; "/ 0"; "of what"; "[NUMBER:3]"; "{NUMBER:n}";
   "1k"; "0x10"; "GMT+3"; " mart"; "kere 2"; "   "]%string.

Definition comment_only_all : bool :=
  forallb (fun lang =>
    forallb (fun c =>
      forallb (fun k => match values_of lang (repeat 32%N k ++ 35%N :: s c) with Some [None] => true | _ => false end)
              [0; 1; 3]%nat) COMMENT_TEXTS) ["en"; "tr"]%string.

Example comment_only_family : comment_only_all = true.
Proof. vm_compute. reflexivity. Qed.

(* blank and comment lines between evaluable lines: empty slots, the other values unchanged *)
Example noise_between :
  values "en" "v = 7
   
# v = 9
v * 3
  # march
v + 1" = Some [Some (inr (AItem (INumber 7%float Decimal))); None; None; Some (inr (AItem (INumber 21%float Decimal))); None;
               Some (inr (AItem (INumber 8%float Decimal)))].
Proof. vm_compute. reflexivity. Qed.

(* ---- original vs rewritten lines, per feature area and rewriting kind ---- *)
Local Open Scope string_scope.
Example pipeline_arith :
  agree "en" "3 + 4 * 2" ["3  +   4 *  2"; "  3 + 4 * 2   "; "3 + 4 * 2 # 5 + 3"; "3 + 4 * 2# march 2020"; "3+4*2";
                          " 3+4 *2  #  x = 9"] /\
  agree "en" "(1 + 2) * 3" ["( 1 + 2 ) * 3"; "(  1+2  )*3"; "(1 + 2) * 3 # )"; "  ( 1 + 2 )   *   3  "] /\
  agree "en" "2 times 3" ["2 TIMES 3"; "2   Times   3"; "2 times 3 # times"] /\
  agree "en" "8 / 2 - 1" ["8/2-1"; "8 /2 -1"; "8  /  2  -  1   "; "8 / 2 - 1 #- 1"] /\
  agree "en" "0x1F + 1" ["0x1F  +  1"; "0x1F+1"; " 0x1F + 1 # 0x10"] /\
  agree "en" "255 to hex" ["255 TO hex"; "255  To   hex"; "255 to hex # to hex"; "  255 to hex"].
Proof. conjs; agree_tac. Qed.

Example pipeline_percent :
  agree "en" "10% of 50" ["10% OF 50"; "10%   Of  50"; "10% of 50 # 50%"; " 10% of 50 "] /\
  agree "en" "10% on 50" ["10% ON 50"; "10%  on   50"; "10% on 50#on"] /\
  agree "en" "10% off 50 usd" ["10% OFF 50 USD"; "10%  oFf  50   Usd"; "10% off 50 usd  # $5"] /\
  agree "en" "50 + 10%" ["50  +  10%"; "50+10%"; "  50 + 10%  "; "50 + 10% # 1k"] /\
  agree "en" "10 is what % of 50" ["10 IS WHAT % OF 50"; "10 Is  What  %  oF 50"; "10 is what%of 50"; "10 is what % of 50 # of what"] /\
  agree "en" "5 is 10% of what" ["5 IS 10% OF WHAT"; "5  is  10%  of  what  "; "5 is 10% of what #what"].
Proof. conjs; agree_tac. Qed.

Example pipeline_money :
  agree "en" "10 usd" ["10 USD"; "10 Usd"; "10    usd"; " 10 usd # usd"; "10 uSD  "] /\
  agree "en" "10 dollar" ["10 DOLLAR"; "10 Dollar"; "10   dollar"] /\
  agree "en" "10 usd to try" ["10 USD TO TRY"; "10 Usd tO tRy"; "10  usd   to  try"; "10 usd to try # 10 usd to try";
                              "   10 usd to try"; "10 usd to Tl"; "10 usd IN try"] /\
  agree "en" "10 usd + 5 eur" ["10 USD + 5 EUR"; "10 usd+5 eur"; "10  usd  +  5  euro"; "10 usd + 5 eur #+"] /\
  agree "en" "$10 + 5%" ["$10  +  5%"; " $10 + 5% "; "$10 + 5% # $5"] /\
  agree "en" "10 euro as usd" ["10 EURO AS USD"; "10 Euro  As  Usd"; "10 euro as usd # euro"].
Proof. conjs; agree_tac. Qed.

Example pipeline_dates :
  agree "en" "3 march 2020" ["3 MARCH 2020"; "3 March 2020"; "3   mArCh   2020"; "3 march 2020 # march 2020"; "  3 march 2020  ";
                             "3 march 2020#jan"] /\
  agree "en" "march 3, 2020" ["MARCH 3, 2020"; "March   3,   2020"; "march 3, 2020 # ,"] /\
  agree "en" "3/4/2020" ["3 / 4 / 2020"; "3/ 4 /2020"; " 3/4/2020 # /"] /\
  agree "en" "3 march 2020 + 5 days" ["3 MARCH 2020 + 5 days"; "3  march  2020  +  5  days"; "3 march 2020+5 days";
                                      "3 march 2020 + 5 days # - 1"] /\
  agree "en" "3 march 2020 - 2 months" ["3 Mar 2020 - 2 months"; "3 march 2020   -   2 months"; "3 march 2020 - 2 months #jan"] /\
  agree "en" "1 jan 2020 to 5 feb 2020" ["1 JAN 2020 TO 5 FEB 2020"; "1 Jan 2020   To   5 Feb 2020"; "1 jan 2020 to 5 feb 2020 # to"] /\
  agree "en" "5 march 2020 at 12:30" ["5 MARCH 2020 AT 12:30"; "5 march 2020   At   12:30"; "5 march 2020 at 12:30 # at"] /\
  agree "en" "17 jul" ["17 JUL"; "17   Jul"; "17 jul # 2020"; "  17 jul"].
Proof. conjs; agree_tac. Qed.

Example pipeline_times :
  agree "en" "12:30 est" ["12:30 EST"; "12:30 Est"; "12:30    eSt"; "12:30 est # gmt"; " 12:30 est "] /\
  agree "en" "12:30 EST to GMT" ["12:30 est to gmt"; "12:30 Est TO Gmt"; "12:30  EST   to   GMT"; "12:30 EST to GMT # cet";
                                 "12:30 EST in GMT"; "12:30 EST As gmt"] /\
  agree "en" "12:30 gmt+3" ["12:30 GMT+3"; "12:30   Gmt+3"; "12:30 gmt+3 # GMT+3"] /\
  agree "en" "12:30 to 14:00" ["12:30 TO 14:00"; "12:30   to   14:00"; "12:30 to 14:00 # 12:30 pm"] /\
  agree "en" "3 pm + 2 hours" ["3 pm  +  2 hours"; "3 pm+2 hours"; "  3 pm + 2 hours  # 3 pm"] /\
  agree "en" "1600000000 to date" ["1600000000 TO DATE"; "1600000000   To   Date"; "1600000000 to date # date"] /\
  agree "en" "1600000000 to est" ["1600000000 TO EST"; "1600000000 to Est"; "1600000000  to  est  "] /\
  agree "en" "12:30 est to unix" ["12:30 EST TO UNIX"; "12:30 est  To  Unix"; "12:30 est to unix # unix"].
Proof. conjs; agree_tac. Qed.

Example pipeline_durations_units :
  agree "en" "1 hour 5 minutes" ["1  hour   5  minutes"; "  1 hour 5 minutes  "; "1 hour 5 minutes # 2 hours"] /\
  agree "en" "3 days + 1 week" ["3 days  +  1 week"; "3 days+1 week"; "3 days + 1 week #week"] /\
  agree "en" "2 hours as minutes" ["2 hours AS minutes"; "2 hours   As   minutes"; "2 hours TO minutes"; "2 hours as minutes # as"] /\
  agree "en" "10 km to m" ["10 km TO m"; "10 km   To   m"; "10  km  to  m"; "10 km to m # cm"; "10 km INTO m"] /\
  agree "en" "5 kb to mb" ["5 kb TO mb"; "5   kb   to   mb  "; "5 kb to mb#gb"] /\
  agree "en" "10 km + 5 m" ["10 km  +  5 m"; "10 km+5 m"; " 10 km + 5 m # m"].
Proof. conjs; agree_tac. Qed.

Example pipeline_variables :
  agree "en" "x = 3
x + 1" ["X = 3
x + 1"; "x = 3
X + 1"; "x=3
x+1"; "  x  =  3  
  x  +  1  "; "x = 3 # x = 9
x + 1 # x"] /\
  agree "en" "my var = 10 usd
my var to try
my var + 5%" ["My Var = 10 usd
my var to try
MY VAR + 5%"; "my var = 10 USD
my var TO Try
my var + 5%"; "my   var   =   10 usd
my  var  to  try
my var  +  5%"; "my var = 10 usd # my var
my var to try # try
my var + 5% # 5%"] /\
  agree "en" "price = 12:30 est
price to gmt" ["PRICE = 12:30 EST
Price To Gmt"; "price=12:30 est
  price   to   gmt  # est"] /\
  agree "en" "d = 3 march 2020
d + 2 days" ["d = 3 MARCH 2020
D + 2 days"; "d  =  3  march  2020   # march
d+2 days"].
Proof. conjs; agree_tac. Qed.

Example pipeline_tr :
  agree "tr" "10 usd try" ["10 USD TRY"; "10   Usd   Try"; "10 usd try # try"] /\
  agree "tr" "5 mart 2020" ["5 MART 2020"; "5   Mart   2020"; "5 mart 2020 # mart"; "  5 mart 2020 "] /\
  agree "tr" "5 mart 2020 + 3 hafta" ["5 MART 2020 + 3 hafta"; "5 mart 2020+3 hafta"; "5  mart  2020  +  3  hafta # ay"] /\
  agree "tr" "3 kere 4" ["3 KERE 4"; "3   Kere   4"; "3 kere 4 # kere"] /\
  agree "tr" "50 + 10%" ["50+10%"; "  50  +  10%  # 5"].
Proof. conjs; agree_tac. Qed.

(* known finding C16-K2: a sign written directly in front of a digit is read into the literal and the two operands are
   adjacent tokens; the date - duration consequence (was C16-K1) is repaired in /repo acb6397: positive examples below *)
Example sign_in_literal_refuted :
  values "en" "1600000000+60 to date" <> values "en" "1600000000 + 60 to date" /\
  evaluates "en" "1600000000+60 to date" = true /\
  values "en" "5+3 km" <> values "en" "5 + 3 km" /\ evaluates "en" "5+3 km" = true /\
  (* ... while for the other operand kinds a + (-b) = a - b *)
  agree "en" "12 jul 1997-5 days" ["12 jul 1997 - 5 days"] /\ agree "en" "10 usd-5 usd" ["10 usd - 5 usd"] /\
  agree "en" "12 jul 1997-1 year" ["12 jul 1997 - 1 year"; "12 jul 1997 + -1 year"] /\
  agree "en" "12 jul 1997-1 month" ["12 jul 1997 - 1 month"] /\ agree "en" "5 jan 2020-1 month" ["5 jan 2020 - 1 month"] /\
  agree "en" "3/4/1991-19 weeks" ["3 / 4 / 1991 - 19 weeks"] /\
  agree "en" "12:30-2 hours" ["12:30 - 2 hours"] /\ agree "en" "8-2*3" ["8 - 2 * 3"].
Proof. cbn [agree]; conjs; vm_compute; try reflexivity; discriminate. Qed.

(* what the statement does NOT promise (no finding): words outside the listed classes are compared as written *)
Example unlisted_classes_case_sensitive :
  values "en" "1 Hour 5 Minutes" <> values "en" "1 hour 5 minutes" /\
  values "en" "100 to Hex" <> values "en" "100 to hex" /\
  values "en" "5 kb to MB" <> values "en" "5 kb to mb" /\
  values "en" "Today" <> values "en" "today" /\
  (* a blank inside a literal is not a blank between tokens *)
  values "en" "3  pm" <> values "en" "3 pm".
Proof. conjs; vm_compute; discriminate. Qed.
