(* Proofs for property C16. *)
From SC.Model Require Import Base.
