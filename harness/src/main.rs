#![allow(deprecated)]
// Correspondence harness: runs operation histories against the real smartcalc crate
// (path dependency on /repo, rebuilt from the working tree by cargo) and prints canonical
// observations, one JSON document per input case.
//
// stdin : one JSON case per line  {"id":..,"ops":[{"op":"exec","lang":"en","text":"1+2"},..]}
// stdout: one JSON line per case  {"id":..,"obs":[..]}   (first line: {"today":days,"now":secs})
//
// Sub-commands: `run` (default), `regex` (regex-level correspondence), `unicode` (dump tables),
// `fmt` (float formatting / parsing oracle).

use std::collections::BTreeMap;
use std::io::{BufRead, Write};
use std::ops::Deref;
use std::panic::{catch_unwind, AssertUnwindSafe};
use std::rc::Rc;
use std::sync::mpsc;
use std::time::Duration as StdDuration;

use chrono::{Datelike, Timelike};
use serde_json::{json, Value};
use smartcalc::{
    FieldType, NumberType, RuleTrait, Session, SmartCalc, SmartCalcAstType, SmartCalcConfig,
    TokenType,
};

struct NopLogger;
impl log::Log for NopLogger {
    fn enabled(&self, _: &log::Metadata) -> bool {
        false
    }
    fn log(&self, _: &log::Record) {}
    fn flush(&self) {}
}
static NOP: NopLogger = NopLogger;

fn fbits(x: f64) -> Value {
    // canonical NaN
    let b = if x.is_nan() { 0x7ff8000000000000u64 } else { x.to_bits() };
    Value::String(b.to_string())
}

fn nt(n: &NumberType) -> &'static str {
    match n {
        NumberType::Decimal => "Decimal",
        NumberType::Octal => "Octal",
        NumberType::Hexadecimal => "Hexadecimal",
        NumberType::Binary => "Binary",
        NumberType::Raw => "Raw",
    }
}

fn dt_json(dt: &chrono::NaiveDateTime) -> Value {
    json!({"secs": dt.timestamp(), "nanos": dt.nanosecond()})
}

fn date_days(d: &chrono::NaiveDate) -> i64 {
    // days since 1970-01-01
    (d.num_days_from_ce() as i64) - 719163
}

fn field_json(f: &FieldType) -> Value {
    match f {
        FieldType::Text(n, e) => json!({"f":"Text","name":n,"extra":e}),
        FieldType::DateTime(n) => json!({"f":"DateTime","name":n}),
        FieldType::Date(n) => json!({"f":"Date","name":n}),
        FieldType::Time(n) => json!({"f":"Time","name":n}),
        FieldType::Money(n) => json!({"f":"Money","name":n}),
        FieldType::Percent(n) => json!({"f":"Percent","name":n}),
        FieldType::Number(n) => json!({"f":"Number","name":n}),
        FieldType::Group(n, items) => json!({"f":"Group","name":n,"items":items}),
        FieldType::TypeGroup(types, n) => json!({"f":"TypeGroup","name":n,"types":types}),
        FieldType::Month(n) => json!({"f":"Month","name":n}),
        FieldType::Duration(n) => json!({"f":"Duration","name":n}),
        FieldType::Timezone(n) => json!({"f":"Timezone","name":n}),
        FieldType::DynamicType(n, e) => json!({"f":"DynamicType","name":n,"extra":e}),
    }
}

fn ast_json(a: &SmartCalcAstType, depth: usize) -> Value {
    match a {
        SmartCalcAstType::None => json!({"a":"None"}),
        SmartCalcAstType::Item(item) => json!({"a":"Item","v":token_json(&item.as_token_type(), depth)}),
        SmartCalcAstType::Month(m) => json!({"a":"Month","v":m}),
        SmartCalcAstType::Symbol(s) => json!({"a":"Symbol","v":s}),
        SmartCalcAstType::Field(f) => json!({"a":"Field","v":field_json(f)}),
        SmartCalcAstType::Variable(v) => json!({"a":"Variable","name":v.to_string()}),
        SmartCalcAstType::Binary { .. } => json!({"a":"Binary"}),
        SmartCalcAstType::PrefixUnary(_, _) => json!({"a":"PrefixUnary"}),
        SmartCalcAstType::Assignment { .. } => json!({"a":"Assignment"}),
    }
}

fn token_json(t: &TokenType, depth: usize) -> Value {
    match t {
        TokenType::Number(x, n) => json!({"t":"Number","v":fbits(*x),"nt":nt(n)}),
        TokenType::Text(s) => json!({"t":"Text","v":s}),
        TokenType::Time(dt, tz) => json!({"t":"Time","dt":dt_json(dt),"tzn":tz.name,"tzo":tz.offset}),
        TokenType::Date(d, tz) => json!({"t":"Date","days":date_days(d),"tzn":tz.name,"tzo":tz.offset}),
        TokenType::DateTime(dt, tz) => json!({"t":"DateTime","dt":dt_json(dt),"tzn":tz.name,"tzo":tz.offset}),
        TokenType::Operator(c) => json!({"t":"Operator","v":(*c as u32)}),
        TokenType::Field(f) => json!({"t":"Field","v":field_json(f)}),
        TokenType::Percent(x) => json!({"t":"Percent","v":fbits(*x)}),
        TokenType::DynamicType(x, d) => json!({"t":"DynamicType","v":fbits(*x),"group":d.group_name,"index":d.index}),
        TokenType::Money(x, c) => json!({"t":"Money","v":fbits(*x),"cur":c.code}),
        TokenType::Variable(v) => {
            let data = if depth < 3 { ast_json(v.data.borrow().deref(), depth + 1) } else { json!(null) };
            let toks: Vec<Value> = if depth < 3 { v.tokens.iter().map(|t| token_json(t, depth + 1)).collect() } else { vec![] };
            json!({"t":"Variable","name":v.to_string(),"data":data,"toks":toks})
        }
        TokenType::Month(m) => json!({"t":"Month","v":m}),
        TokenType::Duration(d) => {
            let secs = d.num_seconds();
            let rem = *d - chrono::Duration::seconds(secs);
            json!({"t":"Duration","secs":secs,"nanos":rem.num_nanoseconds()})
        }
        TokenType::Timezone(n, o) => json!({"t":"Timezone","name":n,"off":o}),
    }
}

// ---- API rules: a small closed family implemented identically in the Coq model ----
struct HRule {
    name: String,
    kind: String,
    k: f64,
    cur: String,
}
impl RuleTrait for HRule {
    fn name(&self) -> String {
        self.name.clone()
    }
    fn call(&self, cfg: &SmartCalcConfig, fields: &BTreeMap<String, TokenType>) -> Option<TokenType> {
        match &self.kind[..] {
            "decline" => None,
            "scale" => match fields.get("x") {
                Some(TokenType::Number(x, _)) => Some(TokenType::Number(x * self.k, NumberType::Decimal)),
                _ => None,
            },
            "sum" => match (fields.get("a"), fields.get("b")) {
                (Some(TokenType::Number(a, _)), Some(TokenType::Number(b, _))) => Some(TokenType::Number(a + b, NumberType::Decimal)),
                _ => None,
            },
            "const_money" => cfg.get_currency(self.cur.clone()).map(|c| TokenType::Money(self.k, c)),
            "const_number" => Some(TokenType::Number(self.k, NumberType::Decimal)),
            "echo" => fields.get("x").cloned(),
            _ => None,
        }
    }
}

fn bits_f64(v: &Value) -> f64 {
    match v {
        Value::String(s) => f64::from_bits(s.parse::<u64>().unwrap_or(0)),
        Value::Number(n) => n.as_f64().unwrap_or(0.0),
        _ => 0.0,
    }
}

fn s(v: &Value, k: &str) -> String {
    v.get(k).and_then(|x| x.as_str()).unwrap_or("").to_string()
}
fn b(v: &Value, k: &str) -> bool {
    v.get(k).and_then(|x| x.as_bool()).unwrap_or(false)
}
fn u(v: &Value, k: &str) -> u64 {
    v.get(k).and_then(|x| x.as_u64()).unwrap_or(0)
}
fn strs(v: &Value, k: &str) -> Vec<String> {
    v.get(k)
        .and_then(|x| x.as_array())
        .map(|a| a.iter().map(|e| e.as_str().unwrap_or("").to_string()).collect())
        .unwrap_or_default()
}

macro_rules! view_result {
    ($res:expr, $detail:expr) => {{
        let res = &$res;
        let detail: u64 = $detail;
        let mut lines = Vec::new();
        for line in res.lines.iter() {
            match line {
                None => lines.push(Value::Null),
                Some(l) => {
                    let mut o = serde_json::Map::new();
                    match &l.result {
                        Ok(r) => {
                            o.insert("out".into(), Value::String(r.output.clone()));
                            o.insert("ast".into(), ast_json(r.ast.deref(), 0));
                        }
                        Err(e) => {
                            o.insert("err".into(), Value::String(e.clone()));
                        }
                    }
                    if detail >= 1 {
                        let ui: Vec<Value> = l
                            .ui_tokens
                            .iter()
                            .map(|t| json!([t.start, t.end, format!("{:?}", t.ui_type)]))
                            .collect();
                        o.insert("ui".into(), Value::Array(ui));
                    }
                    if detail >= 2 {
                        let toks: Vec<Value> = l.raw_tokens.iter().map(|t| token_json(t, 0)).collect();
                        o.insert("toks".into(), Value::Array(toks));
                        let infos: Vec<Value> = l
                            .calculated_tokens
                            .iter()
                            .map(|ti| {
                                let ty = match ti.token_type.borrow().deref() {
                                    Some(t) => token_json(t, 0),
                                    None => Value::Null,
                                };
                                json!({"s":ti.start,"e":ti.end,"ty":ty,"txt":ti.original_text,
                                       "st":format!("{:?}", ti.status.get())})
                            })
                            .collect();
                        o.insert("infos".into(), Value::Array(infos));
                    }
                    lines.push(Value::Object(o));
                }
            }
        }
        json!({"status": res.status, "lines": lines})
    }};
}

fn mutates(op: &str) -> bool {
    !matches!(op, "exec" | "exec_fresh" | "new_session" | "set_text" | "set_language" | "exec_session" | "get_tz")
}

// A case that never mutates the calculator may run on the worker's long-lived default
// calculator (evaluation does not change it: property C04 checks exactly that, with
// `exec_fresh` as the reference); any other case gets its own.
fn run_case(case: &Value, shared: &mut Option<SmartCalc>) -> Vec<Value> {
    let empty0 = vec![];
    let ops0 = case.get("ops").and_then(|x| x.as_array()).unwrap_or(&empty0);
    let pure_case = !ops0.iter().any(|o| mutates(&s(o, "op"))) && !b(case, "own_calc");
    let mut own: Option<SmartCalc> = None;
    if pure_case {
        if shared.is_none() {
            *shared = Some(SmartCalc::default());
        }
    } else {
        own = Some(SmartCalc::default());
    }
    let calc: &mut SmartCalc = match own.as_mut() {
        Some(c) => c,
        None => shared.as_mut().unwrap(),
    };
    let mut sessions: BTreeMap<u64, Session> = BTreeMap::new();
    let mut obs = Vec::new();
    let empty = vec![];
    let ops = case.get("ops").and_then(|x| x.as_array()).unwrap_or(&empty);
    let detail = u(case, "detail");
    for op in ops {
        let name = s(op, "op");
        let r = catch_unwind(AssertUnwindSafe(|| -> Value {
            match &name[..] {
                "exec" => {
                    let res = calc.execute(s(op, "lang"), s(op, "text"));
                    view_result!(res, detail)
                }
                "exec_fresh" => {
                    let fresh = SmartCalc::default();
                    let res = fresh.execute(s(op, "lang"), s(op, "text"));
                    view_result!(res, detail)
                }
                "new_session" => {
                    sessions.insert(u(op, "sid"), Session::new());
                    json!({"ret": null})
                }
                "set_text" => {
                    if let Some(se) = sessions.get_mut(&u(op, "sid")) {
                        se.set_text(s(op, "text"));
                    }
                    json!({"ret": null})
                }
                "set_language" => {
                    if let Some(se) = sessions.get_mut(&u(op, "sid")) {
                        se.set_language(s(op, "lang"));
                    }
                    json!({"ret": null})
                }
                "exec_session" => match sessions.get(&u(op, "sid")) {
                    Some(se) => {
                        let res = calc.execute_session(se);
                        view_result!(res, detail)
                    }
                    None => json!({"ret": null}),
                },
                "set_dec" => {
                    calc.set_decimal_seperator(s(op, "v"));
                    json!({"ret": null})
                }
                "set_thou" => {
                    calc.set_thousand_separator(s(op, "v"));
                    json!({"ret": null})
                }
                "set_tz" => match calc.set_timezone(s(op, "v")) {
                    Ok(()) => {
                        let o = calc.get_time_offset();
                        json!({"ret": true, "tzn": o.name, "tzo": o.offset})
                    }
                    Err(e) => json!({"ret": false, "err": e}),
                },
                "get_tz" => {
                    let o = calc.get_time_offset();
                    json!({"tzn": o.name, "tzo": o.offset})
                }
                "set_num_cfg" => {
                    calc.set_number_configuration(u(op, "d") as u8, b(op, "rm"), b(op, "round"));
                    json!({"ret": null})
                }
                "set_pct_cfg" => {
                    calc.set_percentage_configuration(u(op, "d") as u8, b(op, "rm"), b(op, "round"));
                    json!({"ret": null})
                }
                "set_money_cfg" => {
                    calc.set_money_configuration(b(op, "rm"), b(op, "round"));
                    json!({"ret": null})
                }
                "update_currency" => {
                    let r = calc.update_currency(&s(op, "cur"), bits_f64(op.get("rate").unwrap_or(&Value::Null)));
                    json!({"ret": r})
                }
                "add_rule" => {
                    let rule = Rc::new(HRule {
                        name: s(op, "name"),
                        kind: s(op, "kind"),
                        k: bits_f64(op.get("k").unwrap_or(&Value::Null)),
                        cur: s(op, "cur"),
                    });
                    let r = calc.add_rule(s(op, "lang"), strs(op, "patterns"), rule);
                    json!({"ret": r})
                }
                "delete_rule" => {
                    let r = calc.delete_rule(s(op, "lang"), s(op, "name"));
                    json!({"ret": r})
                }
                "set_date_rule" => {
                    calc.set_date_rule(&s(op, "lang"), strs(op, "patterns"));
                    json!({"ret": null})
                }
                "add_type" => {
                    let r = calc.add_dynamic_type(s(op, "name"));
                    json!({"ret": r})
                }
                "add_type_item" => {
                    let digits = op.get("digits").and_then(|x| x.as_u64()).map(|x| x as u8);
                    let round = op.get("round").and_then(|x| x.as_bool());
                    let rm = op.get("rm").and_then(|x| x.as_bool());
                    let r = calc.add_dynamic_type_item(
                        s(op, "name"),
                        u(op, "index") as usize,
                        s(op, "format"),
                        strs(op, "parse"),
                        s(op, "up"),
                        s(op, "down"),
                        strs(op, "names"),
                        digits,
                        round,
                        rm,
                    );
                    json!({"ret": r})
                }
                _ => json!({"unknown_op": name}),
            }
        }));
        match r {
            Ok(v) => obs.push(v),
            Err(e) => {
                let msg = if let Some(m) = e.downcast_ref::<String>() {
                    m.clone()
                } else if let Some(m) = e.downcast_ref::<&str>() {
                    m.to_string()
                } else {
                    "?".to_string()
                };
                obs.push(json!({"panic": msg}));
            }
        }
    }
    obs
}

thread_local! {
    static PANIC_LOC: std::cell::RefCell<String> = std::cell::RefCell::new(String::new());
}

fn cmd_run() {
    let stdin = std::io::stdin();
    let stdout = std::io::stdout();
    let now = chrono::Utc::now();
    {
        let mut out = stdout.lock();
        writeln!(out, "{}", json!({"today": date_days(&now.naive_utc().date()), "year": now.year(), "now": now.timestamp()})).unwrap();
    }
    type Job = (Value, mpsc::Sender<Vec<Value>>);
    fn spawn_worker() -> mpsc::Sender<Job> {
        let (jtx, jrx) = mpsc::channel::<Job>();
        std::thread::Builder::new()
            .stack_size(64 * 1024 * 1024)
            .spawn(move || {
                let mut shared: Option<SmartCalc> = None;
                while let Ok((case, rtx)) = jrx.recv() {
                    let obs = run_case(&case, &mut shared);
                    let _ = rtx.send(obs);
                }
            })
            .unwrap();
        jtx
    }
    let mut worker = spawn_worker();
    for line in stdin.lock().lines() {
        let line = match line {
            Ok(l) => l,
            Err(_) => break,
        };
        if line.trim().is_empty() {
            continue;
        }
        let case: Value = match serde_json::from_str(&line) {
            Ok(v) => v,
            Err(e) => {
                println!("{}", json!({"bad_case": e.to_string()}));
                continue;
            }
        };
        let id = case.get("id").cloned().unwrap_or(Value::Null);
        let timeout_ms = case.get("timeout_ms").and_then(|x| x.as_u64()).unwrap_or(5000);
        let (tx, rx) = mpsc::channel();
        if worker.send((case.clone(), tx)).is_err() {
            worker = spawn_worker();
            let (tx2, _rx2) = mpsc::channel();
            let _ = worker.send((case.clone(), tx2));
        }
        let res = rx.recv_timeout(StdDuration::from_millis(timeout_ms));
        let mut out = stdout.lock();
        match res {
            Ok(obs) => {
                writeln!(out, "{}", json!({"id": id, "obs": obs})).unwrap();
            }
            Err(mpsc::RecvTimeoutError::Timeout) => {
                // the worker cannot be killed; it is abandoned and a new one takes over
                writeln!(out, "{}", json!({"id": id, "hang": true})).unwrap();
                worker = spawn_worker();
            }
            Err(mpsc::RecvTimeoutError::Disconnected) => {
                writeln!(out, "{}", json!({"id": id, "crash": true})).unwrap();
                worker = spawn_worker();
            }
        }
        out.flush().unwrap();
    }
    let now2 = chrono::Utc::now();
    println!("{}", json!({"today_end": date_days(&now2.naive_utc().date())}));
    std::io::stdout().flush().unwrap();
    std::process::exit(0);
}

// ---- regex-level correspondence: {"re": pattern, "text": s} -> all captures of captures_iter ----
fn cmd_regex() {
    let stdin = std::io::stdin();
    let mut cache: BTreeMap<String, Option<regex::Regex>> = BTreeMap::new();
    for line in stdin.lock().lines() {
        let line = line.unwrap();
        if line.trim().is_empty() {
            continue;
        }
        let case: Value = serde_json::from_str(&line).unwrap();
        let pat = s(&case, "re");
        let text = s(&case, "text");
        let re = cache.entry(pat.clone()).or_insert_with(|| regex::Regex::new(&pat).ok());
        match re {
            None => println!("{}", json!({"id": case.get("id"), "bad_regex": true})),
            Some(re) => {
                let names: Vec<Option<String>> = re.capture_names().map(|n| n.map(|x| x.to_string())).collect();
                let mut all = Vec::new();
                for cap in re.captures_iter(&text) {
                    let mut groups = Vec::new();
                    for i in 0..cap.len() {
                        match cap.get(i) {
                            Some(m) => groups.push(json!([m.start(), m.end()])),
                            None => groups.push(Value::Null),
                        }
                    }
                    all.push(Value::Array(groups));
                }
                println!("{}", json!({"id": case.get("id"), "names": names, "caps": all}));
            }
        }
    }
}

// ---- unicode tables of the toolchain actually linked: ranges of \p{L}, \p{Sc}, \w; case maps ----
fn cmd_unicode() {
    let classes = [("L", r"^\p{L}$"), ("Sc", r"^\p{Currency_Symbol}$"), ("W", r"^\w$")];
    let mut out = serde_json::Map::new();
    for (name, pat) in classes.iter() {
        let re = regex::Regex::new(pat).unwrap();
        let mut ranges: Vec<(u32, u32)> = Vec::new();
        let mut start: Option<u32> = None;
        let mut buf = [0u8; 4];
        for cp in 0..=0x10FFFFu32 {
            let is = match char::from_u32(cp) {
                Some(c) => re.is_match(c.encode_utf8(&mut buf)),
                None => false,
            };
            match (is, start) {
                (true, None) => start = Some(cp),
                (false, Some(st)) => {
                    ranges.push((st, cp - 1));
                    start = None;
                }
                _ => {}
            }
        }
        if let Some(st) = start {
            ranges.push((st, 0x10FFFF));
        }
        out.insert(name.to_string(), json!(ranges));
    }
    // case maps: only code points whose image differs from itself
    let mut lower = Vec::new();
    let mut upper = Vec::new();
    for cp in 0..=0x10FFFFu32 {
        if let Some(c) = char::from_u32(cp) {
            let l: Vec<u32> = c.to_lowercase().map(|x| x as u32).collect();
            if l != vec![cp] {
                lower.push(json!([cp, l]));
            }
            let up: Vec<u32> = c.to_uppercase().map(|x| x as u32).collect();
            if up != vec![cp] {
                upper.push(json!([cp, up]));
            }
        }
    }
    out.insert("lower".into(), Value::Array(lower));
    out.insert("upper".into(), Value::Array(upper));
    // str::to_lowercase differs from the per-char map only for final sigma
    out.insert("sigma_probe".into(), json!(["ΑΣ".to_lowercase(), "Σ".to_lowercase(), "ΑΣ Β".to_lowercase(), "ΑΣΑ".to_lowercase()]));
    // char::is_whitespace (used by str::trim)
    let ws: Vec<u32> = (0..=0x10FFFFu32).filter(|cp| char::from_u32(*cp).map_or(false, |c| c.is_whitespace())).collect();
    out.insert("ws".into(), json!(ws));
    println!("{}", Value::Object(out));
}

// ---- float oracle: {"bits": "..", "prec": n?} -> Display / {:.N}; {"parse": s} -> bits ----
fn cmd_fmt() {
    let stdin = std::io::stdin();
    for line in stdin.lock().lines() {
        let line = line.unwrap();
        if line.trim().is_empty() {
            continue;
        }
        let case: Value = serde_json::from_str(&line).unwrap();
        if let Some(p) = case.get("parse").and_then(|x| x.as_str()) {
            match p.parse::<f64>() {
                Ok(x) => println!("{}", json!({"ok": fbits(x)})),
                Err(_) => println!("{}", json!({"err": true})),
            }
            continue;
        }
        let x = bits_f64(case.get("bits").unwrap());
        let disp = format!("{}", x);
        let fixed = match case.get("prec").and_then(|p| p.as_u64()) {
            Some(p) => format!("{:.*}", p as usize, x),
            None => String::new(),
        };
        println!("{}", json!({"disp": disp, "fixed": fixed, "round": fbits(x.round()), "trunc": fbits(x.trunc()),
            "i32": (x as i32), "i64": (x as i64).to_string(), "u32": (x as u32), "u64": (x as u64).to_string()}));
    }
}

fn main() {
    let _ = log::set_logger(&NOP);
    log::set_max_level(log::LevelFilter::Off);
    std::panic::set_hook(Box::new(|_| {}));
    let args: Vec<String> = std::env::args().collect();
    let cmd = args.get(1).map(|x| &x[..]).unwrap_or("run");
    match cmd {
        "run" => cmd_run(),
        "regex" => cmd_regex(),
        "unicode" => cmd_unicode(),
        "fmt" => cmd_fmt(),
        _ => eprintln!("unknown command"),
    }
}
