#!/usr/bin/env python3
"""Developer tool: re-run every seeded change (seeded/<ID>-<i>/patch.diff) against the current checks, in isolated copies
   (tools/muttest.sh), and report the ones that are no longer caught.
   tools/seedregress.py [-j N] [<ID>-<i> ...]      results: /root/vrun/regress/<slot>.txt, summary on stdout"""
import sys, os, json, subprocess, re, glob
from concurrent.futures import ThreadPoolExecutor
args = sys.argv[1:]
jobs = 4
if args[:1] == ["-j"]:
    jobs = int(args[1]); args = args[2:]
slots = args or sorted(os.path.basename(d.rstrip("/")) for d in glob.glob("/verif/seeded/*/"))
os.makedirs("/root/vrun/regress", exist_ok=True)

def run(slot):
    d = "/verif/seeded/" + slot
    meta = json.load(open(d + "/meta.json"))
    ids = meta.get("caught_by") or [meta["property"]]
    r = subprocess.run(["/verif/tools/muttest.sh", d + "/patch.diff", "rg-" + slot] + ids, capture_output=True, text=True)
    open("/root/vrun/regress/%s.txt" % slot, "w").write(r.stdout + r.stderr)
    rcs = dict(re.findall(r"(C\d\d) rc=(\d+)", r.stdout))
    subprocess.run(["rm", "-rf", "/root/vrun/rg-" + slot])
    ok = any(v == "1" for v in rcs.values())
    print(slot, "CAUGHT" if ok else "MISSED", rcs, flush=True)
    return slot, ok

with ThreadPoolExecutor(jobs) as ex:
    res = list(ex.map(run, slots))
missed = [s for s, ok in res if not ok]
print("TOTAL %d caught %d missed %s" % (len(res), len(res) - len(missed), missed))
