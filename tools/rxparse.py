#!/usr/bin/env python3
"""Translate the subset of Rust `regex` syntax used by smartcalc into Coq terms of
type SC.Model.Regex.rx.

    parse(pattern) -> (coq_term: str, ngroups: int, names: dict[str, int])

Anything outside the supported subset raises RxUnsupported (loudly): flags such as
(?i), look-around other than \\b \\B ^ $ \\A \\z, nested / intersected classes, negated
perl classes inside a bracket class, back-references, unknown \\p{..} names, ...

An unbounded repetition (`*`, `+`, `{m,}`) whose body can match the empty string is
rejected as well unless allow_nullable_loops=True: for those the Coq model finds the
same overall match as the crate but capture groups inside the body can differ in rare
cases (see the header of coq/Model/Regex.v).

AST (python tuples):
  ('eps',) ('set', neg, [items]) ('cat', [..]) ('alt', [..])
  ('rep', r, min, max|None, greedy) ('group', idx, r) ('wordb',) ('nwordb',)
  ('start',) ('end',)
  items: ('range', lo, hi) | ('letter',) | ('currency',) | ('word',) | ('digit',) | ('space',)
"""
import json
import re as _pyre
import sys

CONFIG_JSON = "/repo/src/json/config.json"
CONFIG_RS = "/repo/src/config.rs"
SESSION_RS = "/repo/src/session.rs"


class RxUnsupported(Exception):
    pass


# characters that may follow a backslash and then stand for themselves
_META = set("\\.+*?()|[]{}^$#&-~")
_PUNCT_OK = set("!\"%',/:;=@` ")
_CTRL = {"n": 0x0A, "r": 0x0D, "t": 0x09, "f": 0x0C, "v": 0x0B, "a": 0x07}
_PROPS = {
    "L": ("letter",), "Letter": ("letter",),
    "Sc": ("currency",), "Currency_Symbol": ("currency",),
}
_PERL = {"w": ("word",), "d": ("digit",), "s": ("space",)}
_HEX = set("0123456789abcdefABCDEF")


class _Parser:
    def __init__(self, pattern):
        self.s = pattern
        self.i = 0
        self.ngroups = 0
        self.names = {}

    # -- helpers ---------------------------------------------------------
    def fail(self, msg):
        raise RxUnsupported("rxparse: %s at offset %d in pattern %r" % (msg, self.i, self.s))

    def eof(self):
        return self.i >= len(self.s)

    def peek(self, k=0):
        j = self.i + k
        return self.s[j] if j < len(self.s) else ""

    def take(self):
        c = self.peek()
        if c == "":
            self.fail("unexpected end of pattern")
        self.i += 1
        return c

    def startswith(self, t):
        return self.s.startswith(t, self.i)

    # -- grammar ---------------------------------------------------------
    def parse_top(self):
        r = self.parse_alt()
        if not self.eof():
            self.fail("unbalanced ')'")
        return r

    def parse_alt(self):
        alts = [self.parse_cat()]
        while self.peek() == "|":
            self.take()
            alts.append(self.parse_cat())
        return alts[0] if len(alts) == 1 else ("alt", alts)

    def parse_cat(self):
        items = []
        while not self.eof() and self.peek() not in "|)":
            atom = self.parse_atom()
            atom = self.parse_quantifiers(atom)
            items.append(atom)
        if not items:
            return ("eps",)
        return items[0] if len(items) == 1 else ("cat", items)

    def parse_quantifiers(self, atom):
        while True:
            c = self.peek()
            if c == "?":
                self.take(); mn, mx = 0, 1
            elif c == "*":
                self.take(); mn, mx = 0, None
            elif c == "+":
                self.take(); mn, mx = 1, None
            elif c == "{":
                mn, mx = self.parse_counted()
            else:
                return atom
            greedy = True
            if self.peek() == "?":
                self.take()
                greedy = False
            if atom[0] in ("wordb", "nwordb", "start", "end"):
                self.fail("quantifier applied to an assertion")
            if mx == 0 and has_group(atom):
                # the crate drops the whole sub-pattern, and with it the group, from its group table
                self.fail("capture group under a {0} repetition")
            atom = ("rep", atom, mn, mx, greedy)

    def parse_counted(self):
        assert self.take() == "{"
        j = self.s.find("}", self.i)
        if j < 0:
            self.fail("unclosed counted repetition")
        body = self.s[self.i:j]
        m = _pyre.fullmatch(r"([0-9]+)(,([0-9]*))?", body)
        if not m:
            self.fail("unsupported counted repetition {%s}" % body)
        self.i = j + 1
        mn = int(m.group(1))
        if m.group(2) is None:
            mx = mn
        elif m.group(3) == "":
            mx = None
        else:
            mx = int(m.group(3))
            if mx < mn:
                self.fail("invalid repetition range {%s}" % body)
        if mn > 1000 or (mx is not None and mx > 1000):
            self.fail("repetition count too large {%s}" % body)
        return mn, mx

    def parse_atom(self):
        c = self.peek()
        if c == "(":
            return self.parse_group()
        if c == "[":
            return self.parse_class()
        if c == ".":
            self.take()
            return ("set", True, [("range", 0x0A, 0x0A)])
        if c == "^":
            self.take()
            return ("start",)
        if c == "$":
            self.take()
            return ("end",)
        if c == "\\":
            kind, val = self.parse_escape(in_class=False)
            if kind == "lit":
                return ("set", False, [("range", val, val)])
            if kind == "cls":
                neg, item = val
                return ("set", neg, [item])
            return val  # assertion
        if c in "?*+":
            self.fail("repetition operator missing expression")
        if c == "{":
            self.fail("repetition operator missing expression ('{' must be escaped)")
        self.take()
        return ("set", False, [("range", ord(c), ord(c))])

    def parse_group(self):
        assert self.take() == "("
        idx = None
        if self.peek() == "?":
            if self.startswith("?:"):
                self.i += 2
            elif self.startswith("?P<") or (self.startswith("?<") and self.peek(2) not in "=!"):
                self.i += 3 if self.startswith("?P<") else 2
                j = self.s.find(">", self.i)
                if j < 0:
                    self.fail("unclosed group name")
                name = self.s[self.i:j]
                if not _pyre.fullmatch(r"[A-Za-z_][A-Za-z0-9_.\[\]]*", name):
                    self.fail("unsupported group name %r" % name)
                if name in self.names:
                    self.fail("duplicate group name %r" % name)
                self.i = j + 1
                self.ngroups += 1
                idx = self.ngroups
                self.names[name] = idx
            else:
                self.fail("unsupported group flags / look-around")
        else:
            self.ngroups += 1
            idx = self.ngroups
        body = self.parse_alt()
        if self.peek() != ")":
            self.fail("unclosed group")
        self.take()
        return ("group", idx, body) if idx is not None else body

    def parse_hex(self):
        # after \x, \u or \U
        kind = self.s[self.i - 1]
        if self.peek() == "{":
            j = self.s.find("}", self.i)
            if j < 0:
                self.fail("unclosed hex escape")
            digits = self.s[self.i + 1:j]
            self.i = j + 1
        else:
            n = {"x": 2, "u": 4, "U": 8}[kind]
            digits = self.s[self.i:self.i + n]
            if len(digits) != n:
                self.fail("short hex escape")
            self.i += n
        if not digits or any(d not in _HEX for d in digits):
            self.fail("bad hex escape")
        v = int(digits, 16)
        if v > 0x10FFFF or 0xD800 <= v <= 0xDFFF:
            self.fail("hex escape is not a Unicode scalar value")
        return v

    def parse_escape(self, in_class):
        """returns ('lit', cp) | ('cls', (neg, item)) | ('assert', node)"""
        assert self.take() == "\\"
        c = self.take()
        if c in _META or c in _PUNCT_OK:
            return ("lit", ord(c))
        if c in _CTRL:
            return ("lit", _CTRL[c])
        if c in "xuU":
            return ("lit", self.parse_hex())
        if c in "pP":
            neg = c == "P"
            if self.peek() == "{":
                j = self.s.find("}", self.i)
                if j < 0:
                    self.fail("unclosed \\p{")
                name = self.s[self.i + 1:j]
                self.i = j + 1
            else:
                name = self.take()
            if name.startswith("^"):
                neg = not neg
                name = name[1:]
            if name not in _PROPS:
                self.fail("unsupported Unicode property %r" % name)
            return ("cls", (neg, _PROPS[name]))
        if c in _PERL:
            return ("cls", (False, _PERL[c]))
        if c.lower() in _PERL:
            return ("cls", (True, _PERL[c.lower()]))
        if in_class:
            if c == "b":
                self.fail("\\b inside a class (backspace) is not supported")
            self.fail("unsupported escape \\%s inside class" % c)
        if c == "b":
            if self.peek() == "{":
                self.fail("\\b{...} special word boundary / counted \\b is not supported")
            return ("assert", ("wordb",))
        if c == "B":
            return ("assert", ("nwordb",))
        if c == "A":
            return ("assert", ("start",))
        if c == "z":
            return ("assert", ("end",))
        self.fail("unsupported escape \\%s" % c)

    def parse_class(self):
        assert self.take() == "["
        neg = False
        if self.peek() == "^":
            self.take()
            neg = True
        items = []
        first = True
        while True:
            if self.eof():
                self.fail("unclosed character class")
            c = self.peek()
            if c == "]" and not first:
                self.take()
                break
            first = False
            if c == "[":
                self.fail("nested / POSIX character classes are not supported")
            if self.startswith("&&") or self.startswith("--") or self.startswith("~~"):
                self.fail("class set operations are not supported")
            lo = self.class_atom()
            if isinstance(lo, tuple):
                items.append(lo)
                continue
            # range?
            if self.peek() == "-" and self.peek(1) not in ("]", ""):
                if self.startswith("--"):
                    self.fail("class set operations are not supported")
                self.take()
                if self.peek() == "[":
                    self.fail("nested character classes are not supported")
                hi = self.class_atom()
                if isinstance(hi, tuple):
                    self.fail("class escape used as range end point")
                if hi < lo:
                    self.fail("invalid class range")
                items.append(("range", lo, hi))
            else:
                items.append(("range", lo, lo))
        return ("set", neg, items)

    def class_atom(self):
        """a code point (int) or a class item (tuple)"""
        c = self.peek()
        if c == "\\":
            kind, val = self.parse_escape(in_class=True)
            if kind == "lit":
                return val
            if kind == "cls":
                n, item = val
                if n:
                    self.fail("negated class escape inside a bracket class is not supported")
                return item
            self.fail("assertion inside class")
        self.take()
        return ord(c)


# -- analysis ------------------------------------------------------------

def has_group(r):
    t = r[0]
    if t == "group":
        return True
    if t in ("cat", "alt"):
        return any(has_group(x) for x in r[1])
    if t == "rep":
        return has_group(r[1])
    return False


def nullable(r):
    t = r[0]
    if t in ("eps", "wordb", "nwordb", "start", "end"):
        return True
    if t == "set":
        return False
    if t == "cat":
        return all(nullable(x) for x in r[1])
    if t == "alt":
        return any(nullable(x) for x in r[1])
    if t == "rep":
        return r[2] == 0 or nullable(r[1])
    if t == "group":
        return nullable(r[2])
    raise AssertionError(t)


def nullable_loops(r):
    """sub-terms that are unbounded repetitions of a nullable body"""
    t = r[0]
    out = []
    if t in ("cat", "alt"):
        for x in r[1]:
            out += nullable_loops(x)
    elif t == "rep":
        if r[3] is None and nullable(r[1]):
            out.append(r)
        out += nullable_loops(r[1])
    elif t == "group":
        out += nullable_loops(r[2])
    return out


# -- printing ------------------------------------------------------------

def _item_coq(it):
    t = it[0]
    if t == "range":
        return "(CRange %d%%N %d%%N)" % (it[1], it[2])
    return {"letter": "CLetter", "currency": "CCurrency", "word": "CWord",
            "digit": "CDigit", "space": "CSpace"}[t]


def to_coq(r):
    t = r[0]
    if t == "eps":
        return "REps"
    if t == "set":
        return "(RSet %s [%s])" % ("true" if r[1] else "false", "; ".join(_item_coq(i) for i in r[2]))
    if t in ("cat", "alt"):
        ctor = "RCat" if t == "cat" else "RAlt"
        parts = [to_coq(x) for x in r[1]]
        acc = parts[-1]
        closers = 0
        # right-nested, built iteratively (patterns can be long)
        out = []
        for p in parts[:-1]:
            out.append("(%s %s " % (ctor, p))
            closers += 1
        return "".join(out) + acc + ")" * closers
    if t == "rep":
        mx = "None" if r[3] is None else "(Some %d%%nat)" % r[3]
        return "(RRep %s %d%%nat %s %s)" % (to_coq(r[1]), r[2], mx, "true" if r[4] else "false")
    if t == "group":
        return "(RGroup %d%%nat %s)" % (r[1], to_coq(r[2]))
    return {"wordb": "RWordB", "nwordb": "RNotWordB", "start": "RStart", "end": "REnd"}[t]


def parse_ast(pattern, allow_nullable_loops=False):
    p = _Parser(pattern)
    ast = p.parse_top()
    if not allow_nullable_loops and nullable_loops(ast):
        raise RxUnsupported(
            "rxparse: unbounded repetition of a sub-pattern that can match the empty string in %r "
            "(capture groups of the Coq model may differ from the crate; pass allow_nullable_loops=True "
            "to translate anyway)" % pattern)
    return ast, p.ngroups, dict(p.names)


def parse(pattern, allow_nullable_loops=False):
    ast, ngroups, names = parse_ast(pattern, allow_nullable_loops)
    return to_coq(ast), ngroups, names


# -- the patterns of the program ----------------------------------------

def _expect_once(src, needle, path):
    if src.count(needle) != 1:
        raise RxUnsupported("rxparse: expected exactly one occurrence of %r in %s (found %d); "
                            "the way smartcalc builds its regexes changed" % (needle, path, src.count(needle)))


def _btree_items(d):
    """iteration order of a Rust BTreeMap<String, _>: by UTF-8 bytes of the key"""
    return sorted(d.items(), key=lambda kv: kv[0].encode("utf-8"))


def all_patterns(config_json=CONFIG_JSON, config_rs=CONFIG_RS, session_rs=SESSION_RS):
    """[(label, pattern)] for every regex smartcalc compiles, from the current files"""
    with open(config_json, encoding="utf-8") as f:
        cfg = json.load(f)
    with open(config_rs, encoding="utf-8") as f:
        rs = f.read()
    with open(session_rs, encoding="utf-8") as f:
        ss = f.read()
    _expect_once(rs, 'Regex::new(&format!(r"\\b{}\\b", from))', config_rs)
    _expect_once(rs, 'Regex::new(&format!(r"\\b{}\\b", alias))', config_rs)
    _expect_once(rs, 'format!(r"\\b{}\\b|\\b{}\\b", month.long, month.short)', config_rs)
    if rs.count("Regex::new(") != 4:
        raise RxUnsupported("rxparse: %s has %d Regex::new sites, expected 4" % (config_rs, rs.count("Regex::new(")))
    out = []
    for group, pats in cfg["parse"].items():
        for k, p in enumerate(pats):
            out.append(("parse.%s[%d]" % (group, k), p))
    for key, _ in _btree_items(cfg["alias"]):
        out.append(("alias[%s]" % key, "\\b%s\\b" % key))
    for lang, ldata in _btree_items(cfg["languages"]):
        for key, _ in _btree_items(ldata["alias"]):
            out.append(("%s.alias[%s]" % (lang, key), "\\b%s\\b" % key))
    for lang, ldata in _btree_items(cfg["languages"]):
        longs = [""] * 12
        shorts = [""] * 12
        for name, num in _btree_items(ldata["long_months"]):
            if 1 <= num <= 12:
                longs[num - 1] = name
        for name, num in _btree_items(ldata["short_months"]):
            if 1 <= num <= 12:
                shorts[num - 1] = name
        for i in range(12):
            out.append(("%s.month[%d]" % (lang, i + 1), "\\b%s\\b|\\b%s\\b" % (longs[i], shorts[i])))
    sess = _pyre.findall(r'Regex::new\(r"((?:[^"\\]|\\.)*)"\)', ss)
    if len(sess) != 1 or ss.count("Regex::new(") != 1:
        raise RxUnsupported("rxparse: expected exactly one Regex::new(r\"...\") in %s" % session_rs)
    out.append(("session.split", sess[0]))
    return out


def selftest():
    pats = all_patterns()
    n = 0
    groups = 0
    for label, p in pats:
        term, ng, names = parse(p)
        if term.count("(") != term.count(")"):
            raise SystemExit("unbalanced output for %s" % label)
        n += 1
        groups += ng
    # things that must be refused
    bads = ["(?i)a", "a(?=b)", "[a&&b]", "[[:alpha:]]", "\\1", "\\p{Greek}", "a{,3}", "a{3,2}", "(a", "a)",
                "[a", "*a", "\\b{start}", "[\\D]", "(a*)*", "(|a)+", "\\<", "(a){0}b", "a{1001}",
            "(?x)a b", "\\pN", "[a-\\d]", "[z-a]", "\\e", "(?P<n>a)(?P<n>b)", "^*", "a{2", "{2}"]
    for bad in bads:
        try:
            parse(bad)
        except RxUnsupported:
            continue
        raise SystemExit("selftest: %r should have been rejected" % bad)
    parse("(a*)*", allow_nullable_loops=True)
    print("rxparse selftest: parsed %d patterns (%d capture groups), %d unsupported samples rejected" % (n, groups, len(bads)))
    return 0


if __name__ == "__main__":
    if len(sys.argv) >= 2 and sys.argv[1] == "--selftest":
        sys.exit(selftest())
    if len(sys.argv) >= 2 and sys.argv[1] == "--list":
        for label, p in all_patterns():
            print("%s\t%s" % (label, p))
        sys.exit(0)
    if len(sys.argv) >= 2:
        t, ng, names = parse(sys.argv[1], allow_nullable_loops="--allow-nullable-loops" in sys.argv[2:])
        print(t)
        print("ngroups = %d, names = %r" % (ng, names))
        sys.exit(0)
    print(__doc__)
    sys.exit(2)
