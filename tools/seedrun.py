#!/usr/bin/env python3
"""Developer tool: confirm a seeded change and run checks against it (isolated copies under /root/vrun).
   tools/seedrun.py <ID> <i> [<check ids...>]     reads /tmp/mut/out-<ID>/<i>/{patch.diff,demo.rs,meta.txt}
   writes /verif/seeded/<ID>-<i>/{patch.diff,demo.rs,meta.json}"""
import sys, os, json, subprocess, shutil, re
pid, i = sys.argv[1], sys.argv[2]
checks = sys.argv[3:] or [pid]
rnd = int(os.environ.get("ROUND", "1"))
src = {1: "/tmp/mut/out-%s/%s", 2: "/tmp/mut/o2-%s/%s", 3: "/tmp/mut/o3-%s/%s", 4: "/tmp/mut/o4-%s/%s"}[rnd] % (pid, i)
i = str(int(i) + 2 * (rnd - 1))
slot = "%s-%s" % (pid, i)
sv = subprocess.run(["/verif/tools/seedverify.sh", src, slot], capture_output=True, text=True).stdout
mt = subprocess.run(["/verif/tools/muttest.sh", os.path.join(src, "patch.diff"), slot] + checks, capture_output=True, text=True).stdout
dst = "/verif/seeded/%s-%s" % (pid, i)
os.makedirs(dst, exist_ok=True)
for f in ("patch.diff", "demo.rs"):
    shutil.copy(os.path.join(src, f), os.path.join(dst, f))
meta_txt = open(os.path.join(src, "meta.txt")).read() if os.path.exists(os.path.join(src, "meta.txt")) else ""
ok_head = bool(re.search(r"demo@HEAD: test result: ok", sv))
ok_suite = bool(re.search(r"suite@patch: test result: FAILED\. 142 passed; 1 failed", sv))
ok_demo = bool(re.search(r"demo@patch: test result: FAILED", sv))
results = {}
for line in mt.split("\n"):
    m = re.match(r"(C\d\d) rc=(\d+) (.*)", line)
    if m:
        results[m.group(1)] = {"rc": int(m.group(2)), "summary": m.group(3).strip()[:600]}
meta = {"property": pid, "variant": int(i), "what_and_trigger": meta_txt.strip(),
        "confirmed": {"demo_passes_on_HEAD": ok_head, "existing_suite_unchanged_142_1": ok_suite, "demo_fails_with_patch": ok_demo},
        "ran": ["tools/seedverify.sh %s %s" % (src, slot), "tools/muttest.sh %s/patch.diff %s %s" % (src, slot, " ".join(checks))],
        "checks": results,
        "caught_by": sorted(k for k, v in results.items() if v["rc"] == 1)}
json.dump(meta, open(os.path.join(dst, "meta.json"), "w"), indent=1, ensure_ascii=False)
print(pid, i, "confirmed=%s/%s/%s" % (ok_head, ok_suite, ok_demo), {k: v["rc"] for k, v in results.items()})
for k, v in results.items():
    print("  ", k, v["summary"][:300])
