#!/usr/bin/env python3
"""Writes /verif/MANIFEST.json from the table below (one entry per claimed property)."""
import json, os

ROOT = os.path.normpath(os.path.join(os.path.dirname(os.path.abspath(__file__)), ".."))

NOTE = ("Trusted: Coq 8.16.1 kernel + vm_compute, kernel primitive floats/ints; translator tools/gen.py for config.json and "
        "scraped Rust constants; the correspondence check (harness + generators) that ties the hand-written model "
        "coq/Model/*.v to /repo; the Rust code itself is modelled, not verified. Axioms per theorem are re-read from "
        "Print Assumptions on every run and written to the evidence.")

CLAIMED = {
    "C02": dict(
        text="Theorems for all expression trees of any size/depth over any number algebra (and at binary64): the model's "
             "post-processing + recursive-descent parser + interpreter read the token rendering of a tree (explicit, "
             "juxtaposed, leading sign, detached signs, assignment rhs) back as that tree and compute its value by the usual "
             "rules, division by zero giving 0. The text->token step and the model-vs-code tie are a per-run differential "
             "check (model executed by vm_compute against the Rust crate on generated renderings, bit-exact).",
        design="DESIGN.md section 7 C02", technique="Coq proof by induction on expression trees + model/implementation correspondence"),
    "C10": dict(
        text="Theorems for all integer counts and all second counts: 'N unit' is N times the unit length with 12 months = "
             "365 days (exact characterisation incl. the out-of-range case), the printed parts are the greedy decomposition "
             "(sum to the magnitude, each count below its unit's bound, order year..second), `as` floors, + - and "
             "juxtaposition (2..9 parts) add/subtract; singular/plural rows are finite-table theorems over the format tables "
             "regenerated from config.json; unit constants are scraped from the Rust source on every run. Text->token step and "
             "model-vs-code tie: per-run differential check incl. printed output parsed back.",
        design="DESIGN.md section 7 C10", technique="Coq proof (lia with div/mod, induction on part lists, finite tables by vm_compute) + model/implementation correspondence"),
    "C04": dict(
        text="Theorems over the API state machine (Corr.step) for ALL histories: exec leaves configuration and sessions "
             "unchanged and its result is a function of (configuration, language, text, clock); any history of evaluations and "
             "session activity leaves the configuration unchanged, so earlier evaluations never change a later result; each exec "
             "starts from the empty environment; operations on other sessions never change a session; set_text followed by "
             "execute_session is the in-order fold of the line evaluator over every line of the new text exactly once "
             "(status true, one slot per line) against the session's persistent variables, for any earlier cursor position. The "
             "model-vs-code tie is the per-run history-based differential check, with an independent oracle comparing against "
             "freshly built calculators.",
        design="DESIGN.md section 7 C04", technique="Coq proof by induction over operation histories (state-machine invariants, refinement to a fold) + model/implementation correspondence on histories"),
    "C18": dict(
        text="Theorems over the API state machine for ALL histories of add_rule/delete_rule: the API rules of a language are "
             "exactly the reference list (add appends, delete removes the first registration of that name) i.e. the survivors "
             "in registration order; built-in rules, other languages and sessions untouched; add fails exactly for an unknown "
             "language, delete exactly for an unknown language/name; a declining rule anywhere in the list leaves the rewrite "
             "loop identical to the loop without it (all lines, all fuel) and matching never panics on a stored pattern; "
             "duplicate unit families / item indices are refused with no state change. Behavioural equivalence with a fresh "
             "calculator replaying the survivors, rule effect with named fields and the unit chain are decided by the per-run "
             "differential check (paired histories) plus an independent oracle; a computed end-to-end example is a theorem.",
        design="DESIGN.md section 7 C18", technique="Coq proof by induction over registration histories (refinement to a list spec) + model/implementation correspondence on paired histories"),
}

PENDING_REASON = "check not built yet (work in progress; see DESIGN.md section 7)"


def main():
    ids = [json.loads(l)["id"] for l in open(os.path.join(ROOT, "properties.jsonl"))]
    checks, na = [], []
    for pid in ids:
        if pid in CLAIMED:
            c = CLAIMED[pid]
            checks.append({
                "property_id": pid,
                "quick_cmd": "./check %s --tier quick" % pid,
                "thorough_cmd": "./check %s --tier thorough" % pid,
                "evidence_file": "/verif/evidence/%s.json" % pid,
                "replay_cmd_template": "./check %s --replay {path}" % pid,
                "engine": "coq-model",
                "level_claimed": {"category": "proof", "text": c["text"], "design_ref": c["design"]},
                "level_note": c.get("note", NOTE),
                "technique": c["technique"],
            })
        else:
            na.append({"property_id": pid, "reason": PENDING_REASON})
    m = {
        "version": 1,
        "setup_cmd": "./setup.sh",
        "hooks": {
            "guard": "smartcalc_verif",
            "enable": "none needed: all observables are public API (RUSTFLAGS=--cfg smartcalc_verif reserved)",
            "baseline_off_cmd": "cd /repo && cargo test --workspace --no-fail-fast --offline",
            "source_commits": [],
            "add_only": True,
        },
        "engines": [{"name": "coq-model", "path": "/verif/coq", "serves_properties": sorted(CLAIMED),
                     "kind_free_text": "Coq 8.16.1 model of the whole pipeline + theorems (Properties/*.v), data regenerated "
                                       "from /repo by tools/gen.py, code tied by the correspondence harness (harness/, tools/corr.py)"}],
        "checks": checks,
        "not_applicable": na,
        "notes": "Coq 8.16.1 model + theorems, tied to /repo by a translator (config.json, scraped Rust constants) and a "
                 "differential correspondence harness; see DESIGN.md",
    }
    with open(os.path.join(ROOT, "MANIFEST.json"), "w") as f:
        json.dump(m, f, indent=1)
    print("MANIFEST: %d checks, %d not claimed" % (len(checks), len(na)))


if __name__ == "__main__":
    main()
