#!/usr/bin/env python3
"""Writes /verif/MANIFEST.json from the table below (one entry per claimed property)."""
import json, os

ROOT = os.path.normpath(os.path.join(os.path.dirname(os.path.abspath(__file__)), ".."))

NOTE = ("Trusted: Coq 8.16.1 kernel + vm_compute, kernel primitive floats/ints; translator tools/gen.py for config.json and "
        "scraped Rust constants; the correspondence check (harness + generators) that ties the hand-written model "
        "coq/Model/*.v to /repo; the Rust code itself is modelled, not verified. Axioms per theorem are re-read from "
        "Print Assumptions on every run and written to the evidence.")

CLAIMED = {
    "C02": dict(
        text="Theorems for all expression trees of any size/depth over any number algebra (and at binary64): the model's "
             "post-processing + recursive-descent parser + interpreter read the token rendering of a tree (explicit, "
             "juxtaposed, leading sign, detached signs, assignment rhs) back as that tree and compute its value by the usual "
             "rules, division by zero giving 0. Lexical step, proved in part: on EVERY line over the arithmetic alphabet only the "
             "number, whitespace and operator parsers contribute (sound regex analysis over the regenerated regexes) and "
             "`d1 op d2` with any blanks lexes to exactly [number; operator; number] for all digit strings, and END TO END the "
             "public entry point on that TEXT returns the binary64 value and its printed form (C02_text_to_value); the general "
             "text->token step and the model-vs-code tie are a per-run differential check (model executed by vm_compute against "
             "the Rust crate on generated renderings under two separator conventions, bit-exact).",
        design="DESIGN.md section 7 C02", technique="Coq proof by induction on expression trees + model/implementation correspondence"),
    "C10": dict(
        text="Theorems for all integer counts and all second counts: 'N unit' is N times the unit length with 12 months = "
             "365 days (exact characterisation incl. the out-of-range case), the printed parts are the greedy decomposition "
             "(sum to the magnitude, each count below its unit's bound, order year..second), `as` floors, + - and "
             "juxtaposition (2..9 parts) add/subtract; singular/plural rows are finite-table theorems over the format tables "
             "regenerated from config.json; unit constants are scraped from the Rust source on every run. Text->token step and "
             "model-vs-code tie: per-run differential check incl. printed output parsed back.",
        design="DESIGN.md section 7 C10", technique="Coq proof (lia with div/mod, induction on part lists, finite tables by vm_compute) + model/implementation correspondence"),
    "C04": dict(
        text="Theorems over the API state machine (Corr.step) for ALL histories: exec leaves configuration and sessions "
             "unchanged and its result is a function of (configuration, language, text, clock); any history of evaluations and "
             "session activity leaves the configuration unchanged, so earlier evaluations never change a later result; each exec "
             "starts from the empty environment; operations on other sessions never change a session; set_text followed by "
             "execute_session is the in-order fold of the line evaluator over every line of the new text exactly once "
             "(status true, one slot per line) against the session's persistent variables, for any earlier cursor position. The "
             "model-vs-code tie is the per-run history-based differential check, with an independent oracle comparing against "
             "freshly built calculators.",
        design="DESIGN.md section 7 C04", technique="Coq proof by induction over operation histories (state-machine invariants, refinement to a fold) + model/implementation correspondence on histories"),
    "C18": dict(
        text="Theorems over the API state machine for ALL histories of add_rule/delete_rule: the API rules of a language are "
             "exactly the reference list (add appends, delete removes the first registration of that name) i.e. the survivors "
             "in registration order; built-in rules, other languages and sessions untouched; add fails exactly for an unknown "
             "language, delete exactly for an unknown language/name; a declining rule anywhere in the list leaves the rewrite "
             "loop identical to the loop without it (all lines, all fuel) and matching never panics on a stored pattern; "
             "duplicate unit families / item indices are refused with no state change. Central clause as a theorem: after ANY "
             "registration/deletion history from a calculator without custom rules the WHOLE state equals that of the calculator "
             "on which only the survivors were registered in order, so every later operation is observed identically (uses: the "
             "lexer never reads the rule table, proved for all lines). Rule effect with named fields and the unit chain are decided "
             "by the per-run differential check (paired histories) plus an independent oracle; computed end-to-end examples.",
        design="DESIGN.md section 7 C18", technique="Coq proof by induction over registration histories (refinement to a list spec) + model/implementation correspondence on paired histories"),

    "C03": dict(
        text="Theorems (any number algebra) over the model's parser, interpreter, variable substitution and session map: every "
             "program of assign/use lines refines the reference environment semantics of Spec/Env.v line by line (latest binding "
             "wins, a binding stores a value so later re-assignments of other names never change it, a failing line leaves every "
             "existing binding unchanged); any line changes at most one variable; names are matched case-insensitively; "
             "pick_variable returns the closest-then-longest matching name; find_location is sound and complete (least index); a "
             "line that fails leaves the session EXACTLY as it was; the parser's lookup key is the storage key (all name tokens "
             "joined by a space) for every token list, and distinct names have distinct keys. The three former findings (ghost "
             "variable, name-key collision, operator-word cross-write) are repaired in /repo and pinned as computed theorems. "
             "Text->token step and the model-vs-code tie: per-run differential check on generated programs (single exec and "
             "re-used sessions) with an independent reference interpreter plus equivalence cases (a line using bound names "
             "evaluates like the same line with the values written out).",
        design="DESIGN.md section 7 C03", technique="Coq proof: refinement to an abstract environment by induction over programs + model/implementation correspondence"),
    "C05": dict(
        text="Theorems over exact rationals for ALL X A B p: the five rule functions and the interpreter's percent operand give the "
             "seven textbook formulas (zero divisor -> 0, money stays money in the same currency); the exact operation sequence for "
             "any number algebra (so the binary64 reading is fixed); finite-table theorems over the rule table regenerated from "
             "config.json (en and tr) that the intended rule fires on each phrase shape, for all operand values, through rule loop, "
             "post-processing, parser and interpreter; both spellings p% / %p yield the same token for every digit string "
             "(induction over the regex matcher). Tie: per-run differential check with an exact-rational oracle.",
        design="DESIGN.md section 7 C05", technique="Coq proof (field over Qc, vm_compute on open terms for rule selection, induction over the regex matcher) + model/implementation correspondence"),
    "C06": dict(
        text="Theorems: conversion is a*rate(B)/rate(A) (exact rationals, all amounts, all configurations; operation order fixed for "
             "binary64), identity for A=B; + and - convert the right operand into the left currency, * / by a number keep the "
             "currency, money/money is a plain ratio; for ALL operation histories the rate table is the fold of the accepted "
             "updates (last write wins, other currencies untouched, evaluation never changes it, false exactly for unknown names); "
             "finite-table theorems over the 161 regenerated currencies, aliases and 32x32 rated pairs, every literal spelling end to "
             "end; the money parser on `digits blanks word` and `symbol digits` yields exactly one money token for ALL digit "
             "strings and all 161 codes in any letter case. Four literal-clause defects are refuted-witness theorems and listed "
             "known findings. Tie: per-run differential "
             "check on evaluations and update histories with an exact-rational oracle over config.json.",
        design="DESIGN.md section 7 C06", technique="Coq proof (field over Qc, induction over update histories, finite tables by vm_compute) + model/implementation correspondence"),
    "C08": dict(
        text="Theorems: for ALL digit lists and admissible separator pairs the literal reader maps the literal written in a "
             "convention to the same canonical decimal (read/write round trip, any grouping, signed, and the correctly rounded "
             "binary64 value); parser, interpreter, every rule function, the unit loop, basic_execute and whole lines threading "
             "variables are invariant under changing only the separators (parametricity proofs over the model), the lexer reads "
             "separators only through read_decimal. The regex restriction to [0-9.,] inside literals is a listed known finding "
             "(grouping by ' ' or \"'\"). Tie: per-run differential check evaluating each abstract line under two configurations.",
        design="DESIGN.md section 7 C08", technique="Coq proof (induction over strings for replace, structural parametricity over the model) + model/implementation correspondence"),
    "C09": dict(
        text="Theorems: a date is accepted iff it is a valid proleptic-Gregorian date and denotes days_from_civil (bijection "
             "proved for all days); small_date is sound, complete and panic-free; `A to B` is |difference| days, symmetric; exact "
             "characterisation of date +/- duration for all inputs: |k| < 30 days exact, k days as k/365 years + months + remainder, "
             "N months / N years as calendar months/years where the intermediate dates exist; today/tomorrow/yesterday are "
             "consecutive days; month names per language (finite tables). The two pinned defects (30-day/365-day quantisation, no "
             "year borrow when subtracting months) are exactly characterised, refuted by witnesses and listed as known findings. "
             "Tie: per-run differential check with python's calendar as oracle, all spellings, en and tr.",
        design="DESIGN.md section 7 C09", technique="Coq proof (lia with div/mod over the civil calendar, finite tables) + model/implementation correspondence"),
    "C12": dict(
        text="Theorems: every upgrade/downgrade/bridge code of the regenerated unit table has the shape {value} [*|/ c]; for any "
             "evaluator that computes those steps the model's conversion performs exactly the steps of the index walk; in exact "
             "arithmetic the walk is x * factor and, finite-table over ALL ordered pairs and target names incl. both bridges, the "
             "factor equals size(u)/size(v) of the hand-written unit definitions (hence linear, invertible, transitive for all "
             "amounts); no conversion or arithmetic crosses kinds; arithmetic rules for quantities; independence from separators. "
             "The faithful binary64 evaluator (print, substitute, lex, parse, evaluate) is executed bit-exactly on samples x all "
             "codes and all 365 pairs, and on every case of the per-run differential check (oracle: exact fractions).",
        design="DESIGN.md section 7 C12", technique="Coq proof (finite tables over regenerated data by vm_compute, linearity over Qc) + model/implementation correspondence"),
    "C13": dict(
        text="Theorems: reading the printed digits of n gives n back for every base 2..36, both cases, every 0 <= n < 2^64 (fuel "
             "proved sufficient), no leading zeros; the literal reader accepts exactly n < 2^63; printing a based number is prefix + "
             "digits of the 64-bit value; `to hex|octal|binary|decimal` rounds half away from zero and sets the base; arithmetic "
             "keeps the left operand's base; at binary64 every n < 2^53 round-trips (uses two stdlib float axioms, listed); END "
             "TO END the TEXT `0b`ds / `0o`ds / `0x`ds (ds any digit string of the base made of decimal digits, below 2^63) "
             "evaluates through the public entry point to that number of the based type and prints as the based text. The "
             "hex-literal/currency-code collision is a refuted witness and a listed known finding. Tie: per-run differential check "
             "incl. read-back of every printed literal.",
        design="DESIGN.md section 7 C13", technique="Coq proof (strong induction on n by division, lia) + model/implementation correspondence"),
    "C14": dict(
        text="Theorems: for ALL n the instant decomposes into day and second-of-day and back (floor division, negatives included), "
             "and with the civil-calendar bijection the civil reading of a timestamp and back is the identity; to_unixtime gives "
             "midnight UTC for dates and the instant for times/date-times independent of the display zone; from_unixtime yields the "
             "same instant in the default or requested zone and declines (never panics) outside chrono's range; the two are mutual "
             "inverses; `at` builds date*86400+secs for hours 0..23; the printed timestamp is the full decimal of n for ALL n "
             "(parse_i64 (Z_to_str z) = Some z). Whole-pipeline families by vm_compute. Tie: per-run differential check with "
             "python datetime as oracle over years 1..9999, 12 default and 15 explicit zones.",
        design="DESIGN.md section 7 C14", technique="Coq proof (lia with div/mod, calendar bijection, digit-string induction) + model/implementation correspondence"),
    "C17": dict(
        text="Theorems: the byte->character map is exact for all lines; the collection invariant (0 <= s < e <= length in "
             "characters, pairwise disjoint) is preserved by add for ANY byte span, by sort (which sorts and permutes) and by "
             "update_tokens under a stated side condition, so for every line, configuration and language the lexer's tokens are "
             "well-formed, and through the whole pipeline every offset is within the line; exact panic condition of the drain. The "
             "remaining defect (offsets taken from a case-mapped copy with length-changing characters: misplaced or empty spans) "
             "is reproduced by refuted-witness theorems and is a listed known finding. Tie: per-run differential check with UI "
             "tokens compared exactly, multi-byte and case-length-changing characters injected.",
        design="DESIGN.md section 7 C17", technique="Coq proof (invariant preservation over the UI-token collection, induction over lines) + model/implementation correspondence"),

    "C01": dict(
        text="Theorems for ALL texts, languages and configurations: a returning evaluation has status true and exactly one slot "
             "per line (lines split on LF/CRLF), it is the in-order fold of the line evaluator (slot i = line i under the "
             "variables of the lines before; an error or empty slot never stops the fold), for execute and for re-used sessions; "
             "the recursive-descent parser terminates on EVERY token list within its fuel; the three rewrite loops terminate "
             "(measure: active typed tokens; side condition on the regenerated patterns, preserved by every setter); panic "
             "freedom of everything AFTER the lexer up to one residual site (the highlight drain, 1701): index ranges of matches, "
             "the field unwraps of all 20 rule functions on every pattern of the regenerated rule table, unit-chain key "
             "arithmetic, interpreter and formatter, for the default configuration and every configuration reachable through "
             "the setters, under explicit hypotheses (nested evaluator returns, clock instants within a bound); blank lines of any "
             "length evaluate to nothing. Lexer panic freedom is NOT a theorem: it is decided per run by the differential check "
             "on a malformed-input stream (panics and watchdog time-outs of the crate are violations with that input).",
        design="DESIGN.md section 7 C01", technique="Coq proof (fold refinement, strong induction for parser termination, measure argument for rewrite loops, stage-wise panic-freedom invariants, sound regex analysis) + model/implementation correspondence on a malformed-input stream"),
    "C07": dict(
        text="Theorems for any number algebra, every value, separator strings, digit count and both flags: format_number = "
             "sign ++ group3(integer digits) ++ [decimal separator ++ fraction] with the fraction omitted exactly when removal is "
             "on and all printed fraction digits are zero (unconditional since the repair 9ef4dcc; it never panics); grouping puts "
             "a separator exactly every three digits from the right for ALL digit lists; the `{:.N}` digits are the exact binary64 "
             "value rounded half-even (for every float and digit count); percent/money/unit wrappers, money placement for all 161 "
             "currencies (finite table). Tie: per-run differential check with values injected exactly through atoms and an "
             "exact-decimal oracle over separators x digits x flags x currencies.",
        design="DESIGN.md section 7 C07", technique="Coq proof (induction on digit lists with a mod-3 invariant, exact rounding over Z, finite tables) + model/implementation correspondence"),

    "C11": dict(
        text="Theorems for ALL instants, wall times, offsets and durations: the printed clock is ((t + 60*off) mod 86400) in "
             "HH:MM:SS with components in range; `T ZONE` re-anchors the wall time (instant = wall - 60*off, independent of the "
             "default zone); `to ZONE` keeps the instant and swaps the display zone, so `T A to B` prints (w - 60a + 60b) mod 24h; "
             "+/- a duration moves the clock modulo 24 h; `T1 to T2` is |t1 - t2|; the default zone after any history is the last "
             "one set successfully. Finite tables through the real regexes and the whole pipeline: all H:MM / H:MM:SS / am-pm "
             "forms, all 174 expressible non-currency zones of the regenerated table, 5490 GMT forms. One known finding "
             "(C11-K1, C11_both_zoned_refuted): `T1 Z1 to T2 Z2` with BOTH operands zoned on one line fails. Tie: per-run "
             "differential check (thorough: all 174^2 ordered zone pairs; zones on either operand of `T1 to T2`, also under "
             "language tr) with an integer-arithmetic oracle.",
        design="DESIGN.md section 7 C11", technique="Coq proof (lia with mod arithmetic, induction over set_timezone histories, finite tables by vm_compute) + model/implementation correspondence"),

    "C16": dict(
        text="Partial. Theorems: blanks and comments are untyped tokens that never reach the token list; after the lexer only "
             "the sequence of (token type, status) matters - update_token_variables, the unit loop, the rule loop, all 20 rule "
             "functions, post-processing, parser and interpreter give the same result on position-relabelled inputs, for ALL "
             "lines; every comparison of connectives, rule words, variable names, currencies, aliases, months and zones is "
             "invariant under letter case (same to_lowercase / to_uppercase image); a line of blanks of ANY length produces no "
             "token and evaluates to nothing (sound regex analysis). Computed: comment-only families, about 200 original/rewritten line pairs through the whole pipeline. The lexical step "
             "(inserting blanks keeps the lexed token sequence) is NOT proved; it is decided per run by the differential check "
             "evaluating each line and its rewritings (blanks, comments, case per keyword class). One listed known finding "
             "(sign read into a literal changes which rule matches).",
        design="DESIGN.md section 7 C16", technique="Coq proof (structural invariance of the post-lexer pipeline, case-invariance lemmas, computed families) + model/implementation correspondence on original/rewritten line pairs"),

    "C19": dict(
        text="Partial. Theorems: for ALL lines, configurations and number algebras the pipeline depends on the language tag only "
             "through six per-language table lookups (two tags with equal table entries evaluate identically; unknown tags "
             "behave alike); finite tables over the regenerated data: every constant keyword, month (all spellings) and operator "
             "word of tr has an en counterpart, the 13 tr rules are en rules with the same field structure up to keyword words, "
             "the word-free patterns are identical and, for all operand values, the en and tr rule loops rewrite the word-free "
             "shapes identically; dates and durations print in each language's own words. Value equality for EVERY word-by-word "
             "translated line is not proved; it is decided per run by the differential check executing (en line, tr line) pairs "
             "and word-free lines under both languages. One listed known finding (upper-case Turkish words with I/İ).",
        design="DESIGN.md section 7 C19", technique="Coq proof (parametricity in the language tag, finite tables over both languages' regenerated data) + model/implementation correspondence on translated line pairs"),

    "C15": dict(
        text="Partial. The full statement is FALSE in the faithful model (C15_full_partial) and nine mechanisms by which a "
             "printed form does not re-read are refuted-witness theorems and listed known findings (negative zero, separators "
             "outside [.,], money symbols that are no reader name or name another currency, zero duration, 12 months, "
             "date-time print, raw unix timestamp, hex/currency; the former tr time+zone finding is repaired in /repo). Proved: finite tables over the regenerated data that every printed "
             "duration word, unit word, month word (en and tr) and all 191 zone names re-read as themselves, the exact partition of "
             "the 161 currencies into re-readable / not; unbounded: based integers (C13 composition), durations with < 12 months "
             "re-read part by part and recombine to |secs| for ALL second counts, the reader normalises the printed number for ALL "
             "digit strings and separator pairs; whole-pipeline families (about 200 lines, 10 digit settings, 4 separator "
             "conventions). Tie: two-phase generator feeding every printed output back as a new line, on crate and model.",
        design="DESIGN.md section 7 C15", technique="Coq proof (finite tables over regenerated word lists, composition of the C07/C08/C10/C13 theorems, computed pipeline families) + model/implementation correspondence on print/re-read pairs"),
}

PENDING_REASON = "check not built yet (work in progress; see DESIGN.md section 7)"


def main():
    ids = [json.loads(l)["id"] for l in open(os.path.join(ROOT, "properties.jsonl"))]
    checks, na = [], []
    for pid in ids:
        if pid in CLAIMED:
            c = CLAIMED[pid]
            checks.append({
                "property_id": pid,
                "quick_cmd": "./check %s --tier quick" % pid,
                "thorough_cmd": "./check %s --tier thorough" % pid,
                "evidence_file": "/verif/evidence/%s.json" % pid,
                "replay_cmd_template": "./check %s --replay {path}" % pid,
                "engine": "coq-model",
                "level_claimed": {"category": "proof", "text": c["text"], "design_ref": c["design"]},
                "level_note": c.get("note", NOTE),
                "technique": c["technique"],
            })
        else:
            na.append({"property_id": pid, "reason": PENDING_REASON})
    m = {
        "version": 1,
        "setup_cmd": "./setup.sh",
        "hooks": {
            "guard": "smartcalc_verif",
            "enable": "none needed: all observables are public API (RUSTFLAGS=--cfg smartcalc_verif reserved)",
            "baseline_off_cmd": "cd /repo && cargo test --workspace --no-fail-fast --offline",
            "source_commits": [],
            "add_only": True,
        },
        "engines": [{"name": "coq-model", "path": "/verif/coq", "serves_properties": sorted(CLAIMED),
                     "kind_free_text": "Coq 8.16.1 model of the whole pipeline + theorems (Properties/*.v), data regenerated "
                                       "from /repo by tools/gen.py, code tied by the correspondence harness (harness/, tools/corr.py)"}],
        "checks": checks,
        "not_applicable": na,
        "notes": "Coq 8.16.1 model + theorems, tied to /repo by a translator (config.json, scraped Rust constants) and a "
                 "differential correspondence harness; see DESIGN.md",
    }
    with open(os.path.join(ROOT, "MANIFEST.json"), "w") as f:
        json.dump(m, f, indent=1)
    print("MANIFEST: %d checks, %d not claimed" % (len(checks), len(na)))


if __name__ == "__main__":
    main()
