#!/usr/bin/env python3
"""Translator: regenerates /verif/coq/Gen/*.v from /repo on every run.

  ConfigData.v  <- /repo/src/json/config.json      (tables; polymorphic in the number algebra)
  RustConsts.v  <- constants scraped from the Rust sources with anchored regular expressions

A file is rewritten only when its content changed so that `make` rebuilds exactly the
dependents.  A scrape that no longer matches keeps the previous value and is reported in
Gen/gen_report.json as `scrape_stale` (never an alarm by itself, see DESIGN.md 5.1).
"""
import json, os, re, sys, hashlib

REPO = os.environ.get("VERIF_REPO", "/repo")
OUT = os.path.join(os.path.dirname(os.path.abspath(__file__)), "..", "coq", "Gen")
OUT = os.path.normpath(OUT)


# ---------------------------------------------------------------- Coq printing helpers
def cstr(x: str) -> str:
    """A Coq term of type str (list N of code points)."""
    if all(32 <= ord(c) < 127 and c not in '"' for c in x):
        return '(s "%s")' % x
    return "[" + ";".join(str(ord(c)) for c in x) + "]%N"


def clist(items) -> str:
    items = list(items)
    if not items:
        return "[]"
    return "[" + "; ".join(items) + "]"


def cbool(b) -> str:
    return "true" if b else "false"


def copt(x, f) -> str:
    return "None" if x is None else "(Some %s)" % f(x)


def cN(n) -> str:
    return "%d%%N" % n


def cZ(n) -> str:
    return "(%d)%%Z" % n


def cdec(text: str) -> str:
    """JSON number literal -> (fdec m k): m * 10^-k exactly as written."""
    t = text.strip()
    m = re.fullmatch(r"(-?)(\d+)(?:\.(\d+))?(?:[eE]([-+]?\d+))?", t)
    if not m:
        raise SystemExit("gen.py: unsupported number literal %r" % text)
    sign, ip, fp, ex = m.group(1), m.group(2), m.group(3) or "", int(m.group(4) or 0)
    mant = int(ip + fp)
    k = len(fp) - ex
    if k < 0:
        mant *= 10 ** (-k)
        k = 0
    if sign:
        mant = -mant
    return "(fdec %s %s)" % (cZ(mant), cZ(k))


def write_if_changed(path, content):
    old = None
    if os.path.exists(path):
        with open(path, encoding="utf-8") as f:
            old = f.read()
    if old != content:
        with open(path, "w", encoding="utf-8") as f:
            f.write(content)
        return True
    return False


# ---------------------------------------------------------------- Rust constants
SCRAPES = [
    # name, file, regex (one capture), post
    ("MINUTE", "src/formatter/mod.rs", r"pub const MINUTE: i64 = (\d+);", int),
    ("HOUR_F", "src/formatter/mod.rs", r"pub const HOUR: i64 = MINUTE \* (\d+);", int),
    ("DAY_F", "src/formatter/mod.rs", r"pub const DAY: i64 = HOUR \* (\d+);", int),
    ("WEEK_F", "src/formatter/mod.rs", r"pub const WEEK: i64 = DAY \* (\d+);", int),
    ("MONTH_F", "src/formatter/mod.rs", r"pub const MONTH: i64 = DAY \* (\d+);", int),
    ("YEAR_F", "src/formatter/mod.rs", r"pub const YEAR: i64 = DAY \* (\d+);", int),
    ("DEFAULT_DSEP", "src/config.rs", r'decimal_seperator: "([^"]*)"\.to_string\(\)', str),
    ("DEFAULT_TSEP", "src/config.rs", r'thousand_separator: "([^"]*)"\.to_string\(\)', str),
    ("DEFAULT_TZ", "src/config.rs", r'timezone: "([^"]*)"\.to_string\(\)', str),
    ("DEFAULT_TZ_OFFSET", "src/config.rs", r"timezone_offset: (-?\d+),", int),
]

DEFAULTS = {"MINUTE": 60, "HOUR_F": 60, "DAY_F": 24, "WEEK_F": 7, "MONTH_F": 30, "YEAR_F": 365,
            "DEFAULT_DSEP": ",", "DEFAULT_TSEP": ".", "DEFAULT_TZ": "UTC", "DEFAULT_TZ_OFFSET": 0}


def scrape_block(text, start_pat, nfields):
    """numeric config blocks: `number_config: NumberConfig { decimal_digits: 2, remove_fract_if_zero: true, ...}`"""
    m = re.search(start_pat, text, re.S)
    return m.groups() if m else None


def scrape_consts(report):
    vals = dict(DEFAULTS)
    stale = []
    cache = {}
    for name, rel, pat, post in SCRAPES:
        p = os.path.join(REPO, rel)
        if p not in cache:
            try:
                cache[p] = open(p, encoding="utf-8").read()
            except OSError:
                cache[p] = ""
        found = re.findall(pat, cache[p])
        if len(found) == 1:
            vals[name] = post(found[0])
        else:
            stale.append(name)
    cfg = cache.get(os.path.join(REPO, "src/config.rs"), "")
    m = re.search(r"money_config: MoneyConfig \{\s*remove_fract_if_zero: (true|false),\s*use_fract_rounding: (true|false)\s*\}", cfg)
    vals["MONEY_CFG"] = (m.group(1) == "true", m.group(2) == "true") if m else (False, True)
    if not m:
        stale.append("MONEY_CFG")
    for key, field in (("NUMBER_CFG", "number_config"), ("PERCENT_CFG", "percentage_config")):
        m = re.search(field + r": NumberConfig \{\s*decimal_digits: (\d+),\s*remove_fract_if_zero: (true|false),\s*use_fract_rounding: (true|false)\s*\}", cfg)
        vals[key] = (int(m.group(1)), m.group(2) == "true", m.group(3) == "true") if m else (2, True, True)
        if not m:
            stale.append(key)
    # notation multipliers (number.rs / money.rs): "k" | "K" => 1_000.0, ...
    for key, rel in (("NOTATION_NUMBER", "src/tokinizer/regex_tokinizer/number.rs"),
                     ("NOTATION_MONEY", "src/tokinizer/regex_tokinizer/money.rs")):
        try:
            t = open(os.path.join(REPO, rel), encoding="utf-8").read()
        except OSError:
            t = ""
        rows = re.findall(r'((?:"[A-Za-z]"\s*\|\s*)*"[A-Za-z]")\s*=>\s*([0-9_]+)\.0', t)
        table = []
        for letters, num in rows:
            for l in re.findall(r'"([A-Za-z])"', letters):
                table.append((l, int(num.replace("_", ""))))
        if len(table) >= 7:
            vals[key] = table
        else:
            vals[key] = [("k", 10**3), ("K", 10**3), ("M", 10**6), ("G", 10**9), ("T", 10**12),
                         ("P", 10**15), ("Z", 10**18), ("Y", 10**21)]
            stale.append(key)
    # date rules installed by SmartCalc::default (smartcalc.rs)
    try:
        t = open(os.path.join(REPO, "src/smartcalc.rs"), encoding="utf-8").read()
    except OSError:
        t = ""
    rules = {}
    for lang, body in re.findall(r'smartcalc\.set_date_rule\("(\w+)", vec!\[(.*?)\]\);', t, re.S):
        rules[lang] = re.findall(r'"([^"]*)"\.to_string\(\)', body)
    if not rules:
        stale.append("DATE_RULES")
        rules = {"en": ["{MONTH:month} {NUMBER:day}, {NUMBER:year}", "{MONTH:month} {NUMBER:day} {NUMBER:year}",
                        "{NUMBER:day}/{NUMBER:month}/{NUMBER:year}", "{NUMBER:day} {MONTH:month} {NUMBER:year}",
                        "{NUMBER:day} {MONTH:month}"],
                 "tr": ["{NUMBER:day}/{NUMBER:month}/{NUMBER:year}", "{NUMBER:day} {MONTH:month} {NUMBER:year}",
                        "{NUMBER:day} {MONTH:month}"]}
    vals["DATE_RULES"] = rules
    # order of the regex parsers (regex_tokinizer/mod.rs)
    try:
        t = open(os.path.join(REPO, "src/tokinizer/regex_tokinizer/mod.rs"), encoding="utf-8").read()
    except OSError:
        t = ""
    order = re.findall(r'\("(\w+)",\s*\w+_regex_parser\s+as RegexParser\)', t)
    if len(order) < 5:
        stale.append("PARSER_ORDER")
        order = ["comment", "field", "money", "atom", "percent", "timezone", "time", "number", "text", "whitespace", "operator"]
    vals["PARSER_ORDER"] = order
    # ---- the STRUCTURE of the pipeline, pinned by Proofs/TiePins.v (an unscrapable source yields an empty list, which
    #      breaks the pin: the model's hard-wired structure is then no longer known to be the code's)
    def src(rel):
        try:
            return open(os.path.join(REPO, rel), encoding="utf-8").read()
        except OSError:
            return ""
    t = src("src/tokinizer/mod.rs")
    def calls(fn):
        m = re.search(r'pub fn %s\(&mut self\) -> bool \{(.*?)\n    \}' % fn, t, re.S)
        if not m:
            return []
        body = re.sub(r'log::debug!\([^;]*\);', '', m.group(1))
        return [a or b for a, b in re.findall(r'(?:\b(\w+)\(self\);|self\.(\w+)\(\);)', body)]
    vals["PASS_ORDER"] = calls("tokinize")
    vals["BASIC_PASS_ORDER"] = calls("basic_tokinize")
    m = re.search(r'pub fn token_infos\(.*?\) -> Vec<Rc<TokenInfo>> \{(.*?)\n    \}', t, re.S)
    vals["PATTERN_PASS_ORDER"] = re.findall(r'\b(\w+)\(&mut tokinizer\);', m.group(1)) if m else []
    t = src("src/tokinizer/rule_tokinizer/mod.rs")
    vals["RULE_REGISTRY"] = re.findall(r'm\.insert\("(\w+)"\.to_string\(\),\s*(\w+)\s+as ExpressionFunc\)', t)
    t = src("src/syntax/binary.rs")
    vals["PARSE_LEVELS"] = [(a, b, re.findall(r"'(.)'", ops)) for a, b, ops in re.findall(
        r'impl SyntaxParserTrait for (\w+) \{\s*fn parse\(parser: &mut SyntaxParser\) -> AstResult \{\s*parse_binary::<(\w+)>\(parser, &\[(.*?)\]\)', t, re.S)]
    mp = []
    for rel in ("src/syntax/mod.rs", "src/syntax/unary.rs", "src/syntax/primative.rs"):
        for lst in re.findall(r'map_parser\(\w+, &\[(.*?)\]\)', src(rel), re.S):
            mp.append((rel.split("/")[-1], [x.strip().replace("Self::", "").replace("::parse", "") for x in lst.split(",") if x.strip()]))
    vals["MAP_PARSERS"] = mp
    # which operand kinds and operations each item kind's `calculate` names (compiler/*.rs)
    co = []
    for f in ("number", "percent", "money", "duration", "time", "date", "date_time", "dynamic_type"):
        m = re.search(r'fn calculate\(.*?\n    \}\n', src("src/compiler/%s.rs" % f), re.S)
        body = m.group(0) if m else ""
        kinds = []
        for k in re.findall(r'"([A-Z_]+)"', body):
            if k not in kinds:
                kinds.append(k)
        opsn = sorted(set(re.findall(r'OperationType::(\w+)', body)))
        co.append((f, kinds, opsn))
    vals["CALC_OPERANDS"] = co
    report["scrape_stale"] = stale
    return vals


def gen_rust_consts(vals):
    L = []
    L.append("(* GENERATED by tools/gen.py from the Rust sources of /repo -- do not edit *)")
    L.append("From SC.Model Require Import Base.")
    L.append("Definition MINUTE : Z := %d." % vals["MINUTE"])
    L.append("Definition HOUR : Z := MINUTE * %d." % vals["HOUR_F"])
    L.append("Definition DAY : Z := HOUR * %d." % vals["DAY_F"])
    L.append("Definition WEEK : Z := DAY * %d." % vals["WEEK_F"])
    L.append("Definition MONTH : Z := DAY * %d." % vals["MONTH_F"])
    L.append("Definition YEAR : Z := DAY * %d." % vals["YEAR_F"])
    L.append("Definition DEFAULT_DSEP : str := %s." % cstr(vals["DEFAULT_DSEP"]))
    L.append("Definition DEFAULT_TSEP : str := %s." % cstr(vals["DEFAULT_TSEP"]))
    L.append("Definition DEFAULT_TZ : str := %s." % cstr(vals["DEFAULT_TZ"]))
    L.append("Definition DEFAULT_TZ_OFFSET : Z := %s." % cZ(vals["DEFAULT_TZ_OFFSET"]))
    rm, rnd = vals["MONEY_CFG"]
    L.append("Definition MONEY_CFG : bool * bool := (%s, %s)." % (cbool(rm), cbool(rnd)))
    for k in ("NUMBER_CFG", "PERCENT_CFG"):
        d, rm, rnd = vals[k]
        L.append("Definition %s : N * bool * bool := (%s, %s, %s)." % (k, cN(d), cbool(rm), cbool(rnd)))
    for k in ("NOTATION_NUMBER", "NOTATION_MONEY"):
        L.append("Definition %s : list (N * Z) := %s." % (k, clist("(%s, %s)" % (cN(ord(l)), cZ(v)) for l, v in vals[k])))
    L.append("Definition PARSER_ORDER : list str := %s." % clist(cstr(x) for x in vals["PARSER_ORDER"]))
    L.append("Definition DATE_RULES : list (str * list str) := %s." %
             clist("(%s, %s)" % (cstr(l), clist(cstr(r) for r in rs)) for l, rs in sorted(vals["DATE_RULES"].items())))
    L.append("(* structure of the pipeline (pinned in Proofs/TiePins.v) *)")
    L.append("Definition PASS_ORDER : list str := %s." % clist(cstr(x) for x in vals["PASS_ORDER"]))
    L.append("Definition BASIC_PASS_ORDER : list str := %s." % clist(cstr(x) for x in vals["BASIC_PASS_ORDER"]))
    L.append("Definition PATTERN_PASS_ORDER : list str := %s." % clist(cstr(x) for x in vals["PATTERN_PASS_ORDER"]))
    L.append("Definition RULE_REGISTRY : list (str * str) := %s." % clist("(%s, %s)" % (cstr(a), cstr(b)) for a, b in vals["RULE_REGISTRY"]))
    L.append("Definition PARSE_LEVELS : list (str * str * list N) := %s." %
             clist("(%s, %s, %s)" % (cstr(a), cstr(b), clist(cN(ord(o)) for o in ops)) for a, b, ops in vals["PARSE_LEVELS"]))
    L.append("Definition CALC_OPERANDS : list (str * list str * list str) := %s." %
             clist("(%s, %s, %s)" % (cstr(f), clist(cstr(x) for x in ks), clist(cstr(x) for x in os_)) for f, ks, os_ in vals["CALC_OPERANDS"]))
    L.append("(* keys that occur twice in one object of config.json (must be none) *)")
    L.append("Definition CONFIG_DUPLICATE_KEYS : list str := %s." % clist(cstr(x) for x in DUPLICATE_KEYS))
    L.append("Definition MAP_PARSERS : list (str * list str) := %s." %
             clist("(%s, %s)" % (cstr(f), clist(cstr(x) for x in xs)) for f, xs in vals["MAP_PARSERS"]))
    return "\n".join(L) + "\n"


# ---------------------------------------------------------------- config.json
class RawNum(str):
    pass


def load_config():
    path = os.path.join(REPO, "src/json/config.json")
    text = open(path, encoding="utf-8").read()
    # keep number literals as written (exact decimals)
    data = json.loads(text, parse_float=RawNum, parse_int=lambda x: int(x))
    # an object with the same key twice is not a well-defined table (serde_json keeps the last value silently)
    dups = []
    def hook(pairs):
        seen = set()
        for k, _ in pairs:
            if k in seen and k not in dups:
                dups.append(k)
            seen.add(k)
        return dict(pairs)
    json.loads(text, object_pairs_hook=hook)
    DUPLICATE_KEYS[:] = dups
    return data


DUPLICATE_KEYS = []


DURKIND = {"Second": "DSecond", "Minute": "DMinute", "Hour": "DHour", "Day": "DDay", "Week": "DWeek",
           "Month": "DMonth", "Year": "DYear"}
CONST = {1: "CDay", 2: "CWeek", 3: "CMonth", 4: "CYear", 5: "CSecond", 6: "CMinute", 7: "CHour", 8: "CToday",
         9: "CTomorrow", 10: "CYesterday", 11: "CNow"}


def gen_config(cfg, vals):
    L = []
    A = L.append
    A("(* GENERATED by tools/gen.py from /repo/src/json/config.json -- do not edit *)")
    A("From SC.Model Require Import Base Num Types Config.")
    A("Section Data.")
    A("Context {F : Type} {NF : Num F}.")
    # currencies: BTreeMap iteration = sorted by key; config.currency key is lower-cased
    cur = cfg["currencies"]
    rows = []
    for key in sorted(cur):
        c = cur[key]
        rows.append("(%s, {| c_code := %s; c_symbol := %s; c_left := %s; c_space := %s; c_digits := %s |})" % (
            cstr(key.lower()), cstr(c["code"]), cstr(c["symbol"]), cbool(c["symbolOnLeft"]),
            cbool(c["spaceBetweenAmountAndSymbol"]), cN(c["decimalDigits"])))
    A("Definition d_currency : list (str * currency) := %s." % clist(rows))
    lower_keys = {k.lower(): k for k in cur}
    # currency_alias: only aliases whose target exists
    rows = []
    for k in sorted(cfg["currency_alias"]):
        v = cfg["currency_alias"][k]
        if v in lower_keys:
            rows.append("(%s, %s)" % (cstr(k), cstr(v)))
    A("Definition d_currency_alias : list (str * str) := %s." % clist(rows))
    # rates: keyed by currency (ordered by code); value as exact decimal literal
    rows = []
    rate_items = []
    for k, v in cfg["currency_rates"].items():
        if k in lower_keys:
            rate_items.append((cur[lower_keys[k]]["code"], v))
    for code, v in sorted(rate_items):
        rows.append("(%s, %s)" % (cstr(code), cdec(str(v))))
    A("Definition d_rates : list (str * F) := %s." % clist(rows))
    A("Definition d_timezones : list (str * Z) := %s." % clist(
        "(%s, %s)" % (cstr(k), cZ(cfg["timezones"][k])) for k in sorted(cfg["timezones"])))
    langs = cfg["languages"]
    A("Definition d_languages : list str := %s." % clist(cstr(l) for l in sorted(langs)))
    A("Definition d_word_group : list (str * list (str * list str)) := %s." % clist(
        "(%s, %s)" % (cstr(l), clist("(%s, %s)" % (cstr(g), clist(cstr(w) for w in langs[l]["word_group"][g]))
                                      for g in sorted(langs[l]["word_group"]))) for l in sorted(langs)))
    A("Definition d_constant_pair : list (str * list (str * consttype)) := %s." % clist(
        "(%s, %s)" % (cstr(l), clist("(%s, %s)" % (cstr(w), CONST[langs[l]["constant_pair"][w]])
                                      for w in sorted(langs[l]["constant_pair"]) if langs[l]["constant_pair"][w] in CONST))
        for l in sorted(langs)))
    # rule pattern texts, in BTreeMap (sorted) order of rule names
    A("Definition d_rule_texts : list (str * list (str * list str)) := %s." % clist(
        "(%s, %s)" % (cstr(l), clist("(%s, %s)" % (cstr(rn), clist(cstr(p) for p in langs[l]["rules"][rn]["rules"]))
                                      for rn in sorted(langs[l]["rules"]))) for l in sorted(langs)))
    A("Definition d_lang_alias : list (str * list (str * str)) := %s." % clist(
        "(%s, %s)" % (cstr(l), clist("(%s, %s)" % (cstr(a), cstr(langs[l]["alias"][a])) for a in sorted(langs[l]["alias"])))
        for l in sorted(langs)))
    A("Definition d_alias : list (str * str) := %s." % clist(
        "(%s, %s)" % (cstr(a), cstr(cfg["alias"][a])) for a in sorted(cfg["alias"])))
    # months: 12 entries per language; later map entries overwrite earlier ones (BTreeMap order)
    rows = []
    for l in sorted(langs):
        months = [{"short": "", "long": "", "month": i + 1} for i in range(12)]
        for name in sorted(langs[l]["long_months"]):
            n = langs[l]["long_months"][name]
            if 1 <= n <= 12:
                months[n - 1]["long"] = name
        for name in sorted(langs[l]["short_months"]):
            n = langs[l]["short_months"][name]
            if 1 <= n <= 12:
                months[n - 1]["short"] = name
        rows.append("(%s, %s)" % (cstr(l), clist(
            "{| mi_short := %s; mi_long := %s; mi_month := %s |}" % (cstr(m["short"]), cstr(m["long"]), cZ(m["month"]))
            for m in months)))
    A("Definition d_months : list (str * list monthinfo) := %s." % clist(rows))
    rows = []
    for l in sorted(langs):
        f = langs[l]["format"]
        dur = clist("{| df_count := %s; df_format := %s; df_kind := %s |}" % (
            cstr(d["count"]), cstr(d["format"]), DURKIND[d["duration_type"]]) for d in f["duration"])
        date = clist("(%s, %s)" % (cstr(k), cstr(f["date"][k])) for k in sorted(f["date"]))
        rows.append("(%s, {| lf_duration := %s; lf_date := %s; lf_language := %s |})" % (cstr(l), dur, date, cstr(l)))
    A("Definition d_format : list (str * langformat) := %s." % clist(rows))
    A("Definition d_type_group : list (str * list str) := %s." % clist(
        "(%s, %s)" % (cstr(k), clist(cstr(x) for x in cfg["type_group"][k])) for k in sorted(cfg["type_group"])))
    # unit families: pattern texts kept as text; tokenised by the model's own lexer at load
    rows = []
    for t in cfg["types"]:
        items = []
        for it in t["items"]:
            if it.get("upgrade_code") is None or it.get("downgrade_code") is None:
                continue
            items.append("(%s, %s, %s, %s, %s, %s, %s, %s, %s, %s)" % (
                cN(it["index"]), cstr(it["format"]), clist(cstr(p) for p in it["parse"]),
                cstr(it["upgrade_code"]), cstr(it["downgrade_code"]), clist(cstr(n) for n in it["names"]),
                copt(it.get("decimal_digits"), cN), copt(it.get("use_fract_rounding"), cbool),
                copt(it.get("remove_fract_if_zero"), cbool), cstr(t["name"])))
        rows.append("(%s, %s)" % (cstr(t["name"]), clist(items)))
    A("Definition d_types_raw : list (str * list (N * str * list str * str * str * list str * option N * option bool * option bool * str)) := %s." % clist(rows))
    A("Definition d_type_conv : list type_conv := %s." % clist(
        "{| tc_src_name := %s; tc_src_index := %s; tc_tgt_name := %s; tc_tgt_index := %s; tc_to_source := %s; tc_to_target := %s |}" % (
            cstr(tc["source"]["name"]), cN(tc["source"]["index"]), cstr(tc["target"]["name"]), cN(tc["target"]["index"]),
            cstr(tc["to_source_calculation"]), cstr(tc["to_target_calculation"])) for tc in cfg["type_conversion"]))
    # the parse regex texts (compiled by tools/rxparse.py into Gen/Regexes.v)
    A("Definition d_parse_keys : list str := %s." % clist(cstr(k) for k in sorted(cfg["parse"])))
    A("End Data.")
    return "\n".join(L) + "\n"


def gen_regexes(cfg):
    """Every regex the crate compiles at load time (config.rs:205-262), translated by rxparse."""
    sys.path.insert(0, os.path.dirname(os.path.abspath(__file__)))
    import rxparse

    def cre(pattern):
        term, n, names = rxparse.parse(pattern)
        return "{| cre_rx := %s; cre_n := %d%%nat; cre_names := %s |}" % (
            term, n, clist("(%s, %d%%nat)" % (cstr(k), v) for k, v in sorted(names.items())))

    L = []
    A = L.append
    A("(* GENERATED by tools/gen.py + tools/rxparse.py from /repo/src/json/config.json -- do not edit *)")
    A("From SC.Model Require Import Base Regex Rx Types.")
    A("Definition g_parse : list (str * list cre) := %s." % clist(
        "(%s, %s)" % (cstr(k), clist(cre(p) for p in cfg["parse"][k])) for k in sorted(cfg["parse"])))
    A("Definition g_alias : list (cre * str) := %s." % clist(
        "(%s, %s)" % (cre(r"\b%s\b" % a), cstr(cfg["alias"][a])) for a in sorted(cfg["alias"])))
    langs = cfg["languages"]
    A("Definition g_lang_alias : list (str * list (cre * str)) := %s." % clist(
        "(%s, %s)" % (cstr(l), clist("(%s, %s)" % (cre(r"\b%s\b" % a), cstr(langs[l]["alias"][a]))
                                      for a in sorted(langs[l]["alias"]))) for l in sorted(langs)))
    rows = []
    for l in sorted(langs):
        months = [{"short": "", "long": "", "month": i + 1} for i in range(12)]
        for name in sorted(langs[l]["long_months"]):
            n = langs[l]["long_months"][name]
            if 1 <= n <= 12:
                months[n - 1]["long"] = name
        for name in sorted(langs[l]["short_months"]):
            n = langs[l]["short_months"][name]
            if 1 <= n <= 12:
                months[n - 1]["short"] = name
        rows.append("(%s, %s)" % (cstr(l), clist(
            "(%s, {| mi_short := %s; mi_long := %s; mi_month := %s |})" % (
                cre(month_pattern(langs[l], m["month"])), cstr(m["short"]), cstr(m["long"]), cZ(m["month"]))
            for m in months)))
    A("Definition g_months : list (str * list (cre * monthinfo)) := %s." % clist(rows))
    A("Definition g_linesplit : cre := %s." % cre(r"\r\n|\n"))
    return "\n".join(L) + "\n"


def month_pattern(lang, number):
    """config.rs: every configured spelling of the month, long names first (BTreeMap order), then the short names
    not already listed"""
    names = [n for n in sorted(lang["long_months"]) if lang["long_months"][n] == number]
    names += [n for n in sorted(lang["short_months"]) if lang["short_months"][n] == number and n not in names]
    return "|".join(r"\b%s\b" % n for n in names)


def main():
    os.makedirs(OUT, exist_ok=True)
    report = {}
    vals = scrape_consts(report)
    cfg = load_config()
    changed = []
    if write_if_changed(os.path.join(OUT, "RustConsts.v"), gen_rust_consts(vals)):
        changed.append("RustConsts.v")
    if write_if_changed(os.path.join(OUT, "ConfigData.v"), gen_config(cfg, vals)):
        changed.append("ConfigData.v")
    if write_if_changed(os.path.join(OUT, "Regexes.v"), gen_regexes(cfg)):
        changed.append("Regexes.v")
    report["changed"] = changed
    report["config_sha256"] = hashlib.sha256(open(os.path.join(REPO, "src/json/config.json"), "rb").read()).hexdigest()
    with open(os.path.join(OUT, "gen_report.json"), "w") as f:
        json.dump(report, f, indent=1)
    print("gen.py: changed=%s stale=%s" % (changed, report["scrape_stale"]))


if __name__ == "__main__":
    main()
