#!/usr/bin/env python3
"""Developer tool: run a property's generator through the implementation, the model and the spec
oracle without the proof steps.  usage: trial.py C02 [seed] [tier]"""
import sys, os, json, random, importlib, time
sys.path.insert(0, os.path.dirname(os.path.abspath(__file__)))
import corr
pid = sys.argv[1]
seed = int(sys.argv[2]) if len(sys.argv) > 2 else 1
tier = sys.argv[3] if len(sys.argv) > 3 else "quick"
mod = importlib.import_module("props.%s" % pid)
rng = random.Random(seed)
cases = mod.generate(rng, tier)
for i, c in enumerate(cases):
    c["id"] = i
    c.setdefault("detail", getattr(mod, "DETAIL", 0))
t = time.time()
print(corr.build_harness())
h, recs = corr.run_harness_stable(cases)
print("harness %.1fs" % (time.time() - t)); t = time.time()
r = corr.compare(pid, cases, recs, h)
print("compare %.1fs: compared=%d mismatches=%d skipped=%d errors=%d" % (time.time() - t, r["compared"], len(r["mismatches"]), len(r["skipped"]), len(r["errors"])))
for e in r["errors"][:2]:
    print(e[0], e[1][-1500:])
for cid in sorted(r["mismatches"])[:8]:
    print("MISMATCH", json.dumps(cases[cid]["ops"], ensure_ascii=False), r["mismatches"][cid])
    print("   impl :", json.dumps(recs[cid].get("obs"), ensure_ascii=False)[:600])
    print("   model:", corr.explain(cases[cid], recs[cid], h))
fails = {}
nt = 0
known = json.load(open(os.path.join(corr.ROOT, "known_findings.json")))["findings"]
known = [f for f in known if f["property"] == pid]
unl = []
for c in cases:
    v = mod.spec_check(c, recs.get(c["id"]), h)
    nt += bool(mod.nontrivial(c, recs.get(c["id"])))
    if v:
        cl = mod.known_class(c, recs.get(c["id"]), v, known)
        fails.setdefault(cl, []).append((c, v))
print("cases=%d nontrivial=%d spec failures by class: %s" % (len(cases), nt, {k: len(v) for k, v in fails.items()}))
for c, v in fails.get(None, [])[:12]:
    print("UNLISTED", json.dumps(c["ops"][-1], ensure_ascii=False), c["meta"].get("classes"), "=>", v)
