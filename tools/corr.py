#!/usr/bin/env python3
"""Correspondence machinery: run histories on the implementation (harness) and on the model
(inside coqc, vm_compute) and report where the observations differ.

A case is {"id": int, "detail": 0|1|2, "ops": [ {op...}, ... ]}  (see harness/src/main.rs).
"""
import json, os, subprocess, sys, time, hashlib, struct, re
from concurrent.futures import ThreadPoolExecutor

ROOT = os.path.normpath(os.path.join(os.path.dirname(os.path.abspath(__file__)), ".."))
COQ = os.path.join(ROOT, "coq")
HARNESS_DIR = os.path.join(ROOT, "harness")
CASES_DIR = os.path.join(COQ, "Cases")


def harness_bin(release=False):
    return os.path.join(HARNESS_DIR, "target", "release" if release else "debug", "sc_harness")


def build_harness(release=False):
    env = dict(os.environ, CARGO_NET_OFFLINE="true", TZ="UTC")
    lock = os.path.join(HARNESS_DIR, "Cargo.lock")
    if not os.path.exists(lock):
        import shutil
        shutil.copy("/repo/Cargo.lock", lock)
    cmd = ["cargo", "build", "--offline", "-q"] + (["--release"] if release else [])
    t = time.time()
    p = subprocess.run(cmd, cwd=HARNESS_DIR, env=env, stdout=subprocess.PIPE, stderr=subprocess.STDOUT, text=True)
    if p.returncode != 0:
        return False, p.stdout[-4000:]
    return True, "%.1fs" % (time.time() - t)


def run_harness(cases, release=False, sub="run", timeout=900):
    """returns (header, {id: obs-record})"""
    inp = "\n".join(json.dumps(c, ensure_ascii=False) for c in cases) + "\n"
    env = dict(os.environ, TZ="UTC")
    p = subprocess.run([harness_bin(release), sub], input=inp.encode("utf-8"), stdout=subprocess.PIPE,
                       stderr=subprocess.DEVNULL, env=env, timeout=timeout)
    lines = [l for l in p.stdout.decode("utf-8", "replace").split("\n") if l.strip()]
    header, out, footer = None, {}, None
    for l in lines:
        if not l.startswith("{"):
            continue
        try:
            o = json.loads(l)
        except ValueError:
            continue
        if "today" in o and header is None:
            header = o
        elif "today_end" in o:
            footer = o
        elif "id" in o:
            out[o["id"]] = o
    return header, footer, out


def run_harness_stable(cases, release=False):
    """re-run when the UTC date changed during the batch"""
    for _ in range(3):
        h, f, out = run_harness(cases, release)
        if h is not None and f is not None and h["today"] == f["today_end"]:
            return h, out
    return h, out


# ---------------------------------------------------------------- Coq term printing
def cstr(x):
    return "[" + ";".join(str(ord(c)) for c in x) + "]%N" if x else "[]"


def clist(items):
    items = list(items)
    return "[" + "; ".join(items) + "]" if items else "[]"


def cbool(b):
    return "true" if b else "false"


def cfloat_bits(bits):
    return "(f64_of_bits %d)" % int(bits)


def cfloat(x):
    return cfloat_bits(struct.unpack("<Q", struct.pack("<d", float(x)))[0])


def bits_of(x):
    return struct.unpack("<Q", struct.pack("<d", float(x)))[0]


def copt(x, f):
    return "None" if x is None else "(Some %s)" % f(x)


def cN(n):
    return "%d%%N" % n


def cZ(n):
    return "(%d)%%Z" % n


def ctz(name, off):
    return "{| tz_name := %s; tz_off := %s |}" % (cstr(name), cZ(off))


def cfield(f):
    k = f["f"]
    n = cstr(f["name"])
    if k == "Text":
        return "(FText %s %s)" % (n, copt(f.get("extra"), cstr))
    if k == "DynamicType":
        return "(FDynamicType %s %s)" % (n, copt(f.get("extra"), cstr))
    if k == "Group":
        return "(FGroup %s %s)" % (n, clist(cstr(x) for x in f["items"]))
    if k == "TypeGroup":
        return "(FTypeGroup %s %s)" % (clist(cstr(x) for x in f["types"]), n)
    return "(F%s %s)" % (k, n)


class Unrepresentable(Exception):
    pass


def ctoken(t):
    k = t["t"]
    if k == "Number":
        return "(TNumber %s %s)" % (cfloat_bits(t["v"]), t["nt"])
    if k == "Text":
        return "(TText %s)" % cstr(t["v"])
    if k in ("Time", "DateTime"):
        if t["dt"]["nanos"] != 0:
            raise Unrepresentable("sub-second time")
        return "(T%s %s %s)" % (k, cZ(t["dt"]["secs"]), ctz(t["tzn"], t["tzo"]))
    if k == "Date":
        return "(TDate %s %s)" % (cZ(t["days"]), ctz(t["tzn"], t["tzo"]))
    if k == "Operator":
        return "(TOperator %s)" % cN(t["v"])
    if k == "Field":
        return "(TField %s)" % cfield(t["v"])
    if k == "Percent":
        return "(TPercent %s)" % cfloat_bits(t["v"])
    if k == "DynamicType":
        return "(TDynamicType %s {| u_group := %s; u_index := %s |})" % (cfloat_bits(t["v"]), cstr(t["group"]), cN(t["index"]))
    if k == "Money":
        return "(TMoney %s %s)" % (cfloat_bits(t["v"]), cstr(t["cur"]))
    if k == "Variable":
        return "(TVariable %s)" % cstr(t["name"])
    if k == "Month":
        return "(TMonth %s)" % cZ(t["v"])
    if k == "Duration":
        if t.get("nanos"):
            raise Unrepresentable("sub-second duration")
        return "(TDuration %s)" % cZ(t["secs"])
    if k == "Timezone":
        return "(TTimezone %s %s)" % (cstr(t["name"]), cZ(t["off"]))
    raise Unrepresentable(k)


UIK = {"Text": "UText", "Number": "UNumber", "Symbol1": "USymbol1", "Symbol2": "USymbol2", "DateTime": "UDateTime",
       "Operator": "UOperator", "Comment": "UComment", "VariableDefination": "UVariableDefination",
       "VariableUse": "UVariableUse", "Month": "UMonth"}

RULEKIND = {"decline": "RDecline", "scale": "RScale", "sum": "RSum", "const_money": "RConstMoney",
            "const_number": "RConstNumber", "echo": "REcho"}


def cop(o):
    k = o["op"]
    if k == "exec":
        return "(OExec %s %s)" % (cstr(o["lang"]), cstr(o["text"]))
    if k == "exec_fresh":
        return "(OExecFresh %s %s)" % (cstr(o["lang"]), cstr(o["text"]))
    if k == "new_session":
        return "(ONewSession %s)" % cN(o["sid"])
    if k == "set_text":
        return "(OSetText %s %s)" % (cN(o["sid"]), cstr(o["text"]))
    if k == "set_language":
        return "(OSetLanguage %s %s)" % (cN(o["sid"]), cstr(o["lang"]))
    if k == "exec_session":
        return "(OExecSession %s)" % cN(o["sid"])
    if k == "set_dec":
        return "(OSetDec %s)" % cstr(o["v"])
    if k == "set_thou":
        return "(OSetThou %s)" % cstr(o["v"])
    if k == "set_tz":
        return "(OSetTz %s)" % cstr(o["v"])
    if k == "get_tz":
        return "OGetTz"
    if k == "set_num_cfg":
        return "(OSetNumCfg %s %s %s)" % (cN(o["d"]), cbool(o["rm"]), cbool(o["round"]))
    if k == "set_pct_cfg":
        return "(OSetPctCfg %s %s %s)" % (cN(o["d"]), cbool(o["rm"]), cbool(o["round"]))
    if k == "set_money_cfg":
        return "(OSetMoneyCfg %s %s)" % (cbool(o["rm"]), cbool(o["round"]))
    if k == "update_currency":
        return "(OUpdateCurrency %s %s)" % (cstr(o["cur"]), cfloat_bits(o["rate"]))
    if k == "add_rule":
        return "(OAddRule %s %s %s %s %s %s)" % (cstr(o["lang"]), clist(cstr(p) for p in o["patterns"]), cstr(o["name"]),
                                                RULEKIND[o["kind"]], cfloat_bits(o.get("k", "0")), cstr(o.get("cur", "")))
    if k == "delete_rule":
        return "(ODeleteRule %s %s)" % (cstr(o["lang"]), cstr(o["name"]))
    if k == "add_type":
        return "(OAddType %s)" % cstr(o["name"])
    if k == "add_type_item":
        return "(OAddTypeItem %s %s %s %s %s %s %s %s %s %s)" % (
            cstr(o["name"]), cN(o["index"]), cstr(o["format"]), clist(cstr(p) for p in o["parse"]), cstr(o["up"]),
            cstr(o["down"]), clist(cstr(n) for n in o["names"]), copt(o.get("digits"), cN), copt(o.get("round"), cbool),
            copt(o.get("rm"), cbool))
    if k == "set_date_rule":
        return "(OSetDateRule %s %s)" % (cstr(o["lang"]), clist(cstr(p) for p in o["patterns"]))
    raise ValueError("unknown op " + k)


def cline(l):
    if l is None:
        return "{| il_res := ILNone; il_ui := None; il_toks := None |}"
    if "err" in l:
        res = "(ILErr %s)" % cstr(l["err"])
    else:
        a = l["ast"]
        v = "None"
        if a["a"] == "Item":
            v = "(Some %s)" % ctoken(a["v"])
        res = "(ILOk %s %s)" % (cstr(l["out"]), v)
    ui = "None"
    if "ui" in l:
        ui = "(Some %s)" % clist("(%s, %s, %s)" % (cN(u[0]), cN(u[1]), UIK[u[2]]) for u in l["ui"])
    toks = "None"
    if "toks" in l:
        toks = "(Some %s)" % clist(ctoken(t) for t in l["toks"])
    return "{| il_res := %s; il_ui := %s; il_toks := %s |}" % (res, ui, toks)


def cobs(o, want_ui=True):
    if o is None:
        return "IHang"
    if "panic" in o:
        return "IPanic"
    if "status" in o:
        return "(IRes %s %s)" % (cbool(o["status"]), clist(cline(l) for l in o["lines"]))
    if "tzn" in o and "ret" in o:
        return "(ITz true %s %s)" % (cstr(o["tzn"]), cZ(o["tzo"]))
    if "tzn" in o:
        return "(ITz true %s %s)" % (cstr(o["tzn"]), cZ(o["tzo"]))
    if o.get("ret") is False and "err" in o:
        return "(ITz false [] 0%Z)"
    if "ret" in o:
        r = o["ret"]
        return "(IRet %s)" % ("None" if r is None else "(Some %s)" % cbool(r))
    raise ValueError("unknown observation %r" % o)


HEADER = """From Coq Require Import Floats.
From SC.Model Require Import Base Num NumF64 FloatIO Types Config UiTokens Rules Api Run64 Corr.
Definition ck : clock := {| ck_today := %d; ck_year := %d |}.
"""


def case_term(case, rec):
    """(id, ops, impl observations) as a Coq term; None when unrepresentable"""
    if rec is None:
        return None
    try:
        ops = clist(cop(o) for o in case["ops"])
        if rec.get("hang") or rec.get("crash"):
            impl = clist(["IHang"] * len(case["ops"])) if rec.get("hang") else None
            if impl is None:
                return None
        else:
            impl = clist(cobs(o) for o in rec["obs"])
        return "(%s, %s, %s)" % (cZ(case["id"]), ops, impl)
    except Unrepresentable:
        return None


def write_shard(path, header, terms, extra=""):
    with open(path, "w", encoding="utf-8") as f:
        f.write(HEADER % (header["today"], header["year"]))
        f.write("Definition cases : list (Z * list op * list iobs) := %s.\n" % clist(terms))
        f.write("Definition mism : list Z := flat_map (fun c => let '(id, ops, impl) := c in\n"
                "  match case_mismatches ck ops impl with [] => [] | l => id :: map Z.of_N l ++ [-1] end) cases.\n")
        f.write("Eval vm_compute in mism.\n")
        f.write(extra)


def parse_zlist(out):
    """all integers printed in `= [ ... ] : list Z` blocks (first block)"""
    m = re.search(r"=\s*\[(.*?)\]\s*:\s*list Z", out, re.S)
    if not m:
        return None
    body = m.group(1)
    return [int(x) for x in re.findall(r"-?\d+", body.replace("%Z", ""))]


def run_coq_file(path, timeout=1200):
    t = time.time()
    p = subprocess.run(["coqc", "-noglob", "-Q", COQ, "SC", "-w", "none", path], stdout=subprocess.PIPE,
                       stderr=subprocess.STDOUT, text=True, timeout=timeout)
    return p.returncode, p.stdout, time.time() - t


def compare(tag, cases, recs, header, shards=16, timeout=1200):
    """run the model on the cases and compare with the implementation's records.
    returns dict: mismatches {id: [op indices]}, skipped ids, errors."""
    os.makedirs(CASES_DIR, exist_ok=True)
    for fn in os.listdir(CASES_DIR):
        if fn.startswith("c_%s_" % tag):
            os.remove(os.path.join(CASES_DIR, fn))
    terms, skipped = [], []
    for c in cases:
        t = case_term(c, recs.get(c["id"]))
        if t is None:
            skipped.append(c["id"])
        else:
            terms.append(t)
    n = max(1, min(shards, (len(terms) + 7) // 8))
    paths = []
    for k in range(n):
        part = terms[k::n]
        if not part:
            continue
        path = os.path.join(CASES_DIR, "c_%s_%02d.v" % (tag, k))
        write_shard(path, header, part)
        paths.append(path)
    mism, errors = {}, []
    with ThreadPoolExecutor(max_workers=16) as ex:
        results = list(ex.map(lambda p: (p,) + run_coq_file(p, timeout), paths))
    for path, rc, out, dt in results:
        if rc != 0:
            errors.append((path, out[-3000:]))
            continue
        zs = parse_zlist(out)
        if zs is None:
            errors.append((path, out[-3000:]))
            continue
        cur = None
        for z in zs:
            if cur is None:
                cur = [z]
            elif z == -1:
                mism[cur[0]] = cur[1:]
                cur = None
            else:
                cur.append(z)
    return {"mismatches": mism, "skipped": skipped, "errors": errors, "compared": len(terms)}


def explain(case, rec, header):
    """model's view of one case, rendered (for diagnostics / replay files)"""
    os.makedirs(CASES_DIR, exist_ok=True)
    path = os.path.join(CASES_DIR, "explain_%d.v" % os.getpid())
    t = case_term(case, rec)
    with open(path, "w", encoding="utf-8") as f:
        f.write(HEADER % (header["today"], header["year"]))
        f.write("Definition ops : list op := %s.\n" % clist(cop(o) for o in case["ops"]))
        f.write("Eval vm_compute in map show_obs (run ck init_state ops).\n")
    rc, out, dt = run_coq_file(path, 600)
    os.remove(path)
    res = []
    # decode lists of lists of Z into strings
    m = re.search(r"=\s*(\[.*\])\s*:\s*list", out, re.S)
    if not m:
        return out[-2000:]
    txt = m.group(1).replace("%Z", "").replace(";", ",")
    try:
        data = eval(txt, {"__builtins__": {}})
    except Exception:
        return out[-2000:]
    for ob in data:
        if ob and ob[0] and ob[0][0] == -9:
            res.append({"panic_site": ob[0][1]})
        elif ob and ob[0] and ob[0][0] == -8:
            res.append({"ret": ob[0][1]})
        elif ob and ob[0] and ob[0][0] == -7:
            res.append({"tz_ok": ob[0][1], "off": ob[0][2], "name": "".join(chr(c) for c in ob[0][3:])})
        else:
            lines = []
            for l in ob[1:]:
                if l[0] == -1:
                    lines.append(None)
                elif l[0] == -2:
                    lines.append({"err": "".join(chr(c) for c in l[1:])})
                else:
                    lines.append({"out": "".join(chr(c) for c in l[1:])})
            res.append({"status": bool(ob[0][0]) if ob and ob[0] else None, "lines": lines})
    return res


if __name__ == "__main__":
    # smoke test: python3 tools/corr.py "1 + 2" "10 usd to try"
    ok, msg = build_harness()
    print("harness:", ok, msg)
    cases = [{"id": i, "detail": 2, "ops": [{"op": "exec", "lang": "en", "text": t}]} for i, t in enumerate(sys.argv[1:])]
    h, recs = run_harness_stable(cases)
    r = compare("smoke", cases, recs, h)
    print(r)
    for cid in r["mismatches"]:
        print("impl :", json.dumps(recs[cid]["obs"], ensure_ascii=False)[:1500])
        print("model:", explain(cases[cid], recs[cid], h))
