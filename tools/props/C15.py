"""C15 - printed results can be typed back in: formatter and reader agree.

Every case is a history  [configuration ops] + exec(line) + exec(printed form of that line's result).
The printed form cannot be known in advance, so generate() works in two phases: phase 1 runs
[configuration ops] + exec(line) on the implementation (the harness) and reads the printed `out`;
phase 2 emits the real cases, whose last op re-enters that text under the same configuration and
language.  Model and implementation are then compared on BOTH evaluations, and the oracle below
(string equality of the two printed forms, both non-empty values) is evaluated on the
implementation's record of the emitted case (not on phase 1).

Kinds (meta["kind"]): number, percent, money (by code: all currencies of config.json; by alias /
symbol: every key of currency_alias), duration, time, date, datetime, unit (every unit x every
parse name), based.  meta also carries lang, the separators, the currency code / unit / zone, so
that the known classes can be keyed narrowly."""
import json, os, re, sys
from .common import *

sys.path.insert(0, os.path.dirname(os.path.dirname(os.path.abspath(__file__))))

ALLOWED_AXIOMS = []
DETAIL = 0
RULE = ("first lines of every kind (plain / negative / large / fractional / suffixed numbers, values below zero that round "
        "to zero, percentages, money in all 161 currencies by code and by every key of currency_alias (word or symbol, "
        "symbol in front or behind), 1-7 part durations in every en and tr unit spelling, zero and 360..364-day "
        "remainders, times in table zones / GMT offsets / a configured zone, dates of every month (long and short word) in "
        "the current and another year, today/tomorrow/yesterday, unix timestamps, date-times, every unit x every name, "
        "based integers incl. hex digits that spell a currency) x 7 separator pairs (4 lexable, 3 not) x 10 digit / flag "
        "settings x money flags x languages en and tr; phase 1 runs the first line on the implementation to obtain its "
        "printed form, the emitted case re-enters that text as a second evaluation under the same configuration and "
        "language; non-trivial = the first evaluation printed a non-empty value and the second line is exactly that "
        "text; distinct = distinct histories")
ASSUMPTIONS = ["the printed form re-entered is the one the implementation printed in phase 1 of the generator; a case whose "
               "first evaluation prints something else in the compared run (clock-dependent lines at a date change) is skipped",
               "equality of printed forms is string equality; the value behind the second print is not compared "
               "(`10 cad` prints $10,00, which re-reads as 10 USD and prints $10,00 again: counted as holding; see C15-K4)",
               "`now` / `şimdi` are not generated (the printed second changes between the phases)",
               "known classes are predicates of the first observation (type, currency, seconds, number type), the case's "
               "language and separators and config.json data (reader_name / reads_as emulate parse.money on the printed symbol)"]

_cfg = json.load(open(os.path.join(os.environ.get("SMARTCALC_REPO", "/repo"), "src", "json", "config.json"), encoding="utf-8"))
CUR = {k.lower(): v for k, v in _cfg["currencies"].items()}
ALIAS = dict(_cfg["currency_alias"])
ZONES = dict(_cfg["timezones"])
UNITS = []          # (group, index, format, names)
for _g in _cfg["types"]:
    for _it in _g["items"]:
        UNITS.append((_g["name"], _it["index"], _it["format"], list(_it["names"])))
LANGS = _cfg["languages"]

# (decimal, thousands); the first four are the conventions the literal regexes can read back
SEPARATORS = [(",", "."), (".", ","), (".", ""), (",", ""), (",", " "), (".", "'"), ("٫", "٬")]
LEXABLE = set(".,")


def sep_ops(dsep, tsep):
    if (dsep, tsep) == (",", "."):
        return []
    from . import common as _common
    return _common.sep_ops(dsep, tsep)


def lit(v, dsep):
    """a literal of the decimal string v ('1234.5') in the configured convention, ungrouped"""
    return v.replace(".", dsep)


# ---------------------------------------------------------------- first lines
NUMBERS = ["0", "1", "7", "12", "999", "1000", "1234.5", "-1234.5", "1234567.891", "-1234567.891", "0.5", "0.05", "0.005",
           "0.004", "99.995", "999999.995", "123456789012", "1000000 * 1000000 * 1000", "1/3", "2/3", "10/4", "0 - 1/3",
           "1M", "2.5k", "-7", "-0.5", "100000", "12345.678"]
NEGZERO = ["0 - 0.004", "-0.004", "0 - 0.0004", "-0.001"]
PERCENTS = ["10%", "12.5%", "-5%", "1234.5%", "%50", "0.5%", "100%", "1234567%", "-0.5%", "33.333%"]
NEGZERO_PCT = ["-0.004%"]
AMOUNTS = ["10", "1234.5", "-10", "1234567.891", "0.5"]
EN_DUR = {"second": ["second", "seconds"], "minute": ["minute", "minutes"], "hour": ["hour", "hours"], "day": ["day", "days"],
          "week": ["week", "weeks"], "month": ["month", "months"], "year": ["year", "years"]}
TR_DUR = {"second": ["saniye"], "minute": ["dakika"], "hour": ["saat"], "day": ["gün", "gun"], "week": ["hafta"],
          "month": ["ay"], "year": ["yıl", "yil"]}
ORDER = ["year", "month", "week", "day", "hour", "minute", "second"]
NUM_CFGS = [(0, True, True), (0, False, True), (1, False, True), (3, True, True), (3, False, True), (5, True, True),
            (9, False, True), (2, True, False), (2, False, False), (4, False, False)]


def mk(pre, text, lang, kind, **meta):
    c = exec_case(text, lang, pre=pre, kind=kind, **meta)
    c["meta"]["lang"] = lang
    c["meta"]["line"] = text
    return c


def first_lines(rng, tier):
    quick = tier == "quick"
    cs = []
    seps = SEPARATORS
    # ---- numbers and percentages
    for (d, t) in seps:
        pre = sep_ops(d, t)
        for lang in ("en", "tr"):
            nums = NUMBERS if (lang == "en" or not quick) else rng.sample(NUMBERS, 8)
            if quick and (d, t) not in SEPARATORS[:2]:
                nums = rng.sample(nums, min(len(nums), 9)) + ["1234567.891"]
            for v in nums:
                cs.append(mk(pre, lit(v, d), lang, "number", dsep=d, tsep=t, v=v))
            for v in (NEGZERO if not quick else rng.sample(NEGZERO, 1)):
                cs.append(mk(pre, lit(v, d), lang, "number", dsep=d, tsep=t, v=v, negzero=1))
            pcs = PERCENTS if not quick else rng.sample(PERCENTS, 4)
            for v in pcs:
                cs.append(mk(pre, lit(v, d), lang, "percent", dsep=d, tsep=t, v=v))
            if not quick or rng.random() < 0.3:
                cs.append(mk(pre, lit(NEGZERO_PCT[0], d), lang, "percent", dsep=d, tsep=t, v=NEGZERO_PCT[0], negzero=1))
    # digit / flag settings of numbers and percentages
    for (n, rm, rnd) in NUM_CFGS:
        for (d, t) in (SEPARATORS[:2] if quick else SEPARATORS[:4]):
            pre = sep_ops(d, t) + [{"op": "set_num_cfg", "d": n, "rm": rm, "round": rnd},
                                   {"op": "set_pct_cfg", "d": n, "rm": rm, "round": rnd}]
            vals = ["1234.5", "1/3", "0.1 + 0.2", "1234567.891", "-2/3", "5", "0.000001", "123456.789 * 1000",
                    "999.999", "999.9996", "-999.997", "999999.9999", "99.9999", "9.99999"]
            for v in (vals if not quick else rng.sample(vals, 3) + ["999.999"]):
                cs.append(mk(pre, lit(v, d), rng.choice(["en", "tr"]), "number", dsep=d, tsep=t, v=v, cfg=[n, rm, rnd]))
            for v in (["12.345%", "-0.5%", "1234.5678%"] if not quick else ["12.345%"]):
                cs.append(mk(pre, lit(v, d), rng.choice(["en", "tr"]), "percent", dsep=d, tsep=t, v=v, cfg=[n, rm, rnd]))
    # ---- money by code: every currency
    for code in sorted(CUR):
        for lang in ("en", "tr"):
            if quick and lang == "tr" and code not in ("usd", "eur", "try", "dkk", "sek", "bgn", "gbp", "jpy", "chf"):
                continue
            amts = ["1234.5"] + ([] if quick or lang == "tr" else [rng.choice(["-10", "0.5", "1234567.891"])])
            for a in amts:
                cs.append(mk([], "%s %s" % (lit(a, ","), code), lang, "money", dsep=",", tsep=".", cur=code, by="code", v=a))
    # money by alias / symbol, all separator pairs, money flags
    forms = []
    for a, code in sorted(ALIAS.items()):
        forms.append(("%s " + a, code, a))
        if len(a) == 1:
            forms.append((a + "%s", code, a))
    for (d, t) in seps:
        for rmc in ([None, (True, True), (False, False), (True, False)] if not quick else [None, (True, True)]):
            pre = sep_ops(d, t) + ([] if rmc is None else [{"op": "set_money_cfg", "rm": rmc[0], "round": rmc[1]}])
            fs = forms if not quick else rng.sample(forms, 6 if (d, t) in SEPARATORS[:4] else 2)
            for (f, code, a) in fs:
                for v in ([rng.choice(AMOUNTS)] if quick else rng.sample(AMOUNTS, 2)):
                    cs.append(mk(pre, f % lit(v, d), rng.choice(["en", "tr"]), "money", dsep=d, tsep=t, cur=code, by="alias",
                                 alias=a, v=v, mcfg=rmc))
    # ---- durations
    for lang, table in (("en", EN_DUR), ("tr", TR_DUR)):
        for u in ORDER:
            for w in table[u]:
                for c in ([0, 1, 2, 45] if not quick else [1, 2]):
                    cs.append(mk([], "%d %s" % (c, w), lang, "duration", parts=1, v="%d %s" % (c, u)))
        for m in range(2, 8):
            for rep in range(2 if quick else 8):
                units = sorted(rng.sample(ORDER, m), key=ORDER.index)
                bound = {"year": 30, "month": 11, "week": 4, "day": 6, "hour": 23, "minute": 59, "second": 59}
                words = ["%d %s" % (1 if rng.random() < 0.3 else rng.randint(1, bound[u]), rng.choice(table[u])) for u in units]
                cs.append(mk([], " ".join(words), lang, "duration", parts=m, v=" ".join(words)))
        w = table["day"][-1]
        for text in ["1 %s - 3 %s" % (w, w), "100 %s" % w, "1000000 %s" % table["second"][-1], "400 %s + 5 %s" % (w, table["hour"][-1])]:
            cs.append(mk([], text, lang, "duration", parts=0, v=text))
        cs.append(mk([], "1 %s - 1 %s" % (w, w), lang, "duration", parts=0, v="zero", zero=1))
        # the greedy printer can emit 12 months (a remainder of 360..364 days after the years)
        for n in ([364, 729] if quick else [360, 361, 364, 729, 1094, 359, 365]):
            cs.append(mk([], "%d %s" % (n, w), lang, "duration", parts=0, v="%d day" % n))
        cs.append(mk([], "1094 %s 23 %s" % (w, table["hour"][-1]), lang, "duration", parts=0, v="1094 day 23 hour"))
    for (d, t) in seps[1:]:
        cs.append(mk(sep_ops(d, t), "1234567 seconds", "en", "duration", parts=0, dsep=d, tsep=t, v="1234567 seconds"))
    # ---- times
    zones = sorted(ZONES)
    for z in (zones if not quick else rng.sample(zones, 40) + ["UTC", "EST", "TMT", "WST"]):
        cs.append(mk([], "%d:%02d %s" % (rng.randint(0, 23), rng.randint(0, 59), z), "en", "time", zone=z, v="zone"))
    for text in ["12:30", "0:00", "23:59:59", "11:30 pm", "12:00 am", "7:05:09", "12:30 GMT+3", "12:30 GMT-5", "9:15 GMT+05:30",
                 "12:30 GMT+0", "10:00 EST + 90 minutes"]:
        cs.append(mk([], text, "en", "time", zone=None, v=text))
    for tzset in ["EST", "GMT+3", "IST", "GMT-03:30"]:
        pre = [{"op": "set_tz", "v": tzset}]
        for text in ["12:30", "23:59:59", "1:05 am"]:
            cs.append(mk(pre, text, "en", "time", zone=tzset, settz=tzset, v=text))
        cs.append(mk(pre, "12:30", "tr", "time", zone=tzset, settz=tzset, v="12:30"))
    for text in ["12:30", "23:59:59", "7:05"]:
        cs.append(mk([], text, "tr", "time", zone=None, v=text))
    # ---- dates
    year = None
    for lang in ("en", "tr"):
        L = LANGS[lang]
        longs = sorted(L["long_months"].items(), key=lambda kv: kv[1])
        shorts = sorted(L["short_months"].items(), key=lambda kv: kv[1])
        for (w, m) in longs + shorts:
            # ASCII spellings of Turkish months are a C19 matter (overwritten table entries): use what lexes
            day = rng.randint(1, 28)
            cs.append(mk([], "%d %s" % (day, w), lang, "date", month=m, word=w, yr="current", v="%d/%d" % (day, m)))
            y = rng.choice([1999, 2020, 2021, 2035])
            cs.append(mk([], "%d %s %d" % (day, w, y), lang, "date", month=m, word=w, yr="other", v="%d/%d/%d" % (day, m, y)))
    for text in ["today", "tomorrow", "yesterday", "5 feb 2020 + 3 weeks", "1/2/2021", "31.12.1999"]:
        cs.append(mk([], text, "en", "date", v=text, yr="?"))
    for text in ["bugün", "yarın", "dün", "5 şubat 2020 + 3 hafta"]:
        cs.append(mk([], text, "tr", "date", v=text, yr="?"))
    for tzset in ["EST", "GMT+3"]:
        for lang, text in (("en", "5 feb 2020"), ("en", "17 august"), ("tr", "5 şubat 2020"), ("tr", "17 ağustos")):
            cs.append(mk([{"op": "set_tz", "v": tzset}], text, lang, "date", settz=tzset, v=text, yr="?"))
    # ---- unix timestamps (numbers of the Raw type: printed without grouping)
    for text in ["5 feb 2020 to unix", "12:30 to unixtime", "5 feb 1970 unix", "1 jan 1970 to unix", "2 jan 1970 to unix"]:
        cs.append(mk([], text, "en", "number", v=text, dsep=",", tsep=".", raw=1))
    cs.append(mk(sep_ops(".", ""), "5 feb 2020 to unix", "en", "number", v="5 feb 2020 to unix", dsep=".", tsep="", raw=1))
    # ---- date-times
    for text in ["1600000000 to date", "0 to date", "1700000000 date", "1600000000 to EST", "5 feb 2020 at 12:30", "17 august at 9:05",
                 "5 feb 2020 at 12:30 to EST"]:
        cs.append(mk([], text, "en", "datetime", v=text))
    cs.append(mk([{"op": "set_tz", "v": "GMT+3"}], "1600000000 to date", "en", "datetime", settz="GMT+3", v="1600000000 to date"))
    # ---- unit quantities: every unit x every name
    for (g, i, fmt, names) in UNITS:
        for nm in names:
            for lang in ("en", "tr"):
                for (d, t) in (rng.sample(SEPARATORS[:4], 2) if not quick else [rng.choice(SEPARATORS[:4])]):
                    for v in (rng.sample(["1", "1234.5", "-3", "0.25", "1234567.891"], 2) if not quick else
                              [rng.choice(["1", "1234.5", "-3", "0.25"])]):
                        cs.append(mk(sep_ops(d, t), "%s %s" % (lit(v, d), nm), lang, "unit", dsep=d, tsep=t, unit=[g, i], name=nm, v=v))
        for (d, t) in SEPARATORS[4:]:
            if not quick or rng.random() < 0.2:
                cs.append(mk(sep_ops(d, t), "%s %s" % (lit("1234.5", d), names[0]), "en", "unit", dsep=d, tsep=t, unit=[g, i],
                             name=names[0], v="1234.5"))
    for text in ["1 km to m", "1 inch to mm", "5 mb to kb", "1 pound to gram", "3 km + 500 m"]:
        cs.append(mk([], text, "en", "unit", v=text, dsep=",", tsep=".", unit=None))
    # ---- based integers
    based = ["255 to hex", "8 to octal", "5 to binary", "0xFF", "0o17", "0b101", "0 to hex", "4096 to hex", "1000000 to hex",
             "4611686018427387904 to hex", "65535 to binary", "511 to octal", "0xff + 1", "0b11 * 0b10", "2.5 to hex",
             "0x7FFFFFFFFFFFFFFF", "123456789 to octal", "0xDEADBEEF", "0xFACE", "0X1F", "16 hex"]
    for text in based:
        cs.append(mk([], text, "en", "based", v=text))
    for text in ["0xFF", "0o17", "0b101", "0xBEEF"]:
        cs.append(mk([], text, "tr", "based", v=text))
    # hex digits that contain digit + currency code (C13-K1 mechanism)
    for text in ["205 to hex", "175 to hex", "6893 to hex", "0x2CAD5"]:
        cs.append(mk([], text, "en", "based", v=text, hexcur=1))
    for (d, t) in seps[1:4]:
        cs.append(mk(sep_ops(d, t), "255 to hex", "en", "based", dsep=d, tsep=t, v="255 to hex"))
    return cs


def generate(rng, tier):
    import corr
    firsts = first_lines(rng, tier)
    seen, uniq = set(), []
    for c in firsts:
        k = json.dumps(c["ops"], sort_keys=True, ensure_ascii=False)
        if k not in seen:
            seen.add(k)
            uniq.append(c)
    ok, msg = corr.build_harness()
    if not ok:
        raise RuntimeError("harness does not build: " + msg[-500:])
    p1 = [{"id": i, "detail": 0, "ops": c["ops"]} for i, c in enumerate(uniq)]
    header, recs = corr.run_harness_stable(p1)
    cases = []
    for i, c in enumerate(uniq):
        lines = last_lines(recs.get(i))
        if not lines or len(lines) != 1 or lines[0] is None or "out" not in lines[0]:
            continue                       # the first line is not a value: nothing was printed
        out = lines[0]["out"]
        if "\n" in out or "\r" in out:
            continue
        k, v = line_value(lines[0])
        c2 = {"ops": c["ops"] + [{"op": "exec", "lang": c["meta"]["lang"], "text": out}], "meta": dict(c["meta"])}
        c2["meta"]["first_out"] = out
        c2["meta"]["first_type"] = v["t"] if k == "item" else k
        cases.append(c2)
    return cases


# ---------------------------------------------------------------- oracle
def two_obs(rec):
    if rec is None or rec.get("hang") or rec.get("crash"):
        return None
    obs = rec["obs"]
    if len(obs) < 2:
        return None
    return obs[-2], obs[-1]


def first_out(rec):
    t = two_obs(rec)
    if t is None or "panic" in t[0]:
        return None
    lines = t[0].get("lines")
    if not lines or len(lines) != 1 or lines[0] is None or "out" not in lines[0]:
        return None
    return lines[0]["out"]


def nontrivial(c, rec):
    o = first_out(rec)
    return bool(o) and o == c["ops"][-1]["text"]


def spec_check(c, rec, header):
    t = two_obs(rec)
    if t is None:
        return "evaluation panicked or hung"
    o = first_out(rec)
    if o is None or o != c["ops"][-1]["text"]:
        return None                        # stale (clock-dependent line): not the printed form of this run
    if o == "":
        return "the printed form is empty: it cannot be entered as a line"
    second = t[1]
    if "panic" in second:
        return "re-entering %r panicked" % o
    lines = second.get("lines")
    if not lines or len(lines) != 1:
        return "re-entering %r gave %r" % (o, lines)
    l = lines[0]
    if l is None:
        return "re-entering %r gave no result" % o
    if "err" in l:
        return "re-entering %r failed: %s" % (o, l["err"])
    if l["out"] != o:
        return "re-entering %r printed %r" % (o, l["out"])
    return None


# ---------------------------------------------------------------- known classes (known_findings.json, property C15)
# Every predicate is a function of the FIRST observation of the record (the value printed and its type), the case meta
# (language, separators) and config.json data; a failure outside these predicates stays a VIOLATION.
import unicodedata

YEAR_S, MONTH_S = 365 * 86400, 30 * 86400


def reader_name(cur):
    """the currency name the money regexes of config.json parse.money capture from what money_print writes for `cur`:
    symbol on the left: `\\p{Sc}` directly in front of the amount (regex 0), nothing else is looked for in front of
    an amount; symbol on the right: `[ ]*[a-zA-Z]{2,}` (regex 1) or `[ ]*\\p{Sc}` (regex 2) behind it"""
    c = CUR[cur]
    sym = c["symbol"]
    if c["symbolOnLeft"]:
        if not c["spaceBetweenAmountAndSymbol"] and sym and unicodedata.category(sym[-1]) == "Sc":
            return sym[-1]
        return None
    m = re.match(r"[a-zA-Z]{2,}", sym)
    if m:
        return m.group(0)
    if sym and unicodedata.category(sym[0]) == "Sc":
        return sym[0]
    return None


def reads_as(cur):
    """the currency read_currency (tokinizer/tools.rs:33-38: alias table first, then the code table) gives for the
    printed symbol of `cur`; None when it is no reader name"""
    n = reader_name(cur)
    if n is None:
        return None
    n = n.lower()
    return ALIAS.get(n) or (n if n in CUR else None)


REREADABLE = sorted(c for c in CUR if reads_as(c) == c)          # dkk eur mvr tjs try usd
# pinned (not recomputed from config.json): a currency alias / symbol edited in the data must not move one of these
# into a known class
PINNED_REREADABLE = {"dkk", "eur", "mvr", "tjs", "try", "usd"}


def hex_collides(text):
    """C13-K1 mechanism: a digit followed by letters that spell a currency code or alias, inside a hex literal"""
    names = set(CUR) | {k.lower() for k in ALIAS}
    return any(m.group(1).lower() in names for m in re.finditer(r"[0-9]([a-zA-Z]{2,})", text))


def first_item(rec):
    t = two_obs(rec)
    if t is None or "panic" in t[0]:
        return None
    lines = t[0].get("lines")
    if not lines or len(lines) != 1 or lines[0] is None or "out" not in lines[0]:
        return None
    k, v = line_value(lines[0])
    return v if k == "item" else None


def second_out(rec):
    t = two_obs(rec)
    if t is None or "panic" in t[1]:
        return None
    lines = t[1].get("lines")
    if not lines or len(lines) != 1 or lines[0] is None:
        return None
    return lines[0].get("out")


def class_of(c, rec):
    m = c["meta"]
    o = first_out(rec)
    it = first_item(rec)
    if o is None or it is None:
        return None
    ty = it["t"]
    dsep, tsep = m.get("dsep", ","), m.get("tsep", ".")
    numeric = ty in ("Number", "Percent", "Money", "DynamicType") and it.get("nt", "Decimal") == "Decimal"
    # a zero duration prints the empty string
    if ty == "Duration" and it["secs"] == 0 and o == "":
        return "C15-zero-duration-prints-nothing"
    # a configured separator the literal regexes ([0-9.,]) do not admit occurs in the printed number
    if numeric and any(sp and sp not in LEXABLE and sp in o for sp in (dsep, tsep)):
        return "C15-separator-not-lexed"
    # '-' in front of digits that are all zero: the value behind the re-entered text is -0.0, which prints unsigned
    if numeric and "-" in o and re.search(r"[0-9]", o) and not re.search(r"[1-9]", o) \
            and second_out(rec) == o.replace("-", "", 1):
        return "C15-negative-zero"
    if ty == "Money":
        cur = it["cur"].lower()
        if cur in PINNED_REREADABLE:
            return None            # these six re-read as themselves on the unchanged tree: a failure is a violation
        r = reads_as(cur) if cur in CUR else cur
        if r is None:
            return "C15-money-symbol-not-a-reader-name"
        if r != cur:
            return "C15-money-symbol-names-other-currency"
    if ty == "Duration" and abs(it["secs"]) % YEAR_S >= 12 * MONTH_S:
        return "C15-twelve-months"
    # (a printed time re-reads under tr as under en since /repo 9da74e2 - formerly class C15-tr-time-zone-not-joined)
    if ty == "DateTime":
        return "C15-datetime-print-unreadable"
    if ty == "Number" and it.get("nt") == "Raw" and tsep != "" and len(re.sub(r"[^0-9]", "", o)) >= 4:
        return "C15-raw-timestamp-regrouped"
    if ty == "Number" and it.get("nt") == "Hexadecimal" and hex_collides(o):
        return "C15-hex-currency"
    return None


def known_class(c, rec, verdict, known):
    cls = class_of(c, rec)
    if cls is None:
        return None
    return cls if any(f["class"] == cls for f in known) else None


def witness_fails(f, wc, rec, header):
    """the witness is a history whose LAST op enters a printed form (the ops before it print it): it fails when the
    last evaluation does not print its own text again"""
    if rec is None or rec.get("hang") or rec.get("crash"):
        return True
    text = wc["ops"][-1]["text"]
    obs = rec["obs"][-1]
    if first_out(rec) != text:
        return False                      # the earlier ops no longer print this text: the entry is stale, not failing
    if "panic" in obs:
        return True
    lines = obs.get("lines")
    if text == "":
        return True                       # an empty printed form is no line
    if not lines or len(lines) != 1 or lines[0] is None or "err" in lines[0]:
        return True
    return lines[0]["out"] != text
