"""C11 - clock times and zones: conversion keeps the instant, arithmetic is modulo 24 h.

The oracle is plain integer arithmetic modulo 86400 on wall-clock seconds plus the zone table read
from /repo/src/json/config.json; it knows nothing of the model."""
import json, re
from .common import *

ALLOWED_AXIOMS = []
DETAIL = 0
RULE = ("times H:MM, HH:MM, H:MM:SS (0-23 h) and 1-11 am/pm (H:MM am, H:MM:SS pm, H pm, Hpm, upper/lower case; 12:xx am/pm left out "
        "as in the statement); alone, followed by a zone, `T [ZONE_A] to ZONE_B` over zone names of config.json that match "
        "[A-Z]{2,4} and are not currency codes and over GMT+/-h[:mm] (h <= 19) forms; the default zone set through "
        "set_timezone (table names and GMT forms) and read back; `T +/- duration` (hours, minutes, seconds, days, mixed, "
        "up to 10^6 s) with wrap across midnight both ways; `T1 to T2`; quick: ~400 random cases + a fixed set of corner "
        "times, thorough: every ordered zone pair; non-trivial = evaluates to a time (or a duration for `T1 to T2`); "
        "distinct = distinct history")
ASSUMPTIONS = ["zone table and offsets are read from /repo/src/json/config.json by the oracle",
               "the instant is compared exactly for literals and conversions and modulo 24 h for arithmetic (the statement "
               "fixes the clock, not the day)",
               "TZ=UTC (chrono::Local is the identity)"]

CONFIG = json.load(open("/repo/src/json/config.json", encoding="utf-8"))
TABLE = dict(CONFIG["timezones"])
CURRENCY_CODES = {k.upper() for k in CONFIG["currencies"]} | {v["code"].upper() for v in CONFIG["currencies"].values()}
# zone names the zone syntax (?P<timezone_1>[A-Z]{2,4}) can express and that are not also currency codes (TMT, WST)
ZONES = sorted(z for z in TABLE if re.fullmatch(r"[A-Z]{2,4}", z) and z not in CURRENCY_CODES)
TR_MONTH_WORDS = set()
try:
    _c = json.load(open("/repo/src/json/config.json", encoding="utf-8"))["languages"]["tr"]
    TR_MONTH_WORDS = {w.lower() for w in list(_c.get("long_months", {})) + list(_c.get("short_months", {}))}
except Exception:
    pass
KNOWN_BOTH_ZONED = "C11-both-operands-zoned-on-one-line"
UNITS = {"second": 1, "seconds": 1, "minute": 60, "minutes": 60, "hour": 3600, "hours": 3600, "day": 86400, "days": 86400,
         "week": 604800, "weeks": 604800}
# a unit word that is also a zone name once upper-cased would be read as a zone (none today)
UNIT_WORDS = [u for u in UNITS if u.upper() not in TABLE]


def hms(w):
    return "%02d:%02d:%02d" % (w // 3600, (w // 60) % 60, w % 60)


def gmt_form(rng, h=None, m=None, sign=None):
    """(text, offset minutes) of a GMT form"""
    h = rng.randint(0, 19) if h is None else h
    sign = rng.choice(["+", "-", ""]) if sign is None else sign
    if m is None:
        m = rng.choice([None, None, 0, 30, 45, rng.randint(0, 59)])
    hs = ("%02d" % h) if (h >= 10 or rng.random() < 0.3) else "%d" % h
    text = "GMT" + sign + hs + ("" if m is None else ":%02d" % m)
    off = (60 * h + (m or 0)) * (-1 if sign == "-" else 1)
    return text, off


def zone(rng):
    """(text, display name, offset minutes); the zone parser reads the upper-cased line, so a zone may
    be written in lower case inside an expression (not in set_timezone) - one in ten is"""
    low = rng.random() < 0.1
    if rng.random() < 0.7:
        z = rng.choice(ZONES)
        return (z.lower() if low else z), z, TABLE[z]
    t, o = gmt_form(rng)
    return (t.lower() if low else t), t, o


# EXCLUDED from the generator:
#   * `12:xx am/pm` (12:30 am -> 12:30): left out by the statement itself.
#   * zone names that are also currency codes (`10:30 TMT` is 10 and `30 TMT` money) and names the syntax cannot
#     express (ChST, ANAST, ...): left out by the statement.
#   * `T1 ZONE to T2 ZONE` ("No more token"): the statement's `T1 to T2` has no zones.
# `H:MM:SS am/pm` IS generated: it was a defect (`1:20:30 pm` read as 01:20:30, the regexes with seconds had no
# meridiem group), repaired in /repo 6e1968b.
CORNER_W = [0, 1, 59, 60, 3599, 3600, 43199, 43200, 43201, 86399, 86340, 82800, 1800, 37800]


def time_text(rng, w=None, allow_ampm=True):
    """(text, wall seconds)"""
    if w is None:
        w = rng.choice(CORNER_W) if rng.random() < 0.25 else rng.randrange(86400)
    h, m, sec = w // 3600, (w // 60) % 60, w % 60
    forms = []
    h12 = h % 12
    if sec != 0:
        forms = ["%d:%02d:%02d" % (h, m, sec), "%02d:%02d:%02d" % (h, m, sec)]
        if allow_ampm and 1 <= h12 <= 11:
            mer = "am" if h < 12 else "pm"
            mer = rng.choice([mer, mer.upper(), mer.capitalize()])
            forms += ["%d:%02d:%02d %s" % (h12, m, sec, mer), "%d:%02d:%02d%s" % (h12, m, sec, mer),
                      "%02d:%02d:%02d %s" % (h12, m, sec, mer)]
    else:
        forms = ["%d:%02d" % (h, m), "%02d:%02d" % (h, m), "%d:%02d:00" % (h, m)]
        if allow_ampm and 1 <= h12 <= 11:
            mer = "am" if h < 12 else "pm"
            mer = rng.choice([mer, mer.upper(), mer.capitalize()])
            forms += ["%d:%02d:00 %s" % (h12, m, mer), "%d:%02d %s" % (h12, m, mer), "%d:%02d%s" % (h12, m, mer), "%02d:%02d %s" % (h12, m, mer)]
            if m == 0:
                forms += ["%d %s" % (h12, mer), "%d%s" % (h12, mer)]
    return rng.choice(forms), w


def dur_text(rng):
    """(text, seconds)"""
    k = rng.random()
    if k < 0.1:
        # magnitudes around 2^31 and 2^32 seconds (68 and 136 years): the clock moves by the amount modulo 24 h whatever its size
        u, n = rng.choice([("seconds", 2 ** 31 - 1), ("seconds", 2 ** 31), ("seconds", 2 ** 32 - 1), ("seconds", 2 ** 32),
                           ("seconds", 2 ** 32 + 1), ("seconds", 5000000000), ("seconds", 2 ** 33 + 12345),
                           ("hours", 1193046), ("hours", 1200000), ("weeks", 7101), ("weeks", 10000), ("days", 49711),
                           ("days", 50000), ("years", 68), ("years", 69), ("years", 136), ("years", 137), ("years", 140),
                           ("years", 1000), ("minutes", 71582789)])
        per = 365 * 86400 if u == "years" else UNITS[u]
        return "%d %s" % (n, u), n * per
    if k < 0.3:
        n = rng.choice([0, 1, 2, 12, 23, 24, 25, 47, 48, 49, rng.randint(0, 277)])
        return "%d %s" % (n, "hour" if n == 1 else "hours"), n * 3600
    if k < 0.5:
        n = rng.choice([1, 59, 60, 61, 1439, 1440, 1441, rng.randint(0, 16666)])
        return "%d %s" % (n, "minute" if n == 1 else "minutes"), n * 60
    if k < 0.65:
        n = rng.choice([1, 59, 60, 3599, 3600, 86399, 86400, 86401, rng.randint(0, 10 ** 6)])
        return "%d %s" % (n, "second" if n == 1 else "seconds"), n
    if k < 0.75:
        n = rng.randint(0, 11)
        return "%d %s" % (n, "day" if n == 1 else "days"), n * 86400
    parts, total = [], 0
    for u, hi in (("days", 3), ("hours", 30), ("minutes", 90), ("seconds", 90)):
        if rng.random() < 0.6:
            n = rng.randint(0, hi)
            parts.append("%d %s" % (n, u))
            total += n * UNITS[u]
    if not parts:
        return "90 minutes", 5400
    return " ".join(parts), total


DUR_ORDER = [("year", 365 * 86400), ("month", 30 * 86400), ("week", 7 * 86400), ("day", 86400), ("hour", 3600), ("minute", 60),
             ("second", 1)]


def render_duration(d):
    out = []
    for u, l in DUR_ORDER:
        c, d = d // l, d % l
        if c:
            out.append("1 %s" % u if c == 1 else "%d %ss" % (c, u))
    return " ".join(out)


def mk(text, pre, default, kind, lang="en", **meta):
    c = exec_case(text, lang, pre=pre, kind=kind, **meta)
    c["meta"]["default"] = default
    return c


def default_zone(rng, p=0.35):
    """(pre ops, (name, offset)) - the configured default zone of the case"""
    if rng.random() >= p:
        return [], ("UTC", 0)
    _, n, o = zone(rng)
    return [{"op": "set_tz", "v": n}, {"op": "get_tz"}], (n, o)


def conv_case(rng, a, b, w=None, explicit_default=None):
    """`T ZONE_A to ZONE_B`; a may be None (source = default zone)"""
    pre, dflt = default_zone(rng) if explicit_default is None else explicit_default
    tt, w = time_text(rng, w)
    word = rng.choice(["to", "to", "in", "as", "into"])
    if a is None:
        text = "%s %s %s" % (tt, word, b[0])
        src = dflt[1]
    else:
        text = "%s %s %s %s" % (tt, a[0], word, b[0])
        src = a[2]
    return mk(text, pre, dflt, "convert" if a else "convert-default", w=w, src=src, zone=[b[1], b[2]],
              shown=(w - 60 * src + 60 * b[2]) % 86400, rel=w - 60 * src)


def generate(rng, tier):
    cases = []
    quick = tier == "quick"
    # --- literals, alone and with a zone, under default zones
    for _ in range(60 if quick else 600):
        pre, dflt = default_zone(rng)
        tt, w = time_text(rng)
        cases.append(mk(tt, pre, dflt, "literal", w=w, zone=list(dflt), shown=w, rel=w - 60 * dflt[1]))
    for _ in range(60 if quick else 600):
        pre, dflt = default_zone(rng)
        tt, w = time_text(rng)
        zt, zn, zo = zone(rng)
        # a time with a zone needs no language word: one case in five is evaluated under language tr
        lang = "tr" if rng.random() < 0.2 else "en"
        if zt.lower() in TR_MONTH_WORDS:
            lang = "en"                   # MART is Marquesas Time and, under tr, the month March: the month parser runs first
        cases.append(mk("%s %s" % (tt, zt), pre, dflt, "literal-zone" + ("-tr" if lang == "tr" else ""), lang=lang,
                        w=w, zone=[zn, zo], shown=w, rel=w - 60 * zo))
    # --- every table zone once as a literal zone and once as the default (finite table)
    for z in (rng.sample(ZONES, 25) if quick else ZONES):
        tt, w = time_text(rng)
        cases.append(mk("%s %s" % (tt, z), [], ("UTC", 0), "table-zone", w=w, zone=[z, TABLE[z]], shown=w, rel=w - 60 * TABLE[z]))
        tt, w = time_text(rng)
        cases.append(mk(tt, [{"op": "set_tz", "v": z}, {"op": "get_tz"}], (z, TABLE[z]), "table-default", w=w,
                        zone=[z, TABLE[z]], shown=w, rel=w - 60 * TABLE[z]))
    # --- GMT forms: every hour, both signs (thorough: every hour x minute sample)
    for h in (rng.sample(range(20), 6) if quick else range(20)):
        for sign in ("+", "-", ""):
            for m in ((None, 30) if quick else (None, 0, 15, 30, 45, 59)):
                t, o = gmt_form(rng, h, m, sign)
                tt, w = time_text(rng)
                cases.append(mk("%s %s" % (tt, t), [], ("UTC", 0), "gmt-zone", w=w, zone=[t, o], shown=w, rel=w - 60 * o))
                if not quick or rng.random() < 0.4:
                    cases.append(conv_case(rng, None, (t, t, o), explicit_default=([], ("UTC", 0))))
    # --- conversions
    if quick:
        for _ in range(110):
            a, b = zone(rng), zone(rng)
            cases.append(conv_case(rng, a, b))
        for _ in range(40):
            cases.append(conv_case(rng, None, zone(rng)))
    else:
        for za in ZONES:
            for zb in ZONES:
                cases.append(conv_case(rng, (za, za, TABLE[za]), (zb, zb, TABLE[zb]), explicit_default=([], ("UTC", 0))))
        for _ in range(1500):
            cases.append(conv_case(rng, zone(rng), zone(rng)))
        for _ in range(400):
            cases.append(conv_case(rng, None, zone(rng)))
    # --- arithmetic
    for _ in range(90 if quick else 1500):
        pre, dflt = default_zone(rng, 0.25)
        tt, w = time_text(rng)
        dt, d = dur_text(rng)
        op = rng.choice("+-")
        z = None
        if rng.random() < 0.3:
            z = zone(rng)
        text = "%s%s %s %s" % (tt, (" " + z[0]) if z else "", op, dt)
        zn, zo = (z[1], z[2]) if z else dflt
        sh = (w + d) % 86400 if op == "+" else (w - d) % 86400
        cases.append(mk(text, pre, dflt, "arith" + op, w=w, d=d, zone=[zn, zo], shown=sh, relmod=(sh - 60 * zo) % 86400))
    # wrap across midnight, both directions, fixed
    for tt, w, op, dt, d in [("23:30", 84600, "+", "45 minutes", 2700), ("0:15", 900, "-", "30 minutes", 1800),
                             ("23:59:59", 86399, "+", "1 second", 1), ("0:00", 0, "-", "1 second", 1),
                             ("12:00", 43200, "+", "24 hours", 86400), ("12:00", 43200, "-", "36 hours", 129600),
                             ("11:30 pm", 84600, "+", "1 hour", 3600), ("1 am", 3600, "-", "2 hours", 7200),
                             ("11:59:59 PM", 86399, "+", "1 second", 1), ("1:20:30 pm", 48030, "-", "14 hours", 50400)]:
        sh = (w + d) % 86400 if op == "+" else (w - d) % 86400
        cases.append(mk("%s %s %s" % (tt, op, dt), [], ("UTC", 0), "arith" + op, w=w, d=d, zone=["UTC", 0], shown=sh, relmod=sh))
    # under language tr, with the Turkish duration words
    for tt, w, zt, zo, op, dt, d in [("11:30", 41400, "EST", -300, "+", "2 saat", 7200), ("23:30", 84600, "GMT+3", 180, "+", "45 dakika", 2700),
                                     ("0:15", 900, "CET", 60, "-", "30 dakika", 1800), ("12:00:30", 43230, "UTC", 0, "+", "90 saniye", 90),
                                     ("8:00", 28800, "PST", -480, "-", "1 gün 2 saat", 93600)]:
        if zt not in TABLE and not zt.startswith("GMT"):
            continue
        sh = (w + d) % 86400 if op == "+" else (w - d) % 86400
        cases.append(mk("%s %s %s %s" % (tt, zt, op, dt), [], ("UTC", 0), "arith" + op + "-tr", lang="tr", w=w, d=d,
                        zone=[zt, zo], shown=sh, relmod=(sh - 60 * zo) % 86400))
    # --- T1 to T2
    for _ in range(40 if quick else 600):
        pre, dflt = default_zone(rng, 0.25)
        t1, w1 = time_text(rng)
        t2, w2 = time_text(rng)
        cases.append(mk("%s to %s" % (t1, t2), pre, dflt, "diff", w=w1, w2=w2, diff=abs(w1 - w2)))
    # --- T1 to T2 with a zone on one or both operands (written on the line or carried by a variable): the difference of
    #     the two INSTANTS, each operand read in its own zone (or the default zone)
    for _ in range(40 if quick else 500):
        pre, dflt = default_zone(rng, 0.25)
        t1, w1 = time_text(rng)
        t2, w2 = time_text(rng)
        z1 = zone(rng) if rng.random() < 0.7 else None
        z2 = zone(rng) if (z1 is None or rng.random() < 0.6) else None
        o1 = z1[2] if z1 else dflt[1]
        o2 = z2[2] if z2 else dflt[1]
        a = "%s%s" % (t1, (" " + z1[0]) if z1 else "")
        b = "%s%s" % (t2, (" " + z2[0]) if z2 else "")
        diff = abs((w1 - 60 * o1) - (w2 - 60 * o2))
        if rng.random() < 0.3:
            text = "a = %s\nb = %s\na to b" % (a, b)
        else:
            text = "%s to %s" % (a, b)
        # KNOWN FINDING C11-K1: both operands carry a zone ON THE LINE (see known_class)
        cls = [KNOWN_BOTH_ZONED] if (z1 and z2 and "\n" not in text) else []
        cases.append(mk(text, pre, dflt, "diff-zones", w=w1, w2=w2, diff=diff, classes=cls))
    for text, diff in (("15:00 to 22:00 CET", 6 * 3600), ("15:00 EST to 22:00", 2 * 3600), ("a = 15:00 EST\nb = 22:00 CET\na to b", 3600),
                       ("a = 10:00 GMT+3\nb = 10:00 GMT-3\na to b", 6 * 3600), ("a = 23:00 EST\nb = 1:00 EST\na to b", 22 * 3600),
                       ("a = 10:00 EST\na to 12:00 CET", 4 * 3600)):
        cases.append(mk(text, [], ("UTC", 0), "diff-zones", diff=diff, classes=[]))
    cases.append(mk("10:00 EST to 12:00 CET", [], ("UTC", 0), "diff-zones", diff=4 * 3600, classes=[KNOWN_BOTH_ZONED]))
    return cases


def the_time(rec):
    """the value of the LAST line (earlier lines bind variables)"""
    lines = last_lines(rec)
    if not lines or lines[-1] is None:
        return None, lines
    k, v = line_value(lines[-1])
    if k != "item":
        return None, lines
    return v, lines[-1:]


def nontrivial(c, rec):
    v, _ = the_time(rec)
    return bool(v) and v["t"] in ("Time", "Duration")


def check_pre(c, rec):
    """set_tz must succeed and get_tz must return what was set"""
    if rec is None or rec.get("hang") or rec.get("crash"):
        return "evaluation panicked or hung"
    ops, obs = c["ops"], rec["obs"]
    n, o = c["meta"]["default"]
    for i, op in enumerate(ops):
        if op["op"] == "set_tz":
            if obs[i].get("ret") is not True:
                return "set_timezone(%r) failed: %r" % (op["v"], obs[i])
            if obs[i].get("tzn") != n or obs[i].get("tzo") != o:
                return "set_timezone(%r) set (%r, %r), expected (%r, %d)" % (op["v"], obs[i].get("tzn"), obs[i].get("tzo"), n, o)
        if op["op"] == "get_tz":
            if obs[i].get("tzn") != n or obs[i].get("tzo") != o:
                return "get_time_offset after set_timezone returned (%r, %r), expected (%r, %d)" % (
                    obs[i].get("tzn"), obs[i].get("tzo"), n, o)
    return None


def spec_check(c, rec, header):
    m = c["meta"]
    if "shown" not in m and "diff" not in m:
        return None
    r = check_pre(c, rec)
    if r:
        return r
    v, lines = the_time(rec)
    if lines is None:
        return "evaluation panicked or hung"
    if v is None:
        return "expected one result, got %r" % (lines,)
    out = lines[0]["out"]
    if "diff" in m:
        if v["t"] != "Duration":
            return "expected a duration of %d s, got %r" % (m["diff"], v)
        if v["secs"] != m["diff"]:
            return "expected |t1 - t2| = %d s, got %d" % (m["diff"], v["secs"])
        if out != render_duration(m["diff"]):
            return "expected the text %r, got %r" % (render_duration(m["diff"]), out)
        return None
    if v["t"] != "Time":
        return "expected a time, got %r" % (v,)
    zn, zo = m["zone"]
    want = "%s %s" % (hms(m["shown"]), zn)
    if out != want:
        return "expected %r, got %r" % (want, out)
    if v["tzn"] != zn or v["tzo"] != zo:
        return "expected zone (%r, %d), got (%r, %r)" % (zn, zo, v["tzn"], v["tzo"])
    if v["dt"]["nanos"] != 0:
        return "sub-second instant"
    rel = v["dt"]["secs"] - header["today"] * 86400
    if "rel" in m and rel != m["rel"]:
        return "expected the instant today+%d s, got today+%d s" % (m["rel"], rel)
    if "relmod" in m and rel % 86400 != m["relmod"]:
        return "expected the instant = %d s (mod 24 h), got %d" % (m["relmod"], rel % 86400)
    return None


def known_class(c, rec, verdict, known):
    """C11-K1: `T1 Z1 to T2 Z2` written on one line - the rule pass joins only the first time with its zone before
    to_duration fires, the second zone is left over and the line fails with 'No more token'"""
    if KNOWN_BOTH_ZONED in {f["class"] for f in known} and KNOWN_BOTH_ZONED in c["meta"].get("classes", []):
        lines = last_lines(rec)
        if lines and lines[-1] is not None and "err" in lines[-1]:
            return KNOWN_BOTH_ZONED
    return None


def witness_fails(f, wc, rec, header):
    lines = last_lines(rec)
    return bool(lines) and lines[-1] is not None and lines[-1].get("err") == f["observed"].get("err")
