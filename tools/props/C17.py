"""C17 - highlight (UI) tokens are well-formed character spans.

Oracle (independent of the crate and of the model, written from the property text):
  WF(line, ui): every (s, e, kind) has 0 <= s < e <= len(line) counted in CHARACTERS, the list is
  ordered by s and consecutive spans do not overlap;
  pure lines (integer literals, operator characters, spaces, an optional `#` comment): the spans and
  kinds are exactly those of a small tokenizer (digit runs -> Number, every other non-letter non-space
  character -> Operator, `#` to the end -> Comment);
  content: a span carries the characters of its kind - Number contains a digit, Operator is one
  non-alphanumeric character, Comment starts with `#`, Month is a month word of the language, Text is
  letters only, Symbol1 is a zone or a currency word, DateTime does not begin or end with a blank.
"""
import json, os, re, unicodedata
from .common import *

ALLOWED_AXIOMS = []
DETAIL = 1
RULE = ("base lines from arithmetic, money, percent, dates (en, tr), durations, times with zones, units, multi-line "
        "variable definitions/uses, API rules and comments; multi-byte words (Turkish, Greek, emoji, combining marks, "
        "the case-mapping length-changing set) injected before, inside and after tokens; month/zone words after "
        "length-changing text; pure number/operator/comment lines with multi-byte operators and comments; lines of "
        "131-140 tokens with a variable use past index 128; non-trivial = at least one reported line has >= 2 "
        "highlight tokens; distinct = distinct history")
ASSUMPTIONS = ["the month word lists of en and tr are read from /repo/src/json/config.json by the oracle",
               "pure-line tokenizer of the oracle: digit runs, single operator characters, `#` comments"]

_CFG = json.load(open("/repo/src/json/config.json", encoding="utf-8"))
MONTHS = {lang: set(d.get("long_months", {})) | set(d.get("short_months", {})) for lang, d in _CFG["languages"].items()}
ZONES = set(_CFG["timezones"])
CURRENCY_WORDS = {k.lower() for k in _CFG["currency_alias"]} | {k.lower() for k in _CFG["currencies"]}
GMT_ZONE = re.compile(r"GMT[+-]?[01]?[0-9]:?([0-5][0-9])?([A-Z]{2,4})?")

TURKISH = "ğüşıöçĞÜŞÖÇ"
GREEK = "αβγδλπΩΣ"
EMOJI = "😀🚀🎉"
COMBINING = "éäô"
# characters whose lower- or upper-case image has a different UTF-8 length
CASEMAP = "İıßŉǰΐKſﬁȺ"
WORDS = ["ğüş", "çay", "ışık", "İİİ", "ııı", "ßß", "ŉŉ", "ǰǰ", "ΐ", "αβγ", "Ωμέγα", "😀", "🚀🎉", "é", "ö",
         "K", "ﬁ", "Ⱥ", "ſſ", "𠀀", "𐌰𐌱"]
PURE_OPS = list("+-*/()^") + ["×", "÷", "→", "😀", "́", "¬"]

BASE = {
    "arith": ["1 + 2", "(3 + 4) * 5", "10 / 4 - 2", "2 ^ 8", "0x1F + 0b101", "1,5 + 2", "1.000 + 2", "12 * (3 - 1)",
              "1024 to hex", "255 as binary"],
    "money": ["$25 + 10 usd", "100 try to usd", "10 eur", "€50 - $20", "5k usd", "20 usd + 5 usd", "₺10 + 5"],
    "percent": ["10% of 200", "200 + 10%", "6% off 40", "5% on 30", "20 is what % of 80", "%20 + 5"],
    "date": ["12 march 2021", "march 5, 2020", "15/01/2021", "today", "tomorrow + 3 days", "5 jan", "1 dec 2020 + 2 weeks",
             "may 1", "3 october 1999 - 10 days"],
    "date_tr": ["15 ağustos 2021", "3 mart", "1 ocak 2020", "12 kasım", "5 şubat 2019", "21 aralık", "bugün"],
    "duration": ["3 hours 20 minutes", "2 weeks + 3 days", "1 year as days", "90 minutes to hours", "5 days 4 hours"],
    "time": ["12:30 est", "11:30 pm", "12:30 est to cet", "8:00 am + 2 hours", "10:15 GMT+3", "23:59:59 utc", "9:00 pst to gmt",
             "17:45 to 19:00"],
    "unit": ["10 km to m", "5 kg to g", "1024 byte to kb", "3 mile to km", "12 inch to cm", "2 lb to kg", "100 cm"],
    "comment": ["1 + 2 # toplam", "# only a comment", "10 usd # price", "12:30 est # meeting", "5 march # day"],
}
LANG = {"date_tr": "tr"}


# ------------------------------------------------------------------ oracle
def wf(line, ui):
    n = len(line)
    prev = None
    for u in ui:
        s, e, k = u
        if not (0 <= s < e <= n):
            return "span %r is not inside the %d characters of %r (0 <= start < end <= length)" % (u, n, line)
        if prev is not None:
            if s < prev[0]:
                return "spans %r, %r are not ordered by start" % (prev, u)
            if s < prev[1]:
                return "spans %r and %r overlap" % (prev, u)
        prev = u
    return None


def is_pure(line):
    body = line.split("#", 1)[0]
    return all(c == " " or c.isdigit() and c in "0123456789" or c in PURE_OPS for c in body)


def pure_tokens(line):
    out, i, n = [], 0, len(line)
    while i < n:
        c = line[i]
        if c == "#":
            out.append([i, n, "Comment"])
            break
        if c in "0123456789":
            j = i
            while j < n and line[j] in "0123456789":
                j += 1
            out.append([i, j, "Number"])
            i = j
        elif c == " ":
            i += 1
        else:
            out.append([i, i + 1, "Operator"])
            i += 1
    return out


def is_letter(c):
    return unicodedata.category(c).startswith("L")


def content(line, ui, lang):
    for s, e, k in ui:
        t = line[s:e]
        if k == "Number" and not any(c in "0123456789" for c in t):
            return "Number span %r covers %r (no digit)" % ([s, e], t)
        if k == "Operator" and (len(t) != 1 or t.isalnum() or t == " "):
            return "Operator span %r covers %r" % ([s, e], t)
        if k == "Comment" and not t.startswith("#"):
            return "Comment span %r covers %r" % ([s, e], t)
        if k == "Month" and t.lower() not in MONTHS.get(lang, set()):
            return "Month span %r covers %r, not a month word" % ([s, e], t)
        if k == "Text" and not all(is_letter(c) for c in t):
            return "Text span %r covers %r (not letters)" % ([s, e], t)
        if k == "Symbol1" and not (t.upper() in ZONES or GMT_ZONE.fullmatch(t.upper()) or t.lower() in CURRENCY_WORDS):
            return "Symbol1 span %r covers %r, neither a zone nor a currency word" % ([s, e], t)
        if k == "Symbol2" and any(ch in "0123456789 " for ch in t):
            # the highlight of a unit word / literal suffix never swallows the number literal next to it
            return "Symbol2 span %r covers %r (a digit or a blank: a number literal keeps its own Number span)" % ([s, e], t)
        if k == "DateTime" and (t[0] == " " or t[-1] == " "):
            return "DateTime span %r covers %r (begins or ends with a blank)" % ([s, e], t)
    return None


def exec_lines(c):
    """(lang, [line texts]) of the last exec of the case, split as Session::set_text does"""
    op = c["ops"][-1]
    return op["lang"], op["text"].split("\n")


def spec_check(c, rec, header):
    lines = last_lines(rec)
    if lines is None:
        return "evaluation panicked or hung"
    lang, texts = exec_lines(c)
    if len(lines) != len(texts):
        return "expected %d line results, got %d" % (len(texts), len(lines))
    for text, l in zip(texts, lines):
        if l is None:
            continue
        ui = l.get("ui")
        if ui is None:
            return "no highlight tokens reported for %r" % text
        v = wf(text, ui)
        if v:
            return "WF: " + v
        if is_pure(text) or (c["meta"].get("kind") == "digits-colon" and "=" not in text):
            # (digits-colon lines: the ':' between two digit runs that are no time of day is an operator)
            exp = pure_tokens(text)
            if ui != exp:
                return "EXACT: %r reports %r, expected %r" % (text, ui, exp)
        v = content(text, ui, lang)
        if v:
            return "MISPLACED: " + v
    return None


def nontrivial(c, rec):
    lines = last_lines(rec)
    if not lines:
        return False
    return any(l is not None and len(l.get("ui", [])) >= 2 for l in lines)


# ------------------------------------------------------------------ known findings
def length_changing(ch):
    b = len(ch.encode("utf-8"))
    return len(ch.lower().encode("utf-8")) != b or len(ch.upper().encode("utf-8")) != b


def casemap_line(text):
    return any(length_changing(ch) for ch in text)


EMPTY_SPAN = re.compile(r"WF: span \[(\d+), (\d+), '(VariableUse|VariableDefination|Symbol2)'\]")


def known_class(c, rec, verdict, known):
    """C17-casemap, only on a line that contains a character whose lower-/upper-case image has another UTF-8
    length: (a) a MISPLACED Month or Symbol1 span, or (b) a WF failure that is an EMPTY span (start = end) of a
    kind written by update_tokens.  Never an EXACT failure, an overlap, an order or a bounds failure."""
    if not any(f["class"] == "C17-casemap" for f in known):
        return None
    m = EMPTY_SPAN.match(verdict)
    if m:
        if m.group(1) != m.group(2):
            return None
    elif not (verdict.startswith("MISPLACED: Month span") or verdict.startswith("MISPLACED: Symbol1 span")):
        return None
    lang, texts = exec_lines(c)
    lines = last_lines(rec) or []
    for text, l in zip(texts, lines):
        if l is None or "ui" not in l:
            continue
        if (wf(text, l["ui"]) is not None or content(text, l["ui"], lang) is not None) and not casemap_line(text):
            return None          # a failing line without any length-changing character: not this class
    return "C17-casemap"


def witness_fails(f, wc, rec, header):
    lines = last_lines(rec)
    if not lines or lines[-1] is None:
        return False
    obs = f.get("observed", {})
    return lines[-1].get("ui") == obs.get("ui")


# ------------------------------------------------------------------ generator
def word(rng):
    k = rng.random()
    if k < 0.45:
        return rng.choice(WORDS)
    pool = rng.choice([TURKISH, GREEK, CASEMAP, TURKISH + CASEMAP])
    return "".join(rng.choice(pool) for _ in range(rng.randint(1, 4)))


def inject(rng, text):
    """multi-byte material before / inside / after the tokens of one line"""
    mode = rng.choice(["before", "after", "inside", "between", "both", "glued"])
    w = word(rng)
    if mode == "before":
        return w + " " + text
    if mode == "after":
        return text + " " + w
    if mode == "both":
        return w + " " + text + " " + word(rng)
    if mode == "glued":
        return w + text if rng.random() < 0.5 else text + w
    toks = text.split(" ")
    if mode == "between" and len(toks) > 1:
        i = rng.randint(1, len(toks) - 1)
        return " ".join(toks[:i] + [w] + toks[i:])
    # inside a token
    i = rng.randrange(len(toks))
    t = toks[i]
    p = rng.randint(0, len(t))
    ch = rng.choice(TURKISH + GREEK + CASEMAP + "😀́")
    toks[i] = t[:p] + ch + t[p:]
    return " ".join(toks)


def pure_line(rng):
    n = rng.randint(1, 9)
    parts = []
    for i in range(n):
        if i % 2 == 0:
            parts.append(str(rng.choice([0, 1, 7, 10, 42, 365, 1000, 123456789, rng.randint(0, 10 ** 6)])))
        else:
            parts.append(rng.choice(PURE_OPS))
    if rng.random() < 0.3:
        parts.insert(rng.randint(0, len(parts)), rng.choice(["(", ")", "😀", "×"]))
    text = (" " * rng.randint(1, 2)).join(parts)
    if rng.random() < 0.6:
        text += " # " + " ".join(word(rng) for _ in range(rng.randint(0, 3)))
    return text


def long_line(rng, count, tail):
    """`1 + 1 + ... + tail`: 2 * count highlight tokens before the tail"""
    return " + ".join([str(rng.randint(0, 9)) for _ in range(count)]) + " + " + tail


def mk(text, lang, kind, pre=None):
    return exec_case(text, lang, pre=pre, kind=kind)


def generate(rng, tier):
    n = 420 if tier == "quick" else 6000
    cases = []
    # every base line as it is, and once with a multi-byte prefix and suffix
    for area, lines in BASE.items():
        lang = LANG.get(area, "en")
        for l in lines:
            cases.append(mk(l, lang, "base-" + area))
            cases.append(mk(rng.choice(WORDS) + " " + l + " " + rng.choice(WORDS), lang, "wrapped-" + area))
    # the examples of the proofs and the probes of the design notes
    for l, lang in [("ğüş 1 + 2 # ööö", "en"), ("şu 15 ağustos 2021", "tr"), ("x = 15 ağustos", "tr"),
                    ("3 # march 2020", "en"), ("12:30 est ŉŉŉ", "en"), ("5 mart İİİ", "tr"), ("ııı 5 mart", "tr"),
                    ("ßß 12:30 est", "en"), ("ΐ 12:30 est", "en"), ("ŉŉŉ 12:30 est", "en")]:
        cases.append(mk(l, lang, "probe"))
    # indentation and trailing blanks combined with a month / zone word and a comment (offsets of the language
    # parsers are taken from a copy of the line: the copy must cover the same prefix of the line)
    for l, lang in [("  12 march 2020 # note", "en"), ("   3 şubat 2021   # not", "tr"), ("\t5 may # june", "en"),
                    ("    jan 28, 2019 - 2 days   # jan", "en"), ("  12:30 est # zone", "en"), ("   12 march   ", "en"),
                    ("  x = 4 mart #", "tr")]:
        cases.append(mk(l, lang, "indent-comment"))
    for _ in range(12 if tier == "quick" else 150):
        lang = rng.choice(["en", "tr"])
        mword = rng.choice(["march", "may", "dec", "january"] if lang == "en" else ["mart", "şubat", "aralık", "ocak"])
        core = rng.choice(["%d %s 2020", "%d %s", "%s %d, 2021"] if lang == "en" else ["%d %s 2020", "%d %s"])
        d = rng.randint(1, 28)
        core = core % ((d, mword) if core.startswith("%d") else (mword, d))
        cases.append(mk(" " * rng.randint(1, 5) + core + " " * rng.randint(0, 3) + "#" + rng.choice(["", " note", " " + mword, " 5 + 5"]),
                        lang, "indent-comment"))
    # a digit run directly in front of `:dd` that is not a time of day: three plain tokens, or a time that starts at the
    # first digit - never a highlight that starts inside the digit run
    for l in ["100:30", "123:45 + 1", "25:30", "1234:56:78", "99:99", "7:5", "2021:12", "250:15 * 2"]:
        cases.append(mk(l, "en", "digits-colon"))
    # a number with a glued word (`5kg`: the number parser reports the suffix as a symbol) followed LATER on the line by a
    # token that an earlier parser registered (comment, percent, time, money, based literal): the text parser's token for
    # the suffix must still be rejected although the token list is not ordered by start at that moment
    for l in ["5kg # c", "3m + %10", "5kg + 0x10", "5kg 10:30", "ağırlık = 5kg # ş", "5kg", "5kg + 3", "12abc 50% # x", "7xyz $5",
              "2kg 3kg # iki", "9qq 0b11 + 12:30 est", "4zz + 10 usd # n"]:
        cases.append(mk(l, "en", "glued-suffix"))
    # ... and with a word IN FRONT of the glued literal (the text parser pushes a token near the start of the line before
    # it offers the suffix)
    for l in ["x = 1e5", "total 10abc", "çay 500gb", "y = 3x + 1", "toplam = 12abc # ö", "ab 1e5 cd 2e6", "1e5", "10abc", "500gb to mb"]:
        cases.append(mk(l, "en", "glued-suffix"))
    for _ in range(10 if tier == "quick" else 120):
        head = "%d%s" % (rng.randint(1, 999), rng.choice(["kg", "m", "abc", "zz", "çay", "x"]))
        tail = rng.choice(["# c", "%10", "0x10", "10:30", "$5", "50%", "12:30 est", "0b101", "10 usd", "# ö 5"])
        cases.append(mk(head + rng.choice([" ", " + ", "  "]) + tail, "en", "glued-suffix"))
    # month / zone words after text whose case image changes length (known finding C17-casemap)
    for l, lang in [("ıııı est 12:30", "en"), ("İİİ 5 march 2020", "en"), ("İİ march 5", "en"), ("ǰǰ est 12:30", "en"),
                    ("İİİ 5 mart", "tr"), ("KK 12:30 est", "en"), ("ſſſ gmt 10:00", "en")]:
        cases.append(mk(l, lang, "casemap"))
    # update_tokens with both offsets inside one 4-byte character: the empty span (9, 9, VariableUse)
    cases.append(mk("est = 5\n" + "ı" * 5 + "\u212a" * 3 + "7\U00020000 est may", "en", "casemap"))
    cases.append(mk("est = 5\n" + "ı" * 5 + "\u212a" * 3 + "+\U00010330 est may + 1", "en", "casemap"))
    # variables across lines (sort + update_tokens), with multi-byte names and surroundings
    names = ["x", "ağırlık", "toplam fiyat", "αβγ", "total price", "çay", "ışık hızı", "İİ"]
    for nm in names:
        for use in ["%s * 2", "ğüş %s + 1", "%s + %s", "1 + %s # ööö", "10 usd * %s"]:
            u = use.replace("%s", nm)
            cases.append(mk("%s = 5\n%s" % (nm, u), "en", "variable"))
    cases.append(mk("a = 12 march\na + 3 days", "en", "variable"))
    cases.append(mk("saat = 12:30 est\nsaat to cet", "en", "variable"))
    cases.append(mk("ay = 3 mart\nay + 2 gün", "tr", "variable"))
    # API rules (update_tokens over every field)
    rule = [{"op": "add_rule", "lang": "en", "patterns": ["{NUMBER:x} çift", "iki {NUMBER:x}"], "name": "double",
             "kind": "scale", "k": str(bits(2.0)), "cur": ""}]
    for l in ["21 çift", "ğüş 21 çift + 1", "iki 4", "1 + iki 4 # öö", "İİ 21 çift"]:
        cases.append(mk(l, "en", "api-rule", pre=rule))
    # a user-defined unit whose pattern has the unit word BEFORE the quantity (every built-in pattern ends with the unit):
    # the number literal keeps its own Number highlight
    fam = [{"op": "add_type", "name": "kat"},
           {"op": "add_type_item", "name": "kat", "index": 1, "format": "Kat {value}", "parse": ["{TEXT:type:kat} {NUMBER:value}"],
            "up": "{value}", "down": "{value}", "names": ["kat"]},
           {"op": "add_type_item", "name": "kat", "index": 2, "format": "{value} blok", "parse": ["{TEXT:type:blok} no {NUMBER:value}",
                                                                                                "{NUMBER:value} {TEXT:type:blok}"],
            "up": "{value}", "down": "{value} * 10", "names": ["blok"]}]
    for l in ["kat 5", "ğ kat 12 + 2 # çatı", "kat 7 to blok", "blok no 3", "3 blok", "1 + blok no 12 # ö", "kat 5 + kat 6"]:
        cases.append(mk(l, "en", "api-unit-prefix", pre=fam))
    # >= 130 highlight tokens on a line; a variable use at index >= 128 (`index as i8`)
    cases.append(mk(long_line(rng, 66, "1"), "en", "long"))
    cases.append(mk("ğüş " + long_line(rng, 66, "1") + " # ööö", "en", "long"))
    cases.append(mk("x = 5\n" + long_line(rng, 66, "x"), "en", "long-variable"))
    cases.append(mk("toplam fiyat = 5\nçay " + long_line(rng, 68, "toplam fiyat"), "en", "long-variable"))
    cases.append(mk(long_line(rng, 65, "3 hours"), "en", "long-rule"))
    cases.append(mk("ağırlık = 5\n" + long_line(rng, 62, "ağırlık") + " + 2", "en", "long-variable"))
    if tier != "quick":
        cases.append(mk("x = 5\n" + long_line(rng, 130, "x"), "en", "long-variable"))
    areas = list(BASE)
    while len(cases) < n:
        k = rng.random()
        if k < 0.3:
            cases.append(mk(pure_line(rng), rng.choice(["en", "tr"]), "pure"))
        elif k < 0.85:
            area = rng.choice(areas)
            text = inject(rng, rng.choice(BASE[area]))
            if rng.random() < 0.25:
                text = inject(rng, text)
            cases.append(mk(text, LANG.get(area, "en"), "inject-" + area))
        else:
            nm = rng.choice(names)
            a1, a2 = rng.choice(areas), rng.choice(areas)
            l2 = inject(rng, rng.choice(BASE[a2])) + " + " + nm
            cases.append(mk("%s = %s\n%s" % (nm, rng.choice(BASE[a1]), l2), LANG.get(a2, "en"), "variable-mix"))
    return cases
