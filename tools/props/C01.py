"""C01 - evaluation is total: no panic, no hang, status true, one result slot per input line.

Two streams: (a) grammar-ish lines assembled from fragments of every feature area, (b) a
malformed stream (random characters with heavy weight on the syntax characters, over-long based
literals, atoms with arbitrary payloads, multi-byte characters whose case mapping changes
length, unknown language tags), under configurations reachable through the public setters
(arbitrary separator strings, digit counts up to 255, arbitrary time-zone strings).
Oracle: every operation returns (no panic, no watchdog timeout); execute returns status true and
exactly one slot per line (lines split on CRLF or LF).
"""
import random
from .common import *

ALLOWED_AXIOMS = []
DETAIL = 0
RULE = ("texts of 1-8 lines; each line either assembled from feature fragments (numbers, money, percent, dates, durations, "
        "times/zones, units, variables, atoms, fields) or random over a syntax-heavy alphabet incl. multi-byte and "
        "case-length-changing characters; languages en/tr/unknown; configuration setters with arbitrary strings before the "
        "evaluation; non-trivial = at least one line evaluates to a value or an error; distinct = distinct history")
ASSUMPTIONS = ["a hang is observed by a 2 s watchdog per operation", "dev profile: integer overflow panics are observed as panics"]

FRAG = ["1", "2", "10", "0", "3,5", "1.000", "-5", "+7", "1k", "2M", "0x1F", "0b101", "0o17", "0xFFFFFFFFFFFFFFFFF", "0b" + "1" * 70,
        "999999999999999999999", "1e5", "+", "-", "*", "/", "(", ")", "=", "%", "10%", "%10", "$", "$5", "5 usd", "10 try", "€3", "₺7",
        "usd", "eur", "to", "of", "on", "off", "as", "in", "at", "is", "what", "into", "jan", "january", "march", "12 march 2020",
        "31/12/2021", "29/02/2021", "12/13/2020", "0/0/0", "today", "tomorrow", "yesterday", "3 days", "2 weeks", "14 months",
        "5 years", "99999999999999999 days", "9999999999999 weeks", "7 hours", "30 minutes", "45 seconds", "10:30", "25:61", "10:30 pm",
        "12:00 am", "23:59:59", "EST", "GMT+3", "GMT-12:30", "GMT+99", "CET", "PST", "km", "m", "cm", "inch", "mile", "kg", "g", "lb",
        "byte", "bit", "mb", "gb", "x", "y", "my var", "hex", "binary", "octal", "decimal", "unix", "date", "hours", "days",
        "[NUMBER:1]", "[NUMBER:abc]", "[PERCENT:x]", "[TIME:90000]", "[TIME:abc]", "[MONEY:12]", "[MONEY:1;usd]", "[MONEY:x;usd]",
        "[OPERATOR:+]", "[FOO:1]", "[OPERATOR:]", "[NUMBER:]", "[MONEY:]", "[PERCENT:]", "[TIME:]", "[:]", "[MONEY:;]", "[MONEY:1;]", "[", "]", "{NUMBER:n}", "{TEXT:t:abc}", "{GROUP:g:conversion_group}", "{", "}", ":", ";",
        "#", "# comment jan", "1,2,3%", "1.2.3", ",", ".", "..", "é", "ı", "İ", "ß", "ǰ", "ŉ", "ΐ", "Σ", "ς", "σ", "😀", "́", "\t", " ",
        "1609459200", "at 24", "at 10", "- 3 months", "+ 1 month", "+ 11 months", "10:00 + 24 hours", "10:00 + 2 days",
        "10:00 - 25 hours", "23:59 + 1 week", "36 hours", "25 hours", "1 week", "1 day 3 hours", "12:30 + 100000 seconds"]
ALPHA = list("0123456789") * 3 + list("+-*/()=%#:;.,[]{}$ ") * 2 + list("abcdefxyzEFGMkTPZY") + ["é", "ı", "İ", "ß", "ǰ", "Σ", "😀", "\t"]
LANGS = ["en"] * 6 + ["tr"] * 2 + ["xx", "", "EN", "de"]
SEPS = [",", ".", "", " ", "'", "..", "ab", "1", "%", "é", "#"]
TZS = ["GMT+3", "EST", "UTC", "gmt-5:30", "GMT+25", "XYZ", "", "+3", "CET", "İST"]


def gen_line(rng):
    r = rng.random()
    if r < 0.55:
        return " ".join(rng.choice(FRAG) for _ in range(rng.randint(1, 7)))
    if r < 0.7:
        return "".join(rng.choice(FRAG) for _ in range(rng.randint(1, 6)))
    if r < 0.95:
        return "".join(rng.choice(ALPHA) for _ in range(rng.randint(0, 40)))
    return rng.choice(["", " ", "   ", "\t"])


def gen_text(rng):
    n = rng.choice([1, 1, 1, 2, 3, 4, 8])
    seps = [rng.choice(["\n", "\n", "\r\n"]) for _ in range(n - 1)]
    lines = [gen_line(rng) for _ in range(n)]
    out = lines[0]
    for s_, l in zip(seps, lines[1:]):
        out += s_ + l
    return out


def count_lines(text):
    return len(text.replace("\r\n", "\n").split("\n"))


def gen_pre(rng):
    pre = []
    if rng.random() < 0.3:
        pre.append({"op": "set_dec", "v": rng.choice(SEPS)})
    if rng.random() < 0.3:
        pre.append({"op": "set_thou", "v": rng.choice(SEPS)})
    if rng.random() < 0.2:
        pre.append({"op": "set_num_cfg", "d": rng.choice([0, 1, 2, 5, 9, 10, 17, 40, 255]), "rm": rng.random() < 0.5,
                    "round": rng.random() < 0.5})
    if rng.random() < 0.1:
        pre.append({"op": "set_pct_cfg", "d": rng.choice([0, 2, 12, 255]), "rm": rng.random() < 0.5, "round": rng.random() < 0.5})
    if rng.random() < 0.1:
        pre.append({"op": "set_money_cfg", "rm": rng.random() < 0.5, "round": rng.random() < 0.5})
    if rng.random() < 0.2:
        pre.append({"op": "set_tz", "v": rng.choice(TZS)})
    rng.shuffle(pre)
    return pre


CORPUS = ["0x7FFFFFFFFFFFFFFFF", "[NUMBER:abc]", "[TIME:abc]", "[MONEY:12]", "[TIME:90000]", "1,2,3%", "31 january 2021 + 1 month",
          "15 january 2021 + 11 months", "15 march 2021 - 3 months", "1/1/2021 at 24", "99999999999999999 days", "9999999999999 weeks",
          "99999999999999 to date", "ıııı est 12:30", "3 # march 2020", "# jan", "x = ", "= 5", "a = b = c", "((((", "))))", "1 +", "* 2",
          "1 2 3 4 5 6 7 8 9 10 11 12 13 14 15 16 17 18 19 20 21 22 23 24 25 26 27 28 29 30", "a\nb\r\nc\n\n", "\n", "\r\n", "\r",
          # names that mix a word and a number (the highlight list is rewritten for a name spanning tokens of two lexer
          # passes), used on a later line that has no `=` and holds another number
          "plan 2 = 5\nplan 2 * 3", "q1 = 10\nq1 + 20", "test 1 = 123\ntest 1 + 7\n2 * test 1 # x", "a1 b2 = 4\n10 - a1 b2 + 3",
          "3 rd = 9\n3 rd / 3 + 1", "yıl 2021 = 7\nyıl 2021 + 2021", "x 5% = 2\nx 5% + 5%",
          # atoms at the edges of their ranges
          "[TIME:86400]", "[TIME:86399]", "[TIME:86401]", "[TIME:0]", "[TIME:4294967295]", "[TIME:4294967296]", "1 + 1\n[TIME:86400]\n2 + 2",
          "[NUMBER:1e308]", "[NUMBER:-0]", "[PERCENT:1e400]", "[OPERATOR:]", "[MONTH:0]", "[MONTH:13]", "[MONTH:12] 5",
          # '=' behind a phrase that a rule, unit or money rewrite folded into one token
          "2 km + 3 km =", "10 usd to try =", "1 hour 30 minutes =", "5 kg to g =", "3 hours = x", "1 hour = 5", "10% of 50 =", "12:30 EST =",
          # a zone abbreviation that no time rule consumes, behind a binary operator
          "5 + cat 4", "x = 3 * EST 4", "3 + EST", "10 usd - get 3 usd", "8 PM - CET 2 hours", "EST 4", "2 * (EST)", "1 - - PST",
          # operand kinds in the "wrong" order and other rarely taken interpreter / rule branches (found by a coverage run of
          # all generators over the crate: every line below reaches code no other case reached)
          "2 * 10 usd", "100 - 10 usd", "100 / 10 usd", "3 * 5 km", "100 - 5 km", "10 / 2 km", "10 * 5%", "10% * 2%", "10% - 3%",
          "10% / 2%", "10% + 5", "5 usd + +3 usd", "-(3 km)", "5 km + -(2 km)", "12:30 as minutes", "12:30 as hours", "23:59:59 as seconds",
          "12:30 as days", "12:30 as weeks", "12:30 as months", "23:00 as years", "10 usd/hour", "5%/day", "20/person", "p = 10%\np/unit",
          "x = 1600000000 to date\nx + 2 hours\nx - 1 day\nx to EST\n-x\nx * 2", "d = 5 jan 2020\nd to EST\n-d\nd + d\n5 + -d",
          "t = 12:30\n-t\n5 + -t\nt * 2\nt + t", "m = march\nm\n5 m 2020\nm 5, 2020", "k = 3 km\n-k\n2 * k\nk * k\nk / k",
          "u = 10 usd\n-u\n+u\n3 - +u\nu * u", "q = 2 hours\n-q\nq * 2\n2 * q\nq / 2",
          # suffix, detached-sign and percent interplay
          "1,5k", "2,0625k + 1", "- %10", "200 + -%10", "200 - - 10%"]


def generate(rng, tier):
    n = 500 if tier == "quick" else 6000
    cases = []
    for t in CORPUS:
        for lang in ("en", "tr", "xx"):
            cases.append(exec_case(t, lang, kind="corpus"))
    # re-used sessions: the same and different texts set repeatedly; every execute_session after a set_text must give
    # status true and one slot per line of that text
    n_sess = 40 if tier == "quick" else 600
    for k in range(n_sess):
        ops = [{"op": "new_session", "sid": 1}, {"op": "set_language", "sid": 1, "lang": rng.choice(["en", "en", "tr", "xx"])}]
        prev = None
        for _ in range(rng.randint(2, 5)):
            text = prev if (prev is not None and rng.random() < 0.4) else gen_text(rng)
            ops.append({"op": "set_text", "sid": 1, "text": text})
            ops.append({"op": "exec_session", "sid": 1})
            prev = text
        cases.append({"ops": ops, "meta": {"kind": "session"}})
    while len(cases) < n + n_sess:
        text = gen_text(rng)
        lang = rng.choice(LANGS)
        pre = gen_pre(rng)
        cases.append(exec_case(text, lang, pre=pre, kind="fuzz" + ("-cfg" if pre else "")))
    return cases


def nontrivial(c, rec):
    if rec is None or rec.get("hang") or rec.get("crash"):
        return False
    for o in rec["obs"]:
        if isinstance(o, dict) and o.get("lines") and any(l is not None for l in o["lines"]):
            return True
    return False


def spec_check(c, rec, header):
    if rec is None:
        return "no record from the harness"
    if rec.get("hang"):
        return "the evaluation did not terminate within the watchdog limit"
    if rec.get("crash"):
        return "the harness crashed"
    for i, o in enumerate(rec["obs"]):
        if "panic" in o:
            return "operation %d (%s) panicked: %s" % (i, c["ops"][i]["op"], str(o["panic"])[:300])
    pending = {}
    for i, (op, obs) in enumerate(zip(c["ops"], rec["obs"])):
        if op["op"] == "set_text":
            pending[op["sid"]] = op["text"]
            continue
        if op["op"] in ("exec", "exec_fresh"):
            text = op["text"]
        elif op["op"] == "exec_session" and op["sid"] in pending:
            text = pending.pop(op["sid"])
        else:
            continue
        if obs.get("status") is not True:
            return "operation %d (%s) returned status %r" % (i, op["op"], obs.get("status"))
        if len(obs["lines"]) != count_lines(text):
            return "operation %d (%s): %d result slots for a text of %d lines" % (i, op["op"], len(obs["lines"]), count_lines(text))
    return None


def known_class(c, rec, verdict, known):
    return None


def witness_fails(f, wc, rec, header):
    return False
