"""C09 - dates are read as calendar dates and date arithmetic is calendar arithmetic.

The oracle is written from the property statement with python's datetime.date (proleptic Gregorian
ordinal) as the calendar; years outside 1..9999 are reached through the 400-year period."""
import datetime
import json
import os
from .common import *

ALLOWED_AXIOMS = []
DETAIL = 0
RULE = ("dates of years 1..9999 stratified over {month ends, first days, leap days, 28 feb, 31 dec / 1 jan, century "
        "years, the current year, uniform} x every spelling (d/m/y, 'd Month y', 'd Month' of the current year, en also "
        "'Month d, y' and 'Month d y'; long and short month words, three casings, padded numbers) x en and tr; impossible "
        "dates (31 of a 30-day month, 30/31 feb, 29 feb of non-leap years, day 0, day 32, month 0, month 13) in every "
        "spelling; date +/- N days|weeks|months|years with N from {0..29, 30, 31, 59, 60, 364..366, 500, 0..4 / 5 / 52 "
        "weeks, 0..11 / 12 / 13 / 14 / 24 / 36 months, 0 / 1 / 4 / 100 / 400 / 1000 years, random}, written spaced, "
        "without blanks (`12 jul 1997-1 year`) or with a signed count (`+ -3 days`, `- -3 days`); 'A to B' / 'A B arası' "
        "in both orders; today / tomorrow / yesterday alone, in sums and in differences; non-trivial = evaluates to a "
        "date or a duration; distinct = distinct text")
ASSUMPTIONS = ["the reference calendar is python's datetime.date (proleptic Gregorian), extended by the 400-year period",
               "the reference month names (English and Turkish, long and short) are fixed in the oracle and only "
               "checked to occur in config.json",
               "Turkish month words are written with their Turkish letters in lower case or capitalised: the ASCII "
               "variants of config.json (subat, agustos, ...) and upper-case Turkish words are not month tokens in the "
               "crate (property C19) and are not generated here"]

CLASS_QUANT = "C09-duration-quantised"
CLASS_BORROW = "C09-month-sub-no-year-borrow"

EN_LONG = ["january", "february", "march", "april", "may", "june", "july", "august", "september", "october", "november",
           "december"]
EN_SHORT = ["jan", "feb", "mar", "apr", "may", "jun", "jul", "aug", "sep", "oct", "nov", "dec"]
TR_LONG = ["ocak", "şubat", "mart", "nisan", "mayıs", "haziran", "temmuz", "ağustos", "eylül", "ekim", "kasım", "aralık"]
TR_SHORT = ["oca", "şub", "mar", "nis", "may", "haz", "tem", "ağu", "eyl", "eki", "kas", "ara"]
NAMES = {"en": (EN_LONG, EN_SHORT), "tr": (TR_LONG, TR_SHORT)}
UNITS = {"en": {"day": ["day", "days"], "week": ["week", "weeks"], "month": ["month", "months"], "year": ["year", "years"]},
         "tr": {"day": ["gün", "gun"], "week": ["hafta"], "month": ["ay"], "year": ["yıl", "yil"]}}
TODAY = {"en": {0: ["today"], 1: ["tomorrow"], -1: ["yesterday"]},
         "tr": {0: ["bugün", "bugun"], 1: ["yarın", "yarin"], -1: ["dün", "dun"]}}


CONFIG_DISAGREES = []


def _check_config():
    path = "/repo/src/json/config.json"
    if not os.path.exists(path):
        return
    cfg = json.load(open(path, encoding="utf-8"))
    for lang, (lo, sh) in NAMES.items():
        L = cfg["languages"][lang]
        for i in range(12):
            # the names are PINNED here (the oracle does not follow an edited table); a disagreement is not an error of
            # the check: the generated dates written with the pinned names then fail to read and are reported
            if L["long_months"].get(lo[i]) != i + 1 or L["short_months"].get(sh[i]) != i + 1:
                CONFIG_DISAGREES.append((lang, lo[i], sh[i]))


_check_config()


# ------------------------------------------------------------------ reference calendar
def leap(y):
    return y % 4 == 0 and (y % 100 != 0 or y % 400 == 0)


def dim(y, m):
    return [31, 29 if leap(y) else 28, 31, 30, 31, 30, 31, 31, 30, 31, 30, 31][m - 1]


def valid(y, m, d):
    return 1 <= m <= 12 and 1 <= d <= dim(y, m)


def daynum(y, m, d):
    """days since 1970-01-01 of a valid date of any year"""
    k = 0
    while y < 1:
        y += 400
        k -= 1
    while y > 9999:
        y -= 400
        k += 1
    return datetime.date(y, m, d).toordinal() - 719163 + 146097 * k


def civil(n):
    k = 0
    while n < -719162:
        n += 146097
        k -= 1
    while n > 2932896:
        n -= 146097
        k += 1
    dt = datetime.date.fromordinal(n + 719163)
    return (dt.year + 400 * k, dt.month, dt.day)


def add_months(y, m, d, k):
    t = y * 12 + (m - 1) + k
    y2, m2 = t // 12, t % 12 + 1
    return (y2, m2, d) if valid(y2, m2, d) else None


def printed(lang, n, now_year):
    y, m, d = civil(n)
    lo, sh = NAMES[lang]
    if y == now_year:
        return "%d %s" % (d, lo[m - 1].capitalize())
    return "%d %s %d" % (d, sh[m - 1].capitalize(), y)


# ------------------------------------------------------------------ generator
def casing(rng, w, lang):
    r = rng.random()
    if r < 0.5:
        return w
    if r < 0.85 or lang == "tr":
        return w[0].upper() + w[1:]
    return w.upper()


def num(rng, v, width=2):
    return ("%0" + str(width) + "d") % v if rng.random() < 0.15 else str(v)


def spellings(lang):
    return ["dmy", "d_M_y", "M_d_c_y", "M_d_y"] if lang == "en" else ["dmy", "d_M_y"]


def spell(rng, lang, y, m, d, form):
    """text of one spelling; month numbers outside 1..12 only for form dmy"""
    if form == "dmy":
        return "%s/%s/%s" % (num(rng, d), num(rng, m), num(rng, y, 4))
    lo, sh = NAMES[lang]
    w = casing(rng, (lo if rng.random() < 0.5 else sh)[m - 1], lang)
    if form == "d_M_y":
        return "%s %s %s" % (num(rng, d), w, num(rng, y, 4))
    if form == "d_M":
        return "%s %s" % (num(rng, d), w)
    if form == "M_d_c_y":
        return "%s %s, %s" % (w, num(rng, d), num(rng, y, 4))
    if form == "M_d_y":
        return "%s %s %s" % (w, num(rng, d), num(rng, y, 4))
    raise ValueError(form)


SPECIAL_YEARS = [1, 2, 4, 99, 100, 101, 399, 400, 401, 1000, 1582, 1600, 1700, 1899, 1900, 1901, 1970, 1999, 2000, 2001,
                 2019, 2020, 2021, 2023, 2024, 2100, 2400, 8000, 9996, 9998, 9999]


def pick_date(rng, now_year):
    r = rng.random()
    if r < 0.45:
        y = rng.choice(SPECIAL_YEARS)
    elif r < 0.6:
        y = now_year
    else:
        y = rng.randint(1, 9999)
    k = rng.random()
    if k < 0.2:
        m = rng.randint(1, 12)
        d = dim(y, m)
    elif k < 0.3:
        m, d = rng.randint(1, 12), 1
    elif k < 0.42:
        if not leap(y):
            y = min(9996, max(4, y - y % 4))
            if not leap(y):
                y += 4
        m, d = 2, 29
    elif k < 0.5:
        m, d = 2, 28
    elif k < 0.58:
        m, d = 12, 31
    elif k < 0.66:
        m, d = 1, 1
    else:
        m = rng.randint(1, 12)
        d = rng.randint(1, dim(y, m))
    return y, m, d


def date_text(rng, lang, y, m, d, now_year):
    forms = spellings(lang)
    if y == now_year and rng.random() < 0.5:
        return spell(rng, lang, y, m, d, "d_M"), True
    return spell(rng, lang, y, m, d, rng.choice(forms)), False


def a_date(rng, lang, now_year, today):
    """(text, day number or ('today', delta), default-year flag, (y, m, d) or None)"""
    if today and rng.random() < 0.12:
        delta = rng.choice([0, 1, -1])
        return rng.choice(TODAY[lang][delta]), ("today", delta), False, None
    y, m, d = pick_date(rng, now_year)
    t, dflt = date_text(rng, lang, y, m, d, now_year)
    return t, daynum(y, m, d), dflt, (y, m, d)


COUNTS = {"day": list(range(0, 30)) + [30, 31, 59, 60, 61, 89, 90, 364, 365, 366, 500, 730, 11680],
          "week": [0, 1, 2, 3, 4, 5, 8, 9, 52, 53, 100],
          "month": list(range(0, 12)) + [12, 13, 14, 23, 24, 25, 36, 120],
          "year": [0, 1, 2, 3, 4, 5, 10, 32, 100, 400, 1000]}


def generate(rng, tier):
    n = 1500 if tier == "quick" else 12000
    now_year = datetime.datetime.utcnow().year
    cases = []

    def add(text, lang, kind, **meta):
        cases.append(exec_case(text, lang, kind=kind, gen_year=now_year, **meta))

    # every spelling x month word, both languages: the 15th of each month of a fixed year and of the current year
    for lang in ("en", "tr"):
        lo, sh = NAMES[lang]
        for m in (range(1, 13) if tier != "quick" else rng.sample(range(1, 13), 4)):
            for words in (lo, sh):
                y = rng.choice([2021, 1999, 404, 9999])
                d = rng.randint(1, 28)
                for form in spellings(lang):
                    if form == "dmy":
                        continue
                    w = casing(rng, words[m - 1], lang)
                    text = {"d_M_y": "%d %s %d", "M_d_c_y": "%s %d, %d", "M_d_y": "%s %d %d"}[form]
                    args = (d, w, y) if form == "d_M_y" else (w, d, y)
                    add(text % args, lang, "read-" + lang, expect={"t": "date", "days": daynum(y, m, d)}, dflt=False)
                add("%d %s" % (d, casing(rng, words[m - 1], lang)), lang, "read-default-year-" + lang,
                    expect={"t": "date", "days": daynum(now_year, m, d)}, dflt=True)
    # today / tomorrow / yesterday
    for lang in ("en", "tr"):
        for delta, ws in TODAY[lang].items():
            for w in ws:
                add(w, lang, "today-" + lang, expect={"t": "today", "delta": delta})

    # ... also under non-UTC default zones on both sides of the date line: the three words share one base day
    # (a zone whose local calendar day differs from the UTC day must not move one of them alone)
    for zone in ("GMT+12", "GMT-12", "GMT+5:30", "GMT-8", "GMT+14", "GMT-11"):
        pre = [{"op": "set_tz", "v": zone}]
        for delta, ws in TODAY["en"].items():
            add(ws[0], "en", "today-zone", pre=pre, expect={"t": "today", "delta": delta})
        for a, b in ((-1, 0), (0, 1), (-1, 1), (1, -1)):
            add("%s to %s" % (TODAY["en"][a][0], TODAY["en"][b][0]), "en", "today-zone-diff", pre=pre,
                expect={"t": "diff", "a": ("today", a), "b": ("today", b)})

    # the date spellings are installed by set_date_rule: after re-installing month-first spellings (with and without
    # custom rules registered before) ONLY the new spellings read dates
    scale = {"op": "add_rule", "lang": "en", "patterns": ["{NUMBER:x} widgets"], "name": "w", "kind": "scale",
             "k": str(bits(2.0)), "cur": ""}
    mdy = {"op": "set_date_rule", "lang": "en", "patterns": ["{NUMBER:month}/{NUMBER:day}/{NUMBER:year}",
                                                             "{MONTH:month} {NUMBER:day} {NUMBER:year}"]}
    for pre in ([mdy], [scale, mdy], [scale, scale, mdy, mdy], [mdy, scale]):
        for (mm, dd, yy) in ((2, 1, 2020), (12, 31, 1999), (7, 4, 2021)):
            add("%d/%d/%d" % (mm, dd, yy), "en", "set-date-rule", pre=pre, expect={"t": "date", "days": daynum(yy, mm, dd)}, dflt=False)
        add("13/1/2020", "en", "set-date-rule-impossible", pre=pre, expect={"t": "notdate"}, ymd=[2020, 13, 1])
        add("31/12/1999", "en", "set-date-rule-impossible", pre=pre, expect={"t": "notdate"}, ymd=[1999, 31, 12])
        add("march 5, 2021", "en", "set-date-rule", pre=pre, expect={"t": "date", "days": daynum(2021, 3, 5)}, dflt=False)

    # a typed date denotes that calendar date under EVERY configured default zone (east and west of UTC), alone and in
    # arithmetic: the zone moves clock times, never a calendar date
    for zone in ("CET", "GMT+1", "GMT+5:30", "GMT+12", "GMT+14", "EST", "GMT-7", "GMT-11:30"):
        pre = [{"op": "set_tz", "v": zone}]
        for lang in ("en", "tr"):
            y, m, d = pick_date(rng, now_year)
            t, dflt = date_text(rng, lang, y, m, d, now_year)
            add(t, lang, "read-zone-" + lang, pre=pre, expect={"t": "date", "days": daynum(y, m, d)}, dflt=dflt)
        add("5 jan 2021", "en", "read-zone-en", pre=pre, expect={"t": "date", "days": daynum(2021, 1, 5)}, dflt=False)
        add("1 jan 2021", "en", "read-zone-en", pre=pre, expect={"t": "date", "days": daynum(2021, 1, 1)}, dflt=False)
        add("31 dec 2021 + 1 day", "en", "arith-zone", pre=pre, expect={"t": "date", "days": daynum(2022, 1, 1)}, dflt=False)
        add("1/3/2020 - 1 day", "en", "arith-zone", pre=pre, expect={"t": "date", "days": daynum(2020, 2, 29)}, dflt=False)
        add("5 jan 2021 to 7 jan 2021", "en", "diff-zone", pre=pre,
            expect={"t": "diff", "a": daynum(2021, 1, 5), "b": daynum(2021, 1, 7)})
    # date + a duration with a year part AND a month part (each step alone is exercised by the stream below)
    for text, ymd in (("5 jan 2021 + 1 year 3 months", (2022, 4, 5)), ("5 jan 2021 + 14 months", (2022, 3, 5)),
                      ("15 nov 2021 + 2 years 2 months", (2024, 1, 15)), ("15 nov 2021 + 2 months", (2022, 1, 15)),
                      ("5 jan 2021 + 1 year", (2022, 1, 5)), ("10 mar 2020 + 1 year 1 month 1 day", (2021, 4, 11))):
        add(text, "en", "arith-year-month", expect={"t": "date", "days": daynum(*ymd)}, dflt=False)
    while len(cases) < n:
        lang = "en" if rng.random() < 0.6 else "tr"
        k = rng.random()
        if k < 0.22:
            # a date alone, every spelling
            y, m, d = pick_date(rng, now_year)
            t, dflt = date_text(rng, lang, y, m, d, now_year)
            add(t, lang, ("read-default-year-" if dflt else "read-") + lang, expect={"t": "date", "days": daynum(y, m, d)},
                dflt=dflt)
        elif k < 0.36:
            # impossible dates
            y = rng.choice(SPECIAL_YEARS + [now_year]) if rng.random() < 0.6 else rng.randint(1, 9999)
            r = rng.random()
            if r < 0.3:
                m, d = rng.choice([4, 6, 9, 11]), 31
            elif r < 0.45:
                m, d = 2, rng.choice([30, 31])
            elif r < 0.7:
                while leap(y):
                    y = y + 1 if y < 9999 else y - 1
                m, d = 2, 29
            elif r < 0.8:
                m, d = rng.randint(1, 12), 0
            elif r < 0.9:
                m = rng.randint(1, 12)
                d = dim(y, m) + rng.choice([1, 1, 2, 10, 69])
            else:
                m, d = rng.choice([0, 13, 14, 24]), rng.randint(1, 28)
            if not (1 <= m <= 12):
                form = "dmy"
            elif y == now_year and rng.random() < 0.4:
                form = "d_M"
            else:
                form = rng.choice(spellings(lang))
            add(spell(rng, lang, y, m, d, form), lang, "impossible-" + lang, expect={"t": "notdate"}, ymd=[y, m, d],
                dflt=(form == "d_M"))
        elif k < 0.8:
            # date +/- N unit
            unit = rng.choice(["day", "day", "week", "month", "month", "year"])
            # today / tomorrow / yesterday only with days and weeks (their month is not known to the generator)
            t, base, dflt, ymd = a_date(rng, lang, now_year, unit in ("day", "week"))
            cnt = rng.choice(COUNTS[unit]) if rng.random() < 0.8 else rng.randint(0, {"day": 800, "week": 120,
                                                                                      "month": 60, "year": 3000}[unit])
            op = rng.choice("+-")
            sg = 1 if op == "+" else -1
            # `op` is the direction meant; signed counts and operators written without blanks (`12 jul 1997-1 year`
            # is read as the date and the signed literal -1 year) mean the same as the spaced form
            w = rng.choice(UNITS[lang][unit])
            r = rng.random()
            if ymd and ymd[0] <= 31:
                # `1 jan 4-5 days`: the en pattern 'Month day year' reads `jan 4 -5` as 4 january of the year -5 (the
                # written year is a possible day number and the signed count a year): ambiguous text, spaced form only
                r = 0.0
            if r < 0.7:
                text, form = "%s %s %d %s" % (t, op, cnt, w), "spaced"
            elif r < 0.82:
                text, form = "%s%s%d %s" % (t, op, cnt, w), "tight"
            elif r < 0.88:
                text, form = "%s %s%d %s" % (t, op, cnt, w), "prefix"
            elif op == "-":
                text, form = "%s +%s-%d %s" % (t, rng.choice(["", " "]), cnt, w), "plus-negative"
            else:
                text, form = "%s - -%d %s" % (t, cnt, w), "minus-negative"
            meta = {"unit": unit, "n": cnt, "op": op, "dflt": dflt, "ymd": list(ymd) if ymd else None, "form": form}
            if isinstance(base, tuple):
                exp = {"t": "today", "delta": base[1] + sg * cnt * (1 if unit == "day" else 7)}
            elif unit in ("day", "week"):
                exp = {"t": "date", "days": base + sg * cnt * (1 if unit == "day" else 7)}
            else:
                tgt = add_months(ymd[0], ymd[1], ymd[2], sg * cnt * (1 if unit == "month" else 12))
                exp = {"t": "date", "days": daynum(*tgt)} if tgt else {"t": "notdate"}
            add(text, lang, "arith-%s-%s" % (unit, lang), expect=exp, **meta)
        else:
            # A to B
            ta, a, da, _ = a_date(rng, lang, now_year, True)
            if rng.random() < 0.3 and not isinstance(a, tuple):
                # close dates
                y, m, d = civil(a + rng.randint(-40, 40))
                if 1 <= y <= 9999:
                    tb, db = date_text(rng, lang, y, m, d, now_year)
                    b = daynum(y, m, d)
                else:
                    tb, b, db, _ = a_date(rng, lang, now_year, True)
            else:
                tb, b, db, _ = a_date(rng, lang, now_year, True)
            if lang == "tr" and (da or db):
                continue                  # `31 ocak 5 ocak 2026 arası`: `31 ocak 5` would be read as a year-5 date
            for (t1, t2) in ((ta, tb), (tb, ta)):
                text = "%s to %s" % (t1, t2) if lang == "en" else "%s %s arası" % (t1, t2)
                add(text, lang, "to-" + lang, expect={"t": "diff", "a": a, "b": b}, dflt=(da or db))
    return cases


# ------------------------------------------------------------------ oracle
def nontrivial(c, rec):
    lines = last_lines(rec)
    if not lines or lines[0] is None:
        return False
    k, v = line_value(lines[0])
    return k == "item" and v["t"] in ("Date", "Duration")


def _abs_day(x, header):
    return header["today"] + x[1] if isinstance(x, (tuple, list)) else x


def spec_check(c, rec, header):
    m = c["meta"]
    exp = m.get("expect")
    if exp is None:
        return None
    if m.get("dflt") and m.get("gen_year") != header["year"]:
        return None                       # generated in another year than evaluated
    lines = last_lines(rec)
    if lines is None:
        return "evaluation panicked or hung"
    if len(lines) != 1:
        return "expected one line, got %r" % (lines,)
    k, v = line_value(lines[0])
    is_date = k == "item" and v["t"] == "Date"
    t = exp["t"]
    if t == "notdate":
        if is_date:
            ymd = m.get("ymd")
            if ymd and m["kind"].startswith("impossible") and (ymd[1], ymd[2]) == (2, 29) and leap(header["year"]):
                return None               # `29 feb` alone is a date of the current (leap) year
            return "an impossible date was accepted: got the date %r" % (civil(v["days"]),)
        return None
    if t == "diff":
        want = abs(_abs_day(exp["b"], header) - _abs_day(exp["a"], header)) * 86400
        if k != "item" or v["t"] != "Duration":
            return "expected a duration of %d s, got %s %r" % (want, k, v)
        if v["secs"] != want or v.get("nanos", 0) != 0:
            return "expected %d seconds (%d days), got %d" % (want, want // 86400, v["secs"])
        return None
    if t == "today":
        want = header["today"] + exp["delta"]
    else:
        want = exp["days"]
    if not is_date:
        return "expected the date %r, got %s %r" % (civil(want), k, v)
    if v["days"] != want:
        return "expected the date %r (day %d), got %r (day %d)" % (civil(want), want, civil(v["days"]), v["days"])
    if True:
        # a date is printed as its calendar date under every default zone (the zone moves clock times, not dates)
        text = printed(c["ops"][-1]["lang"], want, header["year"])
        if lines[0]["out"] != text:
            return "expected the text %r, got %r" % (text, lines[0]["out"])
    return None


def known_class(c, rec, verdict, known):
    """narrow, syntactic classes of the two recorded mechanisms (see known_findings.json)"""
    ids = {f["class"] for f in known}
    m = c["meta"]
    if not m.get("kind", "").startswith("arith-") or "unit" not in m:
        return None                       # (the pinned arith-zone / arith-year-month cases carry no class)
    unit, n, op, ymd = m["unit"], m["n"], m["op"], m.get("ymd")
    lines = last_lines(rec)
    failed = bool(lines) and len(lines) == 1 and line_value(lines[0])[0] == "err"
    cls = None
    if unit in ("day", "week") and n * (1 if unit == "day" else 7) >= 30:
        cls = CLASS_QUANT                 # 30 days or more are re-read as 365-day years and 30-day months
    elif unit == "month" and n >= 12 and n % 12 != 0 and ymd and (ymd[1], ymd[2]) == (2, 29) and failed:
        # the years are applied first: the intermediate 29 feb does not exist and the calculation fails
        cls = CLASS_QUANT
    elif unit == "month" and op == "-" and n % 12 != 0 and ymd and ymd[1] - n % 12 <= 0:
        # the month wraps below january but the year is not decreased; a failure belongs to the class only when
        # that wrong target (one year too late) does not exist: `29 jan 2026 - 23 months` visits 29 feb 2025
        if not failed or not valid(ymd[0] - n // 12, ymd[1] - n % 12 + 12, ymd[2]):
            cls = CLASS_BORROW
    return cls if cls in ids else None


def witness_fails(f, wc, rec, header):
    """the recorded witness still shows the recorded wrong output"""
    lines = last_lines(rec)
    if lines is None or not lines or lines[-1] is None:
        return False
    w = f["observed"]
    if "out" in w:
        return lines[-1].get("out") == w["out"]
    if "err" in w:
        k, v = line_value(lines[-1])
        return k == "err" and v == w["err"]
    return False
