"""Shared helpers for the per-property case generators and spec oracles."""
import struct, math


def bits(x):
    return struct.unpack("<Q", struct.pack("<d", float(x)))[0]


def from_bits(b):
    return struct.unpack("<d", struct.pack("<Q", int(b)))[0]


def exec_case(text, lang="en", pre=None, kind="?", **meta):
    ops = list(pre or []) + [{"op": "exec", "lang": lang, "text": text}]
    m = dict(meta)
    m["kind"] = kind
    return {"ops": ops, "meta": m}


def last_lines(rec):
    """lines of the last exec observation of a record, or None (panic/hang)"""
    if rec is None or rec.get("hang") or rec.get("crash"):
        return None
    obs = rec["obs"][-1]
    if "panic" in obs:
        return None
    return obs.get("lines")


def line_value(line):
    """(kind, payload) of one line observation"""
    if line is None:
        return ("none", None)
    if "err" in line:
        return ("err", line["err"])
    a = line["ast"]
    if a["a"] == "Item":
        return ("item", a["v"])
    return ("other", a)


def same_float(a, b):
    if math.isnan(a) and math.isnan(b):
        return True
    return a == b


def do_division(l, r):
    try:
        c = l / r
    except ZeroDivisionError:
        return 0.0
    except OverflowError:
        return 0.0
    if math.isinf(c) or math.isnan(c):
        return 0.0
    return c


def fmt_dec(v, dsep=",", tsep=None):
    """a decimal literal for a python float that has a short exact decimal expansion"""
    s = repr(float(v))
    if "inf" in s or "nan" in s:
        raise ValueError("unrenderable literal %r" % v)
    if "e" in s or "E" in s:
        import decimal
        s = format(decimal.Decimal(s), "f")           # 1e-16 -> 0.0000000000000001 (exactly the shortest digits)
        if "." not in s:
            s += ".0"
    if s.endswith(".0"):
        s = s[:-2]
    neg = s.startswith("-")
    if neg:
        s = s[1:]
    ip, _, fp = s.partition(".")
    if tsep and len(ip) > 3:
        out = []
        while len(ip) > 3:
            out.insert(0, ip[-3:])
            ip = ip[:-3]
        out.insert(0, ip)
        ip = tsep.join(out)
    r = ip + (dsep + fp if fp else "")
    return ("-" if neg else "") + r


_SEP_FLIP = [0]


def sep_ops(dsep, tsep):
    """the two separator setters, in alternating order from call to call: the configuration reached must not depend on
    the order in which set_decimal_seperator and set_thousand_separator are called (grouping first is as legal as
    decimal first, also when the new grouping character equals the decimal separator still in force)"""
    ops = [{"op": "set_dec", "v": dsep}, {"op": "set_thou", "v": tsep}]
    _SEP_FLIP[0] += 1
    if _SEP_FLIP[0] % 2 == 0:
        ops.reverse()
    return ops
