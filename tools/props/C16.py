"""C16 - blanks, comments and the letter case of keywords never change a value.

A case is ONE history on one calculator: the ORIGINAL line (text) is evaluated first, then 1-4 REWRITTEN variants of the
same line.  Lines are built from token lists (text, keyword class, minimal separator), so the generator knows where the
token boundaries are and which word belongs to which keyword class.  The oracle (written from the property statement,
independent of the model) demands for every line of every variant the VALUE of the original line: kind of the result,
token type, float bits, seconds / days, currency / unit / zone, error text - not the printed text.  Blank-only and
comment-only lines must give an empty slot."""
import json
from .common import *

ALLOWED_AXIOMS = []
DETAIL = 0
RULE = ("lines built from token lists over all feature areas (arithmetic with parentheses and word operators, the seven "
        "percent phrases, money literals / conversion / arithmetic with currency codes, aliases and symbols, durations, "
        "dates in four forms and date arithmetic, times / zones / zone conversion / unix time, unit conversions, based "
        "integers, variables defined and used across the lines of one text; en mainly, a tr subset) x rewritings: extra "
        "blanks (1-4) at token boundaries (a literal - number with sign, suffix, %, currency symbol, am/pm, GMT+h - is one "
        "token and never split; touching tokens like `5/3/2020`, `(1 + 2)`, `x=3` are separated), leading / trailing "
        "blanks, ` # comment` appended with and without a blank in front (comment texts with month names, numbers, "
        "operators, keywords, variable names, `#`), random letter case separately on currency codes and aliases, month "
        "names, zone names, connectives (to of on off as in at is what into) and other words of the rule patterns (date, "
        "unix), word operators (times, minus, ...), variable names on definition vs use, and one variant combining all; "
        "plus texts made of blank-only and comment-only lines, alone and between evaluable lines; non-trivial = the "
        "original evaluates to a value on every line and a variant differs textually; distinct = distinct history")
ASSUMPTIONS = ["a blank is the space character U+0020 (the statement says spaces); tabs are not generated",
               "token boundaries are those of the generator's token lists: a numeric literal with its sign, magnitude "
               "suffix, '%', attached currency symbol, meridiem (`3 pm`) or `GMT+3` offset is ONE token and no blank is "
               "inserted inside it",
               "letter case is changed only on the keyword classes named by the statement (currency codes and aliases, "
               "month names, zone names, connectives / rule words, variable names) and only on letters c with "
               "lower(upper(c)) = c (not on Turkish dotless i); duration unit words, unit names, number-type words "
               "(hex ...) and constants (today ...) keep their case",
               "zone names that are also currency codes and unit / keyword words are not used as variable names"]

CONFIG = json.load(open("/repo/src/json/config.json", encoding="utf-8"))


# ---------------------------------------------------------------- tokens
class T:
    """one token: text, keyword class, separator in front of it in the original ('' = may touch the previous token)"""
    __slots__ = ("text", "cls", "sep")

    def __init__(self, text, cls="lit", sep=" "):
        self.text, self.cls, self.sep = text, cls, sep


CASE_CLASSES = ["cur", "month", "zone", "conn", "kw", "opword", "var"]


def lit(x, sep=" "):
    return T(str(x), "lit", sep)


def op(x, sep=" "):
    return T(x, "op", sep)


def conn(x):
    return T(x, "conn")


def render(tokens, extra=None, lead="", trail=""):
    out = []
    for i, t in enumerate(tokens):
        if i:
            out.append(t.sep + (" " * extra[i] if extra else ""))
        out.append(t.text)
    return lead + "".join(out) + trail


def recase_word(rng, w, force=None):
    """a spelling of w with the same lower-case image"""
    def safe(c):
        u = c.upper()
        return len(u) == 1 and u.lower() == c and u != c
    style = force or rng.choice(["upper", "cap", "random", "random"])
    if style == "upper":
        r = "".join(c.upper() if safe(c) else c for c in w)
    elif style == "cap":
        r = (w[0].upper() if safe(w[0]) else w[0]) + w[1:]
    elif style == "lower":
        r = "".join(c.lower() if (c.lower() != c and c.lower().upper() == c and len(c.lower()) == 1) else c for c in w)
    else:
        r = "".join(c.upper() if safe(c) and rng.random() < 0.5 else c for c in w)
    return r


def recase_tokens(rng, tokens, classes, var_mode=None):
    """copies of the tokens with the words of the given classes re-spelled; var_mode: 'def' / 'use' / None (both)"""
    out, changed = [], False
    for t in tokens:
        text = t.text
        if t.cls in classes:
            if t.cls == "zone" and text == text.upper():
                text2 = recase_word(rng, text.lower(), rng.choice(["lower", "cap", "random"]))
            else:
                text2 = recase_word(rng, text)
            changed = changed or text2 != text
            text = text2
        out.append(T(text, t.cls, t.sep))
    return out, changed


# ---------------------------------------------------------------- vocabulary
CUR_CODES = ["usd", "try", "eur", "dkk", "sek", "gbp", "jpy", "bgn", "chf", "cad"]
CUR_ALIAS = ["dollar", "euro", "tl", "kroner", "leva", "avro", "kr"]
CUR_SYM = ["$", "€", "₺"]
MONTHS_EN = ["january", "february", "march", "april", "may", "june", "july", "august", "september", "october", "november",
             "december", "jan", "feb", "mar", "apr", "jun", "jul", "aug", "sep", "oct", "nov", "dec"]
# without the ASCII spellings subat / agustos / eylul / kasim / aralik (not read as months: C19's finding) and without
# names containing dotless i (no case change keeps their lower-case image)
MONTHS_TR = ["ocak", "şubat", "mart", "nisan", "haziran", "temmuz", "ağustos", "eylül", "ekim", "oca", "mar", "nis", "haz",
             "tem", "eki", "kas", "ara"]
CURRENCY_CODES = {k.upper() for k in CONFIG["currencies"]}
ZONES = ["EST", "GMT", "CET", "PST", "UTC", "EET", "CEST", "EDT", "AEST", "HKT", "MSK", "BST", "CST"]
ZONES = [z for z in ZONES if z in CONFIG["timezones"] and z not in CURRENCY_CODES]
TO = ["to", "in", "as", "into"]
DUR = ["second", "seconds", "minute", "minutes", "hour", "hours", "day", "days", "week", "weeks", "month", "months", "year",
       "years"]
LEN_M = ["mm", "cm", "dm", "m", "dam", "hm", "km", "meter", "kilometer"]
W_M = ["mg", "g", "kg", "tonne", "gram"]
MEM = ["bit", "byte", "kb", "mb", "gb", "tb", "kilobyte"]
LEN_I = ["inch", "ft", "yard", "mile", "foot"]
FAMILIES = [LEN_M, W_M, MEM, LEN_I]
OPWORDS_EN = {"times": "*", "multiply": "*", "divide": "/", "add": "+", "sum": "+", "append": "+", "exclude": "-", "minus": "-"}
OPWORDS_TR = {"kere": "*", "carpi": "*", "ekle": "+", "topla": "+", "eksi": "-", "cikar": "-"}
VARNAMES = ["x", "y", "price", "total", "rate", "tax", "my var", "net total", "alpha", "result", "q",
            # names with letters outside ASCII: their case is folded by the Unicode rules, not the ASCII ones
            "ürün", "ödeme", "τιμή", "цена", "gümüş ücret"]
VARNAMES_TR = ["x", "fiyat", "toplam tutar", "oran", "sonuc", "ürün", "ödeme", "gümüş ücret"]


def num(rng, small=False):
    k = rng.random()
    if small:
        return str(rng.randint(1, 99))
    if k < 0.55:
        return str(rng.randint(0, 999))
    if k < 0.75:
        return "%d,%d" % (rng.randint(0, 999), rng.randint(1, 99))
    if k < 0.85:
        return "%d.%03d" % (rng.randint(1, 99), rng.randint(0, 999))
    if k < 0.92:
        return "-" + str(rng.randint(1, 500))
    return str(rng.randint(1, 20)) + rng.choice(["k", "M"])


def pnum(rng):
    return str(rng.randint(1, 500)) if rng.random() < 0.7 else "%d,%d" % (rng.randint(0, 99), rng.randint(1, 9))


def pct(rng):
    v = rng.choice(["5", "10", "12,5", "25", "50", "150", str(rng.randint(1, 99))])
    return lit(v + "%") if rng.random() < 0.8 else lit("%" + v)


def cur_tok(rng):
    if rng.random() < 0.75:
        return T(rng.choice(CUR_CODES), "cur")
    return T(rng.choice(CUR_ALIAS), "cur")


def money(rng):
    """tokens of a money literal"""
    k = rng.random()
    if k < 0.2:
        return [lit(rng.choice(CUR_SYM) + pnum(rng))]
    if k < 0.28:
        return [lit(pnum(rng) + rng.choice(CUR_SYM))]
    return [lit(pnum(rng)), cur_tok(rng)]


def words(name, cls):
    return [T(w, cls) for w in name.split(" ")]


def month_en(rng):
    return T(rng.choice(MONTHS_EN), "month")


def date_en(rng, with_year=True):
    d, y = rng.randint(1, 28), rng.randint(1990, 2035)
    k = rng.randrange(4 if with_year else 1)
    if not with_year:
        return [lit(d), month_en(rng)]
    if k == 0:
        return [lit(d), month_en(rng), lit(y)]
    if k == 1:
        # `17,` is ONE literal for the lexer (the number syntax [0-9]+[0-9.,]* takes the comma): either the literal with
        # its comma, or the comma as a token of its own, apart from the day
        if rng.random() < 0.6:
            return [month_en(rng), lit("%d," % d), lit(y)]
        return [month_en(rng), lit(d), op(","), lit(y)]
    if k == 2:
        return [month_en(rng), lit(d), lit(y)]
    return [lit(d), op("/", ""), lit(rng.randint(1, 12), ""), op("/", ""), lit(y, "")]


def time_lit(rng):
    h, m = rng.randint(0, 23), rng.randint(0, 59)
    k = rng.random()
    if k < 0.55:
        return lit("%d:%02d" % (h, m))
    if k < 0.7:
        return lit("%02d:%02d:%02d" % (h, m, rng.randint(0, 59)))
    if k < 0.85:
        return lit("%d:%02d %s" % (rng.randint(1, 11), m, rng.choice(["am", "pm", "PM"])))
    return lit("%d%s" % (rng.randint(1, 11), rng.choice(["am", "pm"])))


def zone_tok(rng):
    if rng.random() < 0.8:
        return T(rng.choice(ZONES), "zone")
    return T("GMT%s%d" % (rng.choice(["+", "-"]), rng.randint(1, 12)), "zone")


def dur_en(rng, n=None):
    n = n or rng.randint(1, 3)
    units = rng.sample(["year", "month", "week", "day", "hour", "minute", "second"], n)
    units.sort(key=["year", "month", "week", "day", "hour", "minute", "second"].index)
    out = []
    for u in units:
        c = rng.randint(1, 40)
        out += [lit(c), T(u if c == 1 and rng.random() < 0.7 else u + "s", "dur")]
    return out


# ---------------------------------------------------------------- feature areas: -> (kind, [line tokens, ...])
def f_arith(rng):
    n = rng.randint(2, 4)
    toks = []
    par = n >= 3 and rng.random() < 0.45
    for i in range(n):
        if i:
            if rng.random() < 0.2:
                w = rng.choice(sorted(OPWORDS_EN))
                toks.append(T(w, "opword"))
            else:
                toks.append(op(rng.choice("+-*/"), rng.choice([" ", " ", " ", ""])))
        nsep = " " if (not toks or toks[-1].sep == " " or toks[-1].cls == "opword") else ""
        if par and i == 0:
            toks.append(op("(", nsep))
            toks.append(lit(num(rng), ""))
        else:
            v = num(rng)
            # a signed literal directly behind an operator is kept apart from it
            toks.append(lit(v, " " if v.startswith("-") else nsep))
        if par and i == 1:
            toks.append(op(")", ""))
    return "arith", [toks]


def f_percent(rng):
    x = money(rng) if rng.random() < 0.4 else [lit(pnum(rng))]
    p = pct(rng)
    j = rng.randrange(9)
    if j == 0:
        return "pct-plus", [x + [op("+"), p]]
    if j == 1:
        return "pct-minus", [x + [op("-"), p]]
    if j == 2:
        return "pct-of", [[p, conn("of")] + x]
    if j == 3:
        return "pct-on", [[p, conn("on")] + x]
    if j == 4:
        return "pct-off", [[p, conn("off")] + x]
    if j == 5:
        return "pct-what", [[lit(pnum(rng)), conn("is"), conn("what"), op("%"), conn("of"), lit(pnum(rng))]]
    if j == 6:
        return "pct-of-what", [x + [conn("is"), p, conn("of"), conn("what")]]
    if j == 7:
        return "pct-of-rev", [x + [conn(rng.choice(["of", "on", "off"])), p]]
    return "pct-juxta", [[lit(pnum(rng)), p]]


def f_money(rng):
    j = rng.randrange(7)
    if j == 0:
        return "money-lit", [money(rng)]
    if j <= 2:
        return "money-conv", [money(rng) + [conn(rng.choice(TO)), cur_tok(rng)]]
    if j == 3:
        return "money-conv-juxta", [money(rng) + [cur_tok(rng)]]
    if j == 4:
        return "money-add", [money(rng) + [op(rng.choice("+-"))] + money(rng)]
    if j == 5:
        return "money-scale", [money(rng) + [op(rng.choice("*/")), lit(pnum(rng))]]
    return "money-add-conv", [money(rng) + [op("+")] + money(rng) + [conn(rng.choice(TO)), cur_tok(rng)]]


def f_duration(rng):
    j = rng.randrange(4)
    if j == 0:
        return "dur-seq", [dur_en(rng)]
    if j == 1:
        return "dur-arith", [dur_en(rng, 1) + [op(rng.choice("+-"))] + dur_en(rng, 1)]
    if j == 2:
        return "dur-as", [dur_en(rng, rng.randint(1, 2)) + [conn(rng.choice(TO)),
                                                             T(rng.choice(["seconds", "minutes", "hours", "days", "weeks"]), "dur")]]
    return "dur-time", [[time_lit(rng), op(rng.choice("+-"))] + dur_en(rng, 1)]


def f_date(rng):
    j = rng.randrange(7)
    if j == 0:
        return "date-lit", [date_en(rng)]
    if j == 1:
        return "date-short", [date_en(rng, with_year=False)]
    if j <= 3:
        return "date-arith", [date_en(rng) + [op(rng.choice("+-"))] + dur_en(rng, 1)]
    if j == 4:
        return "date-to-date", [date_en(rng) + [conn("to")] + date_en(rng)]
    if j == 5:
        return "date-at", [date_en(rng) + [conn("at"), lit("%d:%02d" % (rng.randint(0, 23), rng.randint(0, 59)))]]
    return "date-unix", [date_en(rng) + [conn(rng.choice(TO)), T(rng.choice(["unix", "unixtime"]), "kw")]]


def f_time(rng):
    j = rng.randrange(8)
    if j == 0:
        return "time-lit", [[time_lit(rng)]]
    if j == 1:
        return "time-zone", [[time_lit(rng), zone_tok(rng)]]
    if j <= 3:
        return "time-zone-conv", [[time_lit(rng), zone_tok(rng), conn(rng.choice(TO)), zone_tok(rng)]]
    if j == 4:
        return "time-to-time", [[lit("%d:%02d" % (rng.randint(0, 23), rng.randint(0, 59))), conn("to"),
                                 lit("%d:%02d" % (rng.randint(0, 23), rng.randint(0, 59)))]]
    if j == 5:
        return "unix-to-zone", [[lit(rng.randint(10 ** 8, 2 * 10 ** 9)), conn(rng.choice(TO)), zone_tok(rng)]]
    if j == 6:
        return "unix-to-date", [[lit(rng.randint(10 ** 8, 2 * 10 ** 9)), conn(rng.choice(TO)), T("date", "kw")]]
    return "time-to-unix", [[time_lit(rng), zone_tok(rng), conn(rng.choice(TO)), T("unix", "kw")]]


def f_unit(rng):
    fam = rng.choice(FAMILIES)
    j = rng.randrange(4)
    if j <= 1:
        return "unit-conv", [[lit(pnum(rng)), T(rng.choice(fam), "unit"), conn(rng.choice(TO)), T(rng.choice(fam), "unit")]]
    if j == 2:
        return "unit-add", [[lit(pnum(rng)), T(rng.choice(fam), "unit"), op(rng.choice("+-")), lit(pnum(rng)),
                             T(rng.choice(fam), "unit")]]
    return "unit-lit", [[lit(pnum(rng)), T(rng.choice(fam), "unit")]]


def f_based(rng):
    v = rng.randint(0, 5000)
    j = rng.randrange(5)
    based = rng.choice(["0x%X" % v, "0x%x" % v, "0b" + bin(v)[2:], "0o" + oct(v)[2:]])
    if j == 0:
        return "based-lit", [[lit(based)]]
    if j == 1:
        return "based-arith", [[lit(based), op(rng.choice("+-*")), lit(rng.randint(1, 99))]]
    if j <= 3:
        return "based-conv", [[lit(v if j == 2 else based), conn(rng.choice(TO)),
                               T(rng.choice(["hex", "hexadecimal", "octal", "binary", "decimal"]), "ntype")]]
    return "based-conv-juxta", [[lit(v), T(rng.choice(["hex", "octal", "binary"]), "ntype")]]


def f_vars(rng):
    name = rng.choice(VARNAMES)
    d = words(name, "vardef")
    u = lambda: words(name, "var")
    eqsep = rng.choice([" ", " ", ""])
    j = rng.randrange(7)
    if j == 0:
        return "var-number", [d + [op("=", eqsep), lit(num(rng), eqsep)], u() + [op(rng.choice("+-*/")), lit(pnum(rng))], u()]
    if j == 1:
        return "var-money", [d + [op("=", eqsep)] + [T(t.text, t.cls, eqsep if i == 0 else t.sep) for i, t in enumerate(money(rng))],
                             u() + [conn(rng.choice(TO)), cur_tok(rng)], u() + [op("+"), pct(rng)]]
    if j == 2:
        fam = rng.choice(FAMILIES)
        return "var-unit", [d + [op("="), lit(pnum(rng)), T(rng.choice(fam), "unit")],
                            u() + [conn(rng.choice(TO)), T(rng.choice(fam), "unit")]]
    if j == 3:
        return "var-percent", [d + [op("="), pct(rng)], [lit(pnum(rng)), op("+")] + u(), u() + [conn("of"), lit(pnum(rng))]]
    if j == 4:
        name2 = rng.choice([n for n in VARNAMES if n != name and n.split(" ")[0] != name.split(" ")[0]])
        d2, u2 = words(name2, "vardef"), words(name2, "var")
        return "var-chain", [d + [op("="), lit(pnum(rng))], d2 + [op("=")] + u() + [op(rng.choice("*/+")), lit(pnum(rng))],
                             u() + [op("+")] + u2, u2]
    if j == 5:
        return "var-date", [d + [op("=")] + date_en(rng), u() + [op("+")] + dur_en(rng, 1)]
    return "var-time", [d + [op("="), time_lit(rng), zone_tok(rng)], u() + [conn(rng.choice(TO)), zone_tok(rng)]]


def f_tr(rng):
    j = rng.randrange(8)
    if j == 0:
        return "tr-money", [[lit(pnum(rng)), T(rng.choice(["usd", "try", "eur", "tl", "avro"]), "cur"),
                             T(rng.choice(["usd", "try", "eur", "dkk"]), "cur")]]
    if j == 1:
        d, y = rng.randint(1, 28), rng.randint(1990, 2035)
        return "tr-date", [[lit(d), T(rng.choice(MONTHS_TR), "month"), lit(y)]]
    if j == 2:
        d, y = rng.randint(1, 28), rng.randint(1990, 2035)
        return "tr-date-arith", [[lit(d), T(rng.choice(MONTHS_TR), "month"), lit(y), op(rng.choice("+-")), lit(rng.randint(1, 20)),
                                  T(rng.choice(["gün", "gun", "hafta", "ay"]), "dur")]]
    if j == 3:
        return "tr-arith", [[lit(pnum(rng)), T(rng.choice(sorted(OPWORDS_TR)), "opword"), lit(pnum(rng))]]
    if j == 4:
        return "tr-percent", [[lit(pnum(rng)), op(rng.choice("+-")), pct(rng)]]
    if j == 5:
        return "tr-to-duration", [[lit("%d:%02d" % (rng.randint(0, 23), rng.randint(0, 59))),
                                   lit("%d:%02d" % (rng.randint(0, 23), rng.randint(0, 59))), T("arası", "kw")]]
    if j == 6:
        name = rng.choice(VARNAMES_TR)
        return "tr-var", [words(name, "vardef") + [op("="), lit(pnum(rng)), T(rng.choice(["usd", "try", "eur"]), "cur")],
                          words(name, "var") + [op("*"), lit(rng.randint(2, 9))]]
    return "tr-duration", [[lit(rng.randint(1, 30)), T(rng.choice(["saat", "dakika", "saniye", "hafta"]), "dur"),
                            lit(rng.randint(1, 30)), T(rng.choice(["dakika", "saniye"]), "dur")]]


FEATURES = [(f_arith, 12), (f_percent, 12), (f_money, 14), (f_duration, 8), (f_date, 14), (f_time, 14), (f_unit, 8),
            (f_based, 6), (f_vars, 16)]

COMMENT_TEXTS = ["note", "march 2020", "jan", "5 + 3", "* 2", "10 usd to try", "to hex", "# again", "#", "", " ", "x = 9",
                 "50%", "est", "12:30 pm", "today", "2 hours", "price", "(", ")", "= 1", "ağustos", "$5", "- 1", "/ 0",
                 "of what", "[NUMBER:3]", "{NUMBER:n}", "1k", "0x10", "GMT+3", "kere 2", "mart",
                 # comments whose text has multi-byte characters (the comment span is a BYTE span) and that end in
                 # something evaluable: a number, an operator with operand, a percentage, a conversion
                 # a comment that itself contains a '#', with a month name in front of it (the month parser scans the line up
                 # to the FIRST '#')
                 "paid in june # ref 7", "due in june = 30 # confirmed", "rate of mart = 1 # old", "# june # 5",
                 "-" * 130 + " see ticket 5", "x" * 150 + " total 2021: 7", "note " * 40 + "+ 3",
                 "ödeme 3", "😀 x2", "ücret + 7", "½ * 2", "şubat ığüçö 10%", "τιμή 5", "€€€€ to try", "日本語 - 4", "ığüşöç 1k"]


# ---------------------------------------------------------------- rewritings
def rw_blanks(rng, lines):
    out = []
    for toks in lines:
        extra = [0] * len(toks)
        if len(toks) > 1:
            for i in range(1, len(toks)):
                if rng.random() < 0.6:
                    extra[i] = rng.randint(1, 4)
            if not any(extra):
                extra[rng.randrange(1, len(toks))] = rng.randint(1, 3)
        out.append(render(toks, extra))
    return out


def rw_ends(rng, lines):
    out = []
    for toks in lines:
        k = rng.randrange(3)
        lead = " " * rng.randint(1, 4) if k != 1 else ""
        trail = " " * rng.randint(1, 4) if k != 0 else ""
        out.append(render(toks, None, lead, trail))
    return out


def rw_comment(rng, lines, lang):
    out = []
    varnames = [t.text for toks in lines for t in toks if t.cls == "vardef"]
    for toks in lines:
        c = rng.choice(COMMENT_TEXTS + varnames)
        out.append(render(toks) + rng.choice([" ", " ", "", "  "]) + "#" + rng.choice(["", " "]) + c)
    return out


def rw_case(rng, lines, classes):
    out, changed = [], False
    for toks in lines:
        toks2, ch = recase_tokens(rng, toks, classes)
        changed = changed or ch
        out.append(render(toks2))
    return out, changed


def classes_present(lines):
    return sorted({("var" if t.cls == "vardef" else t.cls) for toks in lines for t in toks})


def compact(rng, lines):
    """let operators touch their neighbours in the original (`8/2`, `x=3`, `(1 + 2)*3`, `what%of`): the blanks rewriting
    then inserts blanks where there were none.  A signed literal stays apart from the operator in front of it."""
    out = []
    for toks in lines:
        toks = [T(t.text, t.cls, t.sep) for t in toks]
        if rng.random() < 0.3:
            for i, t in enumerate(toks):
                if t.cls == "op" and t.text in "+-*/=%()" and rng.random() < 0.7:
                    if i and t.text != "(":
                        t.sep = ""
                    if i + 1 < len(toks) and t.text != ")" and toks[i + 1].text[:1] not in "-+":
                        toks[i + 1].sep = ""
        out.append(toks)
    return out


def make_case(rng, kind, lines, lang, compacted=False, extra=()):
    """one history: the original text, then the variants (extra: fixed variants, as (kinds, classes, text lines))"""
    if not compacted:
        lines = compact(rng, lines)
    orig = [render(toks) for toks in lines]
    present = classes_present(lines)
    variants = []                      # (rewriting kinds, keyword classes, text lines)
    variants.append((["blanks"], [], rw_blanks(rng, lines)))
    variants.append((["comment"], [], rw_comment(rng, lines, lang)))
    if rng.random() < 0.5:
        variants.append((["ends"], [], rw_ends(rng, lines)))
    case_variants = []
    for cl in present:
        if cl == "var":
            # definition vs use: re-spell only the definitions, only the uses, or each occurrence on its own
            mode = rng.choice(["vardef", "var", "both"])
            cls = {"vardef"} if mode == "vardef" else {"var"} if mode == "var" else {"var", "vardef"}
            v, ch = rw_case(rng, lines, cls)
            if ch:
                case_variants.append((["case"], ["var:" + mode], v))
        elif cl in CASE_CLASSES:
            v, ch = rw_case(rng, lines, {cl})
            if ch:
                case_variants.append((["case"], [cl], v))
    rng.shuffle(case_variants)
    variants += case_variants[:2]
    if rng.random() < 0.35:
        # everything at once
        cls = {c for c in present if c in CASE_CLASSES} | ({"vardef"} if "var" in present else set())
        toks2 = [recase_tokens(rng, toks, cls)[0] for toks in lines]
        v = [l + rng.choice(["", " # " + rng.choice(COMMENT_TEXTS)]) for l in rw_ends(rng, [
            [T(t.text, t.cls, t.sep + " " * rng.choice([0, 0, 1, 2])) if i else t for i, t in enumerate(toks)] for toks in toks2])]
        variants.append((["blanks", "ends", "comment", "case"], sorted(c if c != "vardef" else "var:both" for c in cls), v))
    variants += list(extra)
    variants = [v for v in variants if v[2] != orig]
    ops = [{"op": "exec", "lang": lang, "text": "\n".join(orig)}]
    for _, _, v in variants:
        ops.append({"op": "exec", "lang": lang, "text": "\n".join(v)})
    meta = {"kind": kind, "lang": lang, "nlines": len(orig),
            "rewrites": [{"kinds": k, "classes": c} for k, c, _ in variants],
            # which lines of the original contain a word of which class (for narrow known classes)
            "line_classes": [sorted({t.cls for t in toks}) for toks in lines],
            "touching": [any(t.sep == "" for t in toks[1:]) for toks in lines],
            # a binary '-' written directly in front of a digit (`2020-1 month`): the lexer reads the sign into the literal
            "minus_touch": [any(t.cls == "op" and t.text == "-" and i + 1 < len(toks) and toks[i + 1].sep == ""
                                and toks[i + 1].text[:1].isdigit() for i, t in enumerate(toks)) for toks in lines],
            # a binary '+' / '-' directly in front of a digit with a word (unit, duration word, to in as into ...) later in
            # the line: a rule or unit pattern has to start at the signed literal
            "sign_touch_conv": [any(t.cls == "op" and t.text in "+-" and i + 1 < len(toks) and toks[i + 1].sep == ""
                                    and toks[i + 1].text[:1].isdigit()
                                    and any(u.cls not in ("lit", "op") for u in toks[i + 2:])
                                    for i, t in enumerate(toks)) for toks in lines]}
    return {"ops": ops, "meta": meta}


def empty_case(rng, i):
    """texts whose lines are blank-only / comment-only, alone and between evaluable lines"""
    def noise():
        k = rng.random()
        if k < 0.35:
            return " " * rng.randint(1, 6)
        return " " * rng.randint(0, 3) + "#" + rng.choice(["", " "]) + rng.choice(COMMENT_TEXTS) + " " * rng.randint(0, 2)
    if i < 6:
        # the bare marker: a comment with no text is still a comment
        text = ["#", " #", "#  ", "   #   ", "#\n#", "a = 4\n#\na * 2"][i]
        empties = [k for k, l in enumerate(text.split("\n")) if l.strip() == "#"]
        return {"ops": [{"op": "exec", "lang": "en", "text": text}],
                "meta": {"kind": "bare-marker", "empty": [empties], "nlines": text.count("\n") + 1, "rewrites": []}}
    if i % 3 == 0:
        lines, expect = [noise()], [None]
        ops = [{"op": "exec", "lang": rng.choice(["en", "en", "tr"]), "text": lines[0]}]
        return {"ops": ops, "meta": {"kind": "noise-only", "empty": [[0]], "nlines": 1, "rewrites": []}}
    if i % 3 == 1:
        n = rng.randint(2, 5)
        lines = [noise() for _ in range(n)]
        return {"ops": [{"op": "exec", "lang": "en", "text": "\n".join(lines)}],
                "meta": {"kind": "noise-lines", "empty": [list(range(n))], "nlines": n, "rewrites": []}}
    # evaluable lines with noise lines in between: the values of the evaluable lines are those of the text without noise
    a, b = rng.randint(1, 99), rng.randint(1, 99)
    prog = ["v = %d" % a, "v * %d" % b, "v + 1"]
    mixed, empty, keep = [], [], []
    for l in prog:
        while rng.random() < 0.55:
            empty.append(len(mixed))
            mixed.append(noise())
        keep.append(len(mixed))
        mixed.append(l)
    if rng.random() < 0.5:
        empty.append(len(mixed))
        mixed.append(noise())
    if not empty:
        empty.append(len(mixed))
        mixed.append("   ")
    ops = [{"op": "exec", "lang": "en", "text": "\n".join(prog)}, {"op": "exec", "lang": "en", "text": "\n".join(mixed)}]
    return {"ops": ops, "meta": {"kind": "noise-between", "empty": [[], empty], "keep": keep, "nlines": 3, "rewrites": []}}


PINNED = [
    ("arith", "en", [[lit(3), op("+"), lit(4), op("*"), lit(2)]]),
    ("date-lit", "en", [[lit(3), T("march", "month"), lit(2020)]]),
    ("money-conv", "en", [[lit(10), T("usd", "cur"), conn("to"), T("try", "cur")]]),
    ("time-zone-conv", "en", [[lit("12:30"), T("EST", "zone"), conn("to"), T("GMT", "zone")]]),
    ("pct-what", "en", [[lit(10), conn("is"), conn("what"), op("%"), conn("of"), lit(50)]]),
    ("dur-seq", "en", [[lit(1), T("hour", "dur"), lit(5), T("minutes", "dur")]]),
    ("based-conv", "en", [[lit(100), conn("to"), T("hex", "ntype")]]),
    ("unit-conv", "en", [[lit(5), T("kb", "unit"), conn("to"), T("mb", "unit")]]),
    ("var-number", "en", [[T("x", "vardef"), op("="), lit(3)], [T("x", "var"), op("+"), lit(1)]]),
    ("date-at", "en", [[lit(5), T("march", "month"), lit(2020), conn("at"), lit("12:30")]]),
    # a variable re-assigned and used: every occurrence may be written in another letter case
    ("var-reassign", "en", [[T("total", "vardef"), op("="), lit(1)], [T("total", "vardef"), op("="), lit(2)],
                            [T("total", "var"), op("+"), lit(1)]]),
    ("var-reassign", "en", [[T("rate", "vardef"), op("="), lit(5)], [T("rate", "vardef"), op("="), T("rate", "var"), op("*"), lit(2)],
                            [T("rate", "var")]]),
    # '-' directly in front of the digit: date + negative duration (was C16-K1, repaired in /repo acb6397)
    ("date-arith", "en", [[lit(12), T("jul", "month"), lit(1997), op("-", ""), lit(1, ""), T("year", "dur")]]),
    ("date-arith", "en", [[lit(5), T("jan", "month"), lit(2020), op("-", ""), lit(1, ""), T("month", "dur")]]),
    # known finding C16-K2: '+' directly in front of the digit, a conversion behind the second operand
    ("money-add-conv", "en", [[lit(450), T("chf", "cur"), op("+", ""), lit(250, ""), T("dollar", "cur"), conn("as"),
                               T("jpy", "cur")]]),
    ("unix-to-date", "en", [[lit(1600000000), op("+", ""), lit(60, ""), conn("to"), T("date", "kw")]]),
    ("unit-add", "en", [[lit(5), op("+", ""), lit(3, ""), T("km", "unit")]]),
]


def api_rule_cases(rng):
    """a custom rule whose pattern has capitalised literal words: the words of the line match in any letter case"""
    out = []
    rule = {"op": "add_rule", "lang": "en", "patterns": ["Price Of {TEXT:coin}", "{NUMBER:n} Cups Of {TEXT:what}"], "name": "price",
            "kind": "const_number", "k": str(bits(1000.0)), "cur": ""}
    for orig, variants in (("Price Of btc", ["price of btc", "PRICE OF btc", "Price of btc", "pRiCe oF btc"]),
                           ("3 Cups Of tea + 1", ["3 cups of tea + 1", "3 CUPS OF tea + 1", "3 Cups of tea + 1"]),
                           ("price of btc * 2", ["Price Of btc * 2", "PRICE of btc * 2"])):
        ops = [rule, {"op": "exec", "lang": "en", "text": orig}] + [{"op": "exec", "lang": "en", "text": v} for v in variants]
        out.append({"ops": ops, "meta": {"kind": "api-rule-words", "lang": "en", "nlines": 1, "pre": 1,
                                          "rewrites": [{"kinds": ["case"], "classes": ["kw"]} for _ in variants],
                                          "line_classes": [["kw"]], "touching": [False], "minus_touch": [False],
                                          "sign_touch_conv": [False]}})
    return out


def generate(rng, tier):
    n = 640 if tier == "quick" else 6000
    cases = api_rule_cases(rng)
    for kind, lang, lines in PINNED:
        for k in range(6 if kind == "var-reassign" else 1):
            extra = []
            if kind == "var-reassign" and k == 0:
                # fixed spellings: the first definition capitalised / upper-cased, the second as written, the use in a
                # third case (a second map entry under another key would win or lose by byte order)
                for styles in (("cap", "lower", "lower"), ("upper", "lower", "cap"), ("lower", "upper", "lower"),
                               ("cap", "upper", "lower"), ("upper", "cap", "upper")):
                    v = []
                    for toks, st in zip(lines, styles):
                        v.append(render([T(recase_word(rng, t.text, st) if t.cls in ("var", "vardef") else t.text, t.cls, t.sep)
                                         for t in toks]))
                    extra.append((["case"], ["var:both"], v))
            cases.append(make_case(rng, kind, lines, lang, compacted=(kind != "var-reassign"), extra=extra))
    m = 45 if tier == "quick" else 300
    for i in range(m):
        cases.append(empty_case(rng, i))
    total = sum(w for _, w in FEATURES)
    while len(cases) < n:
        if rng.random() < 0.12:
            kind, lines = f_tr(rng)
            cases.append(make_case(rng, kind, lines, "tr"))
            continue
        r = rng.random() * total
        for f, w in FEATURES:
            r -= w
            if r < 0:
                break
        kind, lines = f(rng)
        cases.append(make_case(rng, kind, lines, "en"))
    return cases


# ---------------------------------------------------------------- oracle
def exec_lines(rec, n):
    """line lists of the n exec observations, None for a panicked one; None when the record is unusable"""
    if rec is None or rec.get("hang") or rec.get("crash"):
        return None
    obs = rec["obs"]
    if len(obs) < n:
        return None
    return [None if ("panic" in o or o.get("lines") is None) else o["lines"] for o in obs[:n]]


def value_of(line):
    k, v = line_value(line)
    return (k, json.dumps(v, sort_keys=True, ensure_ascii=False))


def strip_pre(c, rec):
    """a case may start with configuration operations (meta["pre"] of them): the original text and its variants follow"""
    k = c["meta"].get("pre", 0)
    if not k:
        return c, rec
    c2 = dict(c, ops=c["ops"][k:])
    rec2 = rec if (rec is None or "obs" not in rec) else dict(rec, obs=rec["obs"][k:])
    return c2, rec2


def failures(c, rec):
    """[(variant index or None, message, line index or None)]"""
    c, rec = strip_pre(c, rec)
    return [(f[0], f[1], f[2] if len(f) > 2 else None) for f in failures0(c, rec)]


def failures0(c, rec):
    n = len(c["ops"])
    ob = exec_lines(rec, n)
    if ob is None:
        return [(None, "the history panicked or hung")]
    out = []
    meta = c["meta"]
    if "empty" in meta:
        for k, idxs in enumerate(meta["empty"]):
            if ob[k] is None:
                out.append((k, "%r panicked" % c["ops"][k]["text"]))
                continue
            for i in idxs:
                if i >= len(ob[k]) or ob[k][i] is not None:
                    out.append((k, "line %d of %r consists of blanks / a comment only but its slot is %s" % (
                        i, c["ops"][k]["text"], value_of(ob[k][i]) if i < len(ob[k]) else "missing")))
        if "keep" in meta and ob[0] is not None and ob[1] is not None:
            for j, i in enumerate(meta["keep"]):
                va = value_of(ob[0][j]) if j < len(ob[0]) else ("missing", "")
                vb = value_of(ob[1][i]) if i < len(ob[1]) else ("missing", "")
                if va != vb:
                    out.append((1, "line %r gives %s %s alone but %s %s between blank / comment lines" % (
                        c["ops"][0]["text"].split("\n")[j], va[0], va[1], vb[0], vb[1])))
        return out
    a = ob[0]
    if a is None:
        return []                     # the original itself panics: not a line "that evaluates" (C01's matter)
    for k in range(1, n):
        b = ob[k]
        t1, t2 = c["ops"][0]["text"], c["ops"][k]["text"]
        rw = meta["rewrites"][k - 1]
        if b is None:
            out.append((k, "%r evaluates but the rewritten %r (%s) panics" % (t1, t2, "+".join(rw["kinds"]))))
            continue
        if len(a) != len(b):
            out.append((k, "%r gives %d slots, %r gives %d" % (t1, len(a), t2, len(b))))
            continue
        for i, (la, lb) in enumerate(zip(a, b)):
            va, vb = value_of(la), value_of(lb)
            if va[0] != "item":
                continue              # only lines that evaluate to a value are constrained
            if va != vb:
                out.append((k, "line %d: %r = %s %s but rewritten (%s%s) %r = %s %s" % (
                    i, t1.split("\n")[i], va[0], va[1], "+".join(rw["kinds"]),
                    (" " + ",".join(rw["classes"])) if rw["classes"] else "", t2.split("\n")[i], vb[0], vb[1]), i, va, vb))
                break
    return out


def nontrivial(c, rec):
    c, rec = strip_pre(c, rec)
    ob = exec_lines(rec, len(c["ops"]))
    if ob is None or ob[0] is None:
        return False
    if "empty" in c["meta"]:
        return True
    return len(c["ops"]) > 1 and all(l is not None and line_value(l)[0] == "item" for l in ob[0])


def spec_check(c, rec, header):
    f = failures(c, rec)
    return f[0][1] if f else None


def known_class(c, rec, verdict, known):
    """every failing variant must fall into a listed mechanism (keyed on rewriting kind + keyword class)"""
    classes = {f["class"] for f in known}
    fs = failures(c, rec)
    if not fs:
        return None
    hit = None
    for k, msg, li in fs:
        if k is None or "rewrites" not in c["meta"] or not c["meta"]["rewrites"] or k == 0 or li is None:
            return None
        rw = c["meta"]["rewrites"][k - 1]
        cl = classify(c, rw, li, rec, k)
        if cl is None or cl not in classes:
            return None
        hit = hit or cl
    return hit


K_SIGNED_CONV = "C16-sign-read-into-literal-conversion-not-matched"


def classify(c, rw, li, rec, k):
    m = c["meta"]
    # C16-K2: the ORIGINAL writes `<operand>+<n> <word> ...` (a unit, a duration word, to/in/as <target>) with the sign
    # directly in front of the digit: the two operands become adjacent tokens and the rule / unit pattern that starts at
    # the second one is not found behind the first one
    # (not for <date>-<n> <unit>: date + negative duration was C16-K1, repaired in /repo acb6397, and must pass)
    if "blanks" in rw["kinds"] and m.get("sign_touch_conv", [False] * (li + 1))[li] \
            and m["kind"] not in ("date-arith", "tr-date-arith"):
        return K_SIGNED_CONV
    return None


def witness_fails(f, wc, rec, header):
    """a witness is a history [original, rewritten] whose two values differ, or a single noise line with a non-empty slot"""
    n = len(wc["ops"])
    ob = exec_lines(rec, n)
    if ob is None or any(o is None for o in ob):
        return False
    if n == 1:
        return any(l is not None for l in ob[0])
    a, b = ob[0], ob[-1]
    return len(a) != len(b) or any(value_of(x) != value_of(y) for x, y in zip(a, b))
