"""C06 - money literals, currency conversion and money arithmetic follow the rate table.

Generator + independent oracle.  The oracle is written from the property statement only: exact rational
arithmetic over the rate table of /repo/src/json/config.json (as modified by the update requests of the
history), `conv(a, A, B) = a * rate(B) / rate(A)`; a name is known iff it is a configured alias or the
code of a configured currency (any letter case)."""
import json
from fractions import Fraction
from .common import *

ALLOWED_AXIOMS = []
DETAIL = 2
RULE = ("every spelling of a money literal (symbol before with/without k/K/M, code or alias after with 0-2 blanks in "
        "lower/upper/mixed case, symbol after, k/K/M suffix + blank + code, sign, thousands separator, decimals) x every "
        "currency code of the table; conversions with every conversion word x ordered pairs of rated currencies (all 1024 "
        "pairs in the thorough tier); money +/- money (chains of 2-3, mixed currencies), money */ number, money / money; "
        "histories of <= 10 operations: update_currency (codes in any case, aliases, symbols, unknown names, currencies "
        "without a rate; rates incl. tiny/huge/negative) interleaved with all the evaluations above, each checked against "
        "the table current at that point, and each return value of update_currency; expected = exact rational formula, "
        "relative tolerance 2^-40 of the largest operand; non-trivial = the last evaluation yields money or a number; "
        "distinct = distinct history")
ASSUMPTIONS = ["the currency, alias and rate tables are read from /repo/src/json/config.json on every run (an edited rate "
               "is not a violation)",
               "a currency symbol denotes a currency only when it is a configured alias ($, EUR sign, TRY sign): symbols "
               "shared by several currencies are not generated (see the note in generate)"]
TOL = Fraction(1, 2 ** 40)


def load_tables():
    cfg = json.load(open("/repo/src/json/config.json", encoding="utf-8"))
    cur = {k.lower(): v for k, v in cfg["currencies"].items()}
    rates = {cur[k.lower()]["code"]: Fraction(repr(float(v))) for k, v in cfg["currency_rates"].items() if k.lower() in cur}
    alias = {k: cur[v.lower()]["code"] for k, v in cfg["currency_alias"].items() if v.lower() in cur}
    words = cfg["languages"]["en"]["word_group"]["conversion_group"]
    return cur, rates, alias, words


def resolve(name, cur, alias):
    """the statement's reading of a currency name: configured alias, or ISO code, in any letter case"""
    k = name.lower()
    if k in alias:
        return alias[k]
    if k in cur:
        return cur[k]["code"]
    return None


AMOUNTS = [0, 1, 2, 5, 10, 12.5, 99.99, 100, 250, 1000, 1234.5, 0.5, 0.01, 1000000, 7, 33.33, 123456.78]
NUMBERS = [0, 1, 2, 3, 4, 10, 0.5, 12.5, 100, 0.25, 7]
NEW_RATES = [0.5, 1.0, 2.0, 7.25, 100.0, 0.001, 3.5, 1e-9, 1e12, 123456.789, 0.3333333333333333, -2.0, 1.0000000000000002]
UNKNOWN = ["xyz", "", "bitcoin", "us d", "usdd", "12", "dollars", "€€"]
SUFFIX = {"k": 1000, "K": 1000, "M": 1000000}


def is_symbol(name):
    return not name.isascii() or not name.isalpha()


def mixed(rng, w):
    return "".join(ch.upper() if rng.random() < 0.5 else ch.lower() for ch in w)


class Gen:
    def __init__(self, rng):
        self.rng = rng
        self.cur, self.rates, self.alias, self.words = load_tables()
        self.codes = sorted(self.rates)
        self.all_codes = sorted(v["code"] for v in self.cur.values())
        # names by currency: code spellings + aliases (letters) / symbols (aliases that are not letters).
        # NOTE (reported, not generated): an alias that is neither ASCII letters nor a Unicode currency symbol
        # (the Cyrillic BGN alias) and the symbols of currencies that are not aliases (GBP, JPY, ...) never
        # lex as a money literal in the crate: `10 <that alias>`, `<that symbol>10` evaluate to the number 10.
        self.names = {}
        self.symbols = {}
        for a, code in self.alias.items():
            if a.isascii() and a.isalpha() and len(a) >= 2:
                self.names.setdefault(code, []).append(a)
            elif len(a) == 1 and not a.isalnum() and not a.isalpha():
                self.symbols.setdefault(code, []).append(a)

    # ---- literals
    def name_after(self, code):
        rng = self.rng
        pool = [code.lower(), code.upper(), mixed(rng, code)] + self.names.get(code, [])
        n = rng.choice(pool)
        if rng.random() < 0.15:
            n = mixed(rng, n)
        # the statement's reading must give this currency (an alias may shadow a code)
        return n if resolve(n, self.cur, self.alias) == code else code.lower()

    def amount(self):
        rng = self.rng
        return rng.choice(AMOUNTS) if rng.random() < 0.7 else round(rng.uniform(0, 100000), rng.randint(0, 2))

    def money_lit(self, code, amt=None, allow_sign=True):
        """(text, value) of a money literal of currency `code`"""
        rng = self.rng
        a = self.amount() if amt is None else amt
        v = Fraction(repr(float(a)))
        s = fmt_dec(a, tsep=rng.choice([None, None, "."]))
        sign = ""
        if allow_sign and rng.random() < 0.12:
            sign = rng.choice("-+")
            if sign == "-":
                v = -v
        sfx, mult = "", 1
        if rng.random() < 0.2:
            sfx = rng.choice(list(SUFFIX))
            mult = SUFFIX[sfx]
        v *= mult
        syms = self.symbols.get(code, [])
        k = rng.random()
        if syms and k < 0.3:
            return rng.choice(syms) + sign + s + sfx, v                       # symbol before, optional suffix
        if syms and k < 0.45:
            sym = rng.choice(syms)
            if sfx:
                return sign + s + sfx + " " * rng.randint(1, 2) + sym, v      # suffix form needs a blank
            return sign + s + " " * rng.randint(0, 2) + sym, v               # symbol after
        name = self.name_after(code)
        if sfx:
            return sign + s + sfx + " " * rng.randint(1, 2) + name, v
        return sign + s + " " * rng.randint(0, 2) + name, v

    # ---- one evaluation against a rate table: (text, expectation)
    def conv(self, table, v, a, b):
        if table[a] == 0:
            return None
        return v / table[a] * table[b]

    def evaluation(self, table, kind=None):
        rng = self.rng
        rated = sorted(table)
        a, b = rng.choice(rated), rng.choice(rated)
        if rng.random() < 0.1:
            b = a
        kind = kind or rng.choice(["convert"] * 4 + ["literal", "addsub", "addsub", "scale", "ratio", "chain", "variable"])
        if kind == "convert":
            lit, v = self.money_lit(a)
            text = lit + " " + rng.choice(self.words) + " " + self.name_after(b)
            return text, self.expect("Money", b, self.conv(table, v, a, b), scale=abs(v))
        if kind == "literal":
            code = rng.choice(self.all_codes) if rng.random() < 0.5 else a
            lit, v = self.money_lit(code)
            return lit, self.expect("Money", code, v)
        if kind == "addsub":
            l1, v1 = self.money_lit(a)
            l2, v2 = self.money_lit(b, allow_sign=False)
            op = rng.choice("+-")
            c = self.conv(table, v2, b, a)
            res = None if c is None else (v1 + c if op == "+" else v1 - c)
            return "%s %s %s" % (l1, op, l2), self.expect("Money", a, res, scale=max(abs(v1), abs(c or 0)))
        if kind == "chain":
            c3 = rng.choice(rated)
            l1, v1 = self.money_lit(a)
            l2, v2 = self.money_lit(b, allow_sign=False)
            l3, v3 = self.money_lit(c3, allow_sign=False)
            o1, o2 = rng.choice("+-"), rng.choice("+-")
            x2, x3 = self.conv(table, v2, b, a), self.conv(table, v3, c3, a)
            res = None
            if x2 is not None and x3 is not None:
                res = v1 + (x2 if o1 == "+" else -x2) + (x3 if o2 == "+" else -x3)
            return "%s %s %s %s %s" % (l1, o1, l2, o2, l3), \
                self.expect("Money", a, res, scale=max(abs(v1), abs(x2 or 0), abs(x3 or 0)))
        if kind == "scale":
            l1, v1 = self.money_lit(a)
            w = rng.choice(NUMBERS)
            op = rng.choice("*/")
            fw = Fraction(repr(float(w)))
            res = v1 * fw if op == "*" else (v1 / fw if fw != 0 else None)
            return "%s %s %s" % (l1, op, fmt_dec(w)), self.expect("Money", a, res, scale=abs(v1))
        if kind == "ratio":
            l1, v1 = self.money_lit(a)
            l2, v2 = self.money_lit(b, rng.choice([x for x in AMOUNTS if x != 0]), allow_sign=False)
            d = self.conv(table, v2, b, a)
            res = None if not d else v1 / d
            return "%s / %s" % (l1, l2), self.expect("Number", None, res)
        if kind == "variable":
            l1, v1 = self.money_lit(a)
            text = "price = %s\nprice %s %s" % (l1, rng.choice(self.words), self.name_after(b))
            e = self.expect("Money", b, self.conv(table, v1, a, b), scale=abs(v1))
            e["line"] = 1
            return text, e
        raise ValueError(kind)

    @staticmethod
    def expect(typ, cur, value, scale=None):
        e = {"typ": typ, "cur": cur}
        if value is not None:                         # None: the statement's formula is undefined (division by zero)
            e["expect"] = [value.numerator, value.denominator]
            sc = max(abs(value), scale or 0)
            e["scale"] = [sc.numerator, sc.denominator]
        return e

    # ---- histories
    def update_name(self, table):
        rng = self.rng
        k = rng.random()
        if k < 0.45:
            c = rng.choice(self.codes)
            return rng.choice([c, c.lower(), mixed(rng, c)])
        if k < 0.65:
            a = rng.choice(sorted(self.alias))
            return a if rng.random() < 0.7 else a.upper()
        if k < 0.8:
            c = rng.choice(self.all_codes)                     # possibly a currency that has no rate yet
            return rng.choice([c, c.lower()])
        return rng.choice(UNKNOWN)

    def history(self, max_ops=10):
        rng = self.rng
        table = dict(self.rates)
        ops, steps = [], []
        n = rng.randint(2, max_ops)
        for i in range(n):
            if i < n - 1 and rng.random() < 0.55:
                name = self.update_name(table)
                rate = rng.choice(NEW_RATES) if rng.random() < 0.8 else round(rng.uniform(0.01, 500), rng.randint(0, 6))
                code = resolve(name, self.cur, self.alias)
                ops.append({"op": "update_currency", "cur": name, "rate": str(bits(rate))})
                steps.append({"ret": code is not None})
                if code is not None:
                    table[code] = Fraction(repr(float(rate)))
            else:
                text, e = self.evaluation(table)
                ops.append({"op": "exec", "lang": "en", "text": text})
                steps.append(e)
        return {"ops": ops, "meta": {"kind": "update-history", "steps": steps}}

    def single(self, kind=None, text_e=None):
        text, e = text_e or self.evaluation(self.rates, kind)
        return {"ops": [{"op": "exec", "lang": "en", "text": text}], "meta": {"kind": kind or "eval", "steps": [e]}}


def generate(rng, tier):
    g = Gen(rng)
    quick = tier == "quick"
    n = 500 if quick else 7000
    cases = []
    # every conversion word x ordered pairs (all pairs in the thorough tier)
    pairs = [(a, b) for a in g.codes for b in g.codes]
    if quick:
        pairs = rng.sample(pairs, 60)
    for i, (a, b) in enumerate(pairs):
        w = g.words[i % len(g.words)]
        text = "100 %s %s %s" % (a.lower(), w, b.lower())
        cases.append(g.single("pair", (text, g.expect("Money", b, g.conv(g.rates, Fraction(100), a, b), scale=Fraction(100)))))
    # every currency code of the table x the spellings of a literal
    forms = [("%s %s", 1), ("%s%s", 1), ("%sk %s", 1000), ("%sM  %s", 1000000), ("-%s %s", -1), ("%s  %s", 1)]
    for i, code in enumerate(g.all_codes if not quick else rng.sample(g.all_codes, 40)):
        for j, (form, mult) in enumerate(forms if not quick else [forms[i % len(forms)]]):
            amt = AMOUNTS[(i + j) % len(AMOUNTS)]
            name = [code.lower(), code.upper(), mixed(rng, code)][(i + j) % 3]
            if resolve(name, g.cur, g.alias) != code:
                continue
            text = form % (fmt_dec(amt), name)
            cases.append(g.single("spelling", (text, g.expect("Money", code, Fraction(repr(float(amt))) * mult))))
    # aliases and symbols, all of them
    for al, code in sorted(g.alias.items()):
        if al.isascii() and al.isalpha() and len(al) >= 2:
            for text, v in (("25 " + al, 25), ("25" + al.upper(), 25), ("3k " + al, 3000)):
                cases.append(g.single("alias", (text, g.expect("Money", code, Fraction(v)))))
        elif al in sum(g.symbols.values(), []):
            for text, v in ((al + "25", 25), ("25" + al, 25), ("25 " + al, 25), (al + "3k", 3000), ("3M " + al, 3000000),
                            (al + "1.250,5", Fraction(2501, 2))):
                cases.append(g.single("symbol", (text, g.expect("Money", code, Fraction(v)))))
    while len(cases) < n:
        if rng.random() < 0.45:
            cases.append(g.history())
        else:
            cases.append(g.single())
    return cases


def close(got, exp, scale):
    if got != got or abs(got) == float("inf"):
        return False
    g = Fraction(repr(got))
    if scale == 0:
        return abs(g) <= Fraction(1, 10 ** 12)
    return abs(g - exp) <= abs(scale) * TOL


def check_value(line, st):
    if "expect" not in st:
        return None
    if line is None:
        return "expected a result, got nothing"
    k, v = line_value(line)
    if k != "item" or v["t"] != st["typ"]:
        return "expected %s, got %s %r" % (st["typ"], k, v)
    if st["typ"] == "Money" and v["cur"] != st["cur"]:
        return "expected currency %s, got %s" % (st["cur"], v["cur"])
    exp = Fraction(st["expect"][0], st["expect"][1])
    got = from_bits(v["v"])
    if not close(got, exp, Fraction(st["scale"][0], st["scale"][1])):
        return "expected %.17g, got %.17g" % (float(exp), got)
    return None


def nontrivial(c, rec):
    lines = last_lines(rec)
    if not lines or lines[-1] is None:
        return False
    k, v = line_value(lines[-1])
    return k == "item" and v["t"] in ("Money", "Number")


def spec_check(c, rec, header):
    m = c["meta"]
    if rec is None or rec.get("hang") or rec.get("crash"):
        return "evaluation hung or crashed"
    if len(rec["obs"]) != len(m["steps"]):
        return "expected %d observations, got %d" % (len(m["steps"]), len(rec["obs"]))
    for i, (st, ob) in enumerate(zip(m["steps"], rec["obs"])):
        if "panic" in ob:
            return "operation %d panicked" % i
        if "ret" in st:
            if ob.get("ret") != st["ret"]:
                return "operation %d: update_currency returned %r, expected %r" % (i, ob.get("ret"), st["ret"])
        else:
            lines = ob.get("lines")
            ln = st.get("line", 0)
            if not lines or len(lines) != ln + 1:
                return "operation %d: expected %d line(s), got %r" % (i, ln + 1, lines and len(lines))
            v = check_value(lines[ln], st)
            if v:
                return "operation %d: %s" % (i, v)
    return None


def known_class(c, rec, verdict, known):
    return None


def witness_fails(f, wc, rec, header):
    return False
