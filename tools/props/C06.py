"""C06 - money literals, currency conversion and money arithmetic follow the rate table.

Generator + independent oracle.  The oracle is written from the property statement only: exact rational
arithmetic over the rate table of /repo/src/json/config.json (as modified by the update requests of the
history), `conv(a, A, B) = a * rate(B) / rate(A)`; a name is known iff it is a configured alias or the
code of a configured currency (any letter case)."""
import json, re, unicodedata
from fractions import Fraction
from .common import *

ALLOWED_AXIOMS = []
DETAIL = 2
RULE = ("every spelling of a money literal (symbol before with/without k/K/M, code or alias after with 0-2 blanks in "
        "lower/upper/mixed case, symbol after, k/K/M suffix + blank + code, sign, thousands separator, decimals) x every "
        "currency code of the table; conversions with every conversion word x ordered pairs of rated currencies (all 1024 "
        "pairs in the thorough tier); money +/- money (chains of 2-3, mixed currencies), money */ number, money / money; "
        "histories of <= 10 operations: update_currency (codes in any case, aliases, symbols, unknown names, currencies "
        "without a rate; rates incl. tiny/huge/negative) interleaved with all the evaluations above, each checked against "
        "the table current at that point, and each return value of update_currency; expected = exact rational formula, "
        "relative tolerance 2^-40 of the largest operand; non-trivial = the last evaluation yields money or a number; "
        "distinct = distinct history")
ASSUMPTIONS = ["the currency, alias and rate tables are read from /repo/src/json/config.json on every run (an edited rate "
               "is not a violation)",
               "a currency symbol denotes a currency only when it is a configured alias ($, EUR sign, TRY sign): symbols "
               "shared by several currencies are not generated (see the note in generate)"]
TOL = Fraction(1, 2 ** 40)


def load_tables():
    cfg = json.load(open("/repo/src/json/config.json", encoding="utf-8"))
    cur = {k.lower(): v for k, v in cfg["currencies"].items()}
    rates = {cur[k.lower()]["code"]: Fraction(repr(float(v))) for k, v in cfg["currency_rates"].items() if k.lower() in cur}
    alias = {k: cur[v.lower()]["code"] for k, v in cfg["currency_alias"].items() if v.lower() in cur}
    words = cfg["languages"]["en"]["word_group"]["conversion_group"]
    tz = {k.upper() for k in cfg["timezones"]}
    return cur, rates, alias, words, tz


def resolve(name, cur, alias):
    """the statement's reading of a currency name: configured alias, or ISO code, in any letter case"""
    k = name.lower()
    if k in alias:
        return alias[k]
    if k in cur:
        return cur[k]["code"]
    return None


AMOUNTS = [0, 1, 2, 5, 10, 12.5, 99.99, 100, 250, 1000, 1234.5, 0.5, 0.01, 1000000, 7, 33.33, 123456.78]
NUMBERS = [0, 1, 2, 3, 4, 10, 0.5, 12.5, 100, 0.25, 7]
NEW_RATES = [0.5, 1.0, 2.0, 7.25, 100.0, 0.001, 3.5, 1e-9, 1e12, 123456.789, 0.3333333333333333, -2.0, 1.0000000000000002]
UNKNOWN = ["xyz", "", "bitcoin", "us d", "usdd", "12", "dollars", "€€"]
SUFFIX = {"k": 1000, "K": 1000, "M": 1000000}


def is_symbol(name):
    return not name.isascii() or not name.isalpha()


def mixed(rng, w):
    return "".join(ch.upper() if rng.random() < 0.5 else ch.lower() for ch in w)


class Gen:
    def __init__(self, rng):
        self.rng = rng
        self.cur, self.rates, self.alias, self.words, tz = load_tables()
        self.codes = sorted(self.rates)
        self.all_codes = sorted(v["code"] for v in self.cur.values())
        # KNOWN FINDING C06-K4 (class C06-code-is-timezone): currency codes that are also time-zone abbreviations (TMT, WST).  As a word after
        # a suffixed amount (`25k tmt`) or as a conversion target (`1 inr in wst`, once WST has a rate) the word
        # lexes as a time zone and the line ends in the error "No more token".  They are generated only in the
        # plain literal forms `25 tmt`, `25tmt`, and never receive a rate in the histories.
        self.tz_codes = {c for c in self.all_codes if c.upper() in tz}
        # KNOWN FINDINGS (known_findings.json C06-K1..K4): a few cases of each mechanism are generated per run by
        # known_cases() WITH the statement's expectation and classified by known_class(); elsewhere they are avoided.
        self.foreign_symbols = {}          # one-character Unicode currency symbols of the table that are no alias
        for v in self.cur.values():
            sy = v["symbol"]
            if len(sy) == 1 and unicodedata.category(sy) == "Sc" and sy not in self.alias:
                self.foreign_symbols.setdefault(sy, []).append(v["code"])
        self.nonlatin_aliases = {a: c for a, c in self.alias.items() if a.isalpha() and not a.isascii()}
        # names by currency: code spellings + aliases (letters) / symbols (aliases that are not letters).
        # KNOWN FINDINGS C06-K3 / C06-K2: an alias that is neither ASCII letters nor a Unicode currency symbol
        # (the Cyrillic BGN alias) and the symbols of currencies that are not aliases (GBP, JPY, ...) never
        # lex as a money literal in the crate: `10 <that alias>` is the number 10, `<that symbol>10` the number 0.
        self.names = {}
        self.symbols = {}
        for a, code in self.alias.items():
            if a.isascii() and a.isalpha() and len(a) >= 2:
                self.names.setdefault(code, []).append(a)
            elif len(a) == 1 and not a.isalnum() and not a.isalpha():
                self.symbols.setdefault(code, []).append(a)

    # ---- literals
    def name_after(self, code):
        rng = self.rng
        pool = [code.lower(), code.upper(), mixed(rng, code)] + self.names.get(code, [])
        n = rng.choice(pool)
        if rng.random() < 0.15:
            n = mixed(rng, n)
        # the statement's reading must give this currency (an alias may shadow a code)
        return n if resolve(n, self.cur, self.alias) == code else code.lower()

    def amount(self):
        rng = self.rng
        return rng.choice(AMOUNTS) if rng.random() < 0.7 else round(rng.uniform(0, 100000), rng.randint(0, 2))

    def money_lit(self, code, amt=None, allow_sign=True, alone=False):
        """(text, value) of a money literal of currency `code`; `alone`: nothing follows the literal"""
        rng = self.rng
        a = self.amount() if amt is None else amt
        v = Fraction(repr(float(a)))
        s = fmt_dec(a, tsep=rng.choice([None, None, "."]))
        sign = ""
        if allow_sign and rng.random() < 0.12:
            sign = rng.choice("-+")
            if sign == "-":
                v = -v
        sfx, mult = "", 1
        if rng.random() < 0.2 and code not in self.tz_codes:
            sfx = rng.choice(list(SUFFIX))
            mult = SUFFIX[sfx]
        v *= mult
        syms = self.symbols.get(code, [])
        k = rng.random()
        if syms and k < 0.3:
            return rng.choice(syms) + sign + s + sfx, v                       # symbol before, optional suffix
        # KNOWN FINDING C06-K1 (class C06-suffix-symbol-drops-rest): `<amount><suffix> <symbol>` followed by anything: the rest of the line is silently
        # dropped (`1k $ * 2` = $1.000,00, `1M € + 5cny` = €1.000.000,00); generated only when nothing follows.
        if syms and k < 0.45 and (alone or not sfx):
            sym = rng.choice(syms)
            if sfx:
                return sign + s + sfx + " " * rng.randint(1, 2) + sym, v      # suffix form needs a blank
            return sign + s + " " * rng.randint(0, 2) + sym, v               # symbol after
        name = self.name_after(code)
        if sfx:
            return sign + s + sfx + " " * rng.randint(1, 2) + name, v
        return sign + s + " " * rng.randint(0, 2) + name, v

    # ---- one evaluation against a rate table: (text, expectation)
    def conv(self, table, v, a, b):
        if table[a] == 0:
            return None
        return v / table[a] * table[b]

    def evaluation(self, table, kind=None, pool=None):
        rng = self.rng
        rated = sorted(table)
        a, b = rng.choice(rated), rng.choice(rated)
        if pool:
            # a focused history: the operands are (mostly) the currencies whose rates the history changes
            a = rng.choice(pool) if rng.random() < 0.8 else a
            b = rng.choice(pool) if rng.random() < 0.8 else b
        if rng.random() < 0.1:
            b = a
        kind = kind or rng.choice(["convert"] * 4 + ["literal", "addsub", "addsub", "scale", "ratio", "chain", "variable"])
        if kind == "convert":
            lit, v = self.money_lit(a)
            text = lit + " " + rng.choice(self.words) + " " + self.name_after(b)
            return text, self.expect("Money", b, self.conv(table, v, a, b), scale=abs(v))
        if kind == "literal":
            code = rng.choice(self.all_codes) if rng.random() < 0.5 else a
            lit, v = self.money_lit(code, alone=True)
            return lit, self.expect("Money", code, v)
        if kind == "addsub":
            l1, v1 = self.money_lit(a)
            l2, v2 = self.money_lit(b, allow_sign=False)
            op = rng.choice("+-")
            c = self.conv(table, v2, b, a)
            res = None if c is None else (v1 + c if op == "+" else v1 - c)
            return "%s %s %s" % (l1, op, l2), self.expect("Money", a, res, scale=max(abs(v1), abs(c or 0)))
        if kind == "chain":
            c3 = rng.choice(rated)
            l1, v1 = self.money_lit(a)
            l2, v2 = self.money_lit(b, allow_sign=False)
            l3, v3 = self.money_lit(c3, allow_sign=False)
            o1, o2 = rng.choice("+-"), rng.choice("+-")
            x2, x3 = self.conv(table, v2, b, a), self.conv(table, v3, c3, a)
            res = None
            if x2 is not None and x3 is not None:
                res = v1 + (x2 if o1 == "+" else -x2) + (x3 if o2 == "+" else -x3)
            return "%s %s %s %s %s" % (l1, o1, l2, o2, l3), \
                self.expect("Money", a, res, scale=max(abs(v1), abs(x2 or 0), abs(x3 or 0)))
        if kind == "scale":
            l1, v1 = self.money_lit(a)
            w = rng.choice(NUMBERS)
            op = rng.choice("*/")
            fw = Fraction(repr(float(w)))
            res = v1 * fw if op == "*" else (v1 / fw if fw != 0 else None)
            return "%s %s %s" % (l1, op, fmt_dec(w)), self.expect("Money", a, res, scale=abs(v1))
        if kind == "ratio":
            l1, v1 = self.money_lit(a)
            l2, v2 = self.money_lit(b, rng.choice([x for x in AMOUNTS if x != 0]), allow_sign=False)
            d = self.conv(table, v2, b, a)
            res = None if not d else v1 / d
            return "%s / %s" % (l1, l2), self.expect("Number", None, res)
        if kind == "variable":
            l1, v1 = self.money_lit(a)
            if rng.random() < 0.4:
                # the bound amount is no whole number of minor units (a third, a seventh): it is converted exactly
                k = rng.choice([3, 7, 9, 11])
                text = "price = %s / %d\nprice %s %s" % (l1, k, rng.choice(self.words), self.name_after(b))
                e = self.expect("Money", b, self.conv(table, v1 / k, a, b), scale=abs(v1))
            else:
                text = "price = %s\nprice %s %s" % (l1, rng.choice(self.words), self.name_after(b))
                e = self.expect("Money", b, self.conv(table, v1, a, b), scale=abs(v1))
            e["line"] = 1
            return text, e
        raise ValueError(kind)

    @staticmethod
    def expect(typ, cur, value, scale=None):
        e = {"typ": typ, "cur": cur}
        if value is not None:                         # None: the statement's formula is undefined (division by zero)
            e["expect"] = [value.numerator, value.denominator]
            sc = max(abs(value), scale or 0)
            e["scale"] = [sc.numerator, sc.denominator]
        return e

    # ---- histories
    def update_name(self, table):
        rng = self.rng
        k = rng.random()
        if k < 0.45:
            c = rng.choice(self.codes)
            return rng.choice([c, c.lower(), mixed(rng, c)])
        if k < 0.65:
            a = rng.choice(sorted(self.alias))
            return a if rng.random() < 0.7 else a.upper()
        if k < 0.8:
            c = rng.choice([x for x in self.all_codes if x not in self.tz_codes])   # possibly without a rate yet
            return rng.choice([c, c.lower()])
        return rng.choice(UNKNOWN)

    def history(self, max_ops=10):
        rng = self.rng
        table = dict(self.rates)
        ops, steps = [], []
        n = rng.randint(2, max_ops)
        # half of the histories are focused on two or three currencies (the base currency USD among them more often
        # than not): the same currency is updated AND used as an operand of conversions and of + - / afterwards
        pool = None
        if rng.random() < 0.5:
            pool = rng.sample([c for c in self.codes if c not in self.tz_codes], rng.randint(2, 3))
            if rng.random() < 0.6 and "USD" in self.codes and "USD" not in pool:
                pool[0] = "USD"
        for i in range(n):
            if i < n - 1 and rng.random() < 0.55:
                name = self.update_name(table)
                if pool and rng.random() < 0.75:
                    c = rng.choice(pool)
                    name = rng.choice([c, c.lower(), mixed(rng, c)] + self.names.get(c, []) + self.symbols.get(c, []))
                    if resolve(name, self.cur, self.alias) != c:
                        name = c
                rate = rng.choice(NEW_RATES) if rng.random() < 0.8 else round(rng.uniform(0.01, 500), rng.randint(0, 6))
                code = resolve(name, self.cur, self.alias)
                ops.append({"op": "update_currency", "cur": name, "rate": str(bits(rate))})
                steps.append({"ret": code is not None})
                if code is not None:
                    table[code] = Fraction(repr(float(rate)))
            else:
                text, e = self.evaluation(table, pool=pool)
                ops.append({"op": "exec", "lang": "en", "text": text})
                steps.append(e)
        return {"ops": ops, "meta": {"kind": "update-history" + ("-focused" if pool else ""), "steps": steps}}

    def pinned_histories(self):
        """a changed rate of the BASE currency takes effect in conversions and in money arithmetic alike"""
        out = []
        for upd in ("usd", "$", "dollar"):
            if resolve(upd, self.cur, self.alias) != "USD":
                continue
            table = dict(self.rates)
            table["USD"] = Fraction(2)
            ops = [{"op": "update_currency", "cur": upd, "rate": str(bits(2.0))}]
            steps = [{"ret": True}]
            eur, tr = Fraction(5), Fraction(100)
            for text, e in (("5 eur + $10", self.expect("Money", "EUR", eur + self.conv(table, Fraction(10), "USD", "EUR"), scale=Fraction(10))),
                            ("$10 + 5 eur", self.expect("Money", "USD", Fraction(10) + self.conv(table, eur, "EUR", "USD"), scale=Fraction(10))),
                            ("5 eur - 10 usd", self.expect("Money", "EUR", eur - self.conv(table, Fraction(10), "USD", "EUR"), scale=Fraction(10))),
                            ("100 try / $10", self.expect("Number", None, tr / self.conv(table, Fraction(10), "USD", "TRY"))),
                            ("$100 / 10 try", self.expect("Number", None, Fraction(100) / self.conv(table, Fraction(10), "TRY", "USD"))),
                            ("10 usd to eur", self.expect("Money", "EUR", self.conv(table, Fraction(10), "USD", "EUR"), scale=Fraction(10)))):
                ops.append({"op": "exec", "lang": "en", "text": text})
                steps.append(e)
            out.append({"ops": ops, "meta": {"kind": "update-history-pinned", "steps": steps}})
        return out

    def known_cases(self):
        """a few cases of each recorded mechanism, with the expectation of the statement"""
        rng = self.rng
        out = []

        def add(cls, ops, steps):
            out.append({"ops": ops, "meta": {"kind": "known-class", "cls": cls, "steps": steps}})

        def ex(text):
            return {"op": "exec", "lang": "en", "text": text}
        # K1: amount + suffix + blank(s) + configured symbol, then an operator / a conversion
        syms = sorted((sy, c) for c, l in self.symbols.items() for sy in l if c in self.rates)
        for _ in range(4):
            sy, code = rng.choice(syms)
            n, sfx = rng.choice([1, 2, 5, 12.5, 250]), rng.choice(list(SUFFIX))
            v = Fraction(repr(float(n))) * SUFFIX[sfx]
            lit = fmt_dec(n) + sfx + " " * rng.randint(1, 2) + sy
            k = rng.randrange(3)
            if k == 0:
                w = rng.choice([2, 3, 4, 10])
                op = rng.choice("*/")
                add("C06-suffix-symbol-drops-rest", [ex("%s %s %d" % (lit, op, w))],
                    [self.expect("Money", code, v * w if op == "*" else v / w, scale=abs(v))])
            elif k == 1:
                b = rng.choice(self.codes)
                m = rng.choice([5, 100, 1000])
                c2 = self.conv(self.rates, Fraction(m), b, code)
                add("C06-suffix-symbol-drops-rest", [ex("%s + %d%s" % (lit, m, b.lower()))],
                    [self.expect("Money", code, v + c2, scale=max(abs(v), abs(c2)))])
            else:
                b = rng.choice([c for c in self.codes if c != code])
                add("C06-suffix-symbol-drops-rest", [ex("%s %s %s" % (lit, rng.choice(self.words), b.lower()))],
                    [self.expect("Money", b, self.conv(self.rates, v, code, b), scale=abs(v))])
        # K2: a currency symbol of the table that is not an alias, before / after the amount
        for sy in rng.sample(sorted(self.foreign_symbols), min(3, len(self.foreign_symbols))):
            n = rng.choice([5, 10, 12.5, 250])
            text = rng.choice([sy + fmt_dec(n), fmt_dec(n) + sy, fmt_dec(n) + " " + sy])
            e = self.expect("Money", None, Fraction(repr(float(n))))
            e["cur_any"] = sorted(self.foreign_symbols[sy])
            add("C06-symbol-not-alias", [ex(text)], [e])
        # K3: an alias written in non-Latin letters after the amount
        for al, code in sorted(self.nonlatin_aliases.items()):
            for text in (["10 " + al, "25" + al] if len(self.nonlatin_aliases) < 3 else ["10 " + al]):
                add("C06-nonlatin-alias", [ex(text)], [self.expect("Money", code, Fraction(int(text[:2])))])
        # K4: a code that is also a time-zone abbreviation: after a suffixed amount, and as a conversion target
        for code in sorted(self.tz_codes):
            n, sfx = rng.choice([1, 25, 3]), rng.choice(list(SUFFIX))
            name = rng.choice([code.lower(), code.upper()])
            add("C06-code-is-timezone", [ex("%d%s %s" % (n, sfx, name))],
                [self.expect("Money", code, Fraction(n) * SUFFIX[sfx])])
            a = rng.choice(self.codes)
            add("C06-code-is-timezone",
                [{"op": "update_currency", "cur": code.lower(), "rate": str(bits(2.0))}, ex("25 " + name),
                 ex("10 %s %s %s" % (a.lower(), rng.choice(self.words), name))],
                [{"ret": True}, self.expect("Money", code, Fraction(25)),
                 self.expect("Money", code, Fraction(10) / self.rates[a] * 2, scale=Fraction(10))])
        return out

    def single(self, kind=None, text_e=None):
        text, e = text_e or self.evaluation(self.rates, kind)
        return {"ops": [{"op": "exec", "lang": "en", "text": text}], "meta": {"kind": kind or "eval", "steps": [e]}}


def generate(rng, tier):
    g = Gen(rng)
    quick = tier == "quick"
    n = 500 if quick else 7000
    cases = []
    # every conversion word x ordered pairs (all pairs in the thorough tier)
    pairs = [(a, b) for a in g.codes for b in g.codes]
    # different rated currencies that are PRINTED with the same symbol ($, kr, kr., ¥ ...) are different currencies: the
    # ordered pairs among them are always generated, as conversions and as operands of + - /
    by_symbol = {}
    for v in g.cur.values():
        if v["code"] in g.rates:
            by_symbol.setdefault(v["symbol"], []).append(v["code"])
    same_symbol = [(a, b) for cs in by_symbol.values() for a in cs for b in cs if a != b]
    if quick:
        pairs = rng.sample(pairs, 60) + same_symbol
    for i, (a, b) in enumerate(pairs):
        w = g.words[i % len(g.words)]
        text = "100 %s %s %s" % (a.lower(), w, b.lower())
        cases.append(g.single("pair", (text, g.expect("Money", b, g.conv(g.rates, Fraction(100), a, b), scale=Fraction(100)))))
    # every currency code of the table x the spellings of a literal
    forms = [("%s %s", 1), ("%s%s", 1), ("%sk %s", 1000), ("%sM  %s", 1000000), ("-%s %s", -1), ("%s  %s", 1)]
    for i, code in enumerate(g.all_codes if not quick else rng.sample(g.all_codes, 40)):
        for j, (form, mult) in enumerate(forms if not quick else [forms[i % len(forms)]]):
            amt = AMOUNTS[(i + j) % len(AMOUNTS)]
            name = [code.lower(), code.upper(), mixed(rng, code)][(i + j) % 3]
            if resolve(name, g.cur, g.alias) != code or (code in g.tz_codes and mult in (1000, 1000000)):
                continue
            text = form % (fmt_dec(amt), name)
            cases.append(g.single("spelling", (text, g.expect("Money", code, Fraction(repr(float(amt))) * mult))))
    # aliases and symbols, all of them
    for al, code in sorted(g.alias.items()):
        if al.isascii() and al.isalpha() and len(al) >= 2:
            for text, v in (("25 " + al, 25), ("25" + al.upper(), 25), ("3k " + al, 3000)):
                cases.append(g.single("alias", (text, g.expect("Money", code, Fraction(v)))))
        elif al in sum(g.symbols.values(), []):
            for text, v in ((al + "25", 25), ("25" + al, 25), ("25 " + al, 25), (al + "3k", 3000), ("3M " + al, 3000000),
                            (al + "1.250,5", Fraction(2501, 2))):
                cases.append(g.single("symbol", (text, g.expect("Money", code, Fraction(v)))))
    # the recorded findings: a few cases of each mechanism, with the statement's expectation (see known_class)
    cases.extend(g.known_cases())
    cases.extend(g.pinned_histories())
    for a, b in same_symbol:
        x = Fraction(10)
        c = g.conv(g.rates, x, b, a)
        if b in g.tz_codes or a in g.tz_codes:
            continue
        cases.append(g.single("same-symbol-add", ("10 %s + 10 %s" % (a.lower(), b.lower()), g.expect("Money", a, x + c, scale=x))))
        cases.append(g.single("same-symbol-ratio", ("10 %s / 10 %s" % (a.lower(), b.lower()), g.expect("Number", None, x / c))))
    # neighbours of the literal forms the statement does not promise: under the correspondence check only
    for text in ["1 usd to tmt", "10 usd to лв", "$ 10", "usd 10", "10kusd"]:
        cases.append(g.single("limit", (text, {"typ": "Money", "cur": None})))
    while len(cases) < n:
        if rng.random() < 0.45:
            cases.append(g.history())
        else:
            cases.append(g.single())
    return cases


def close(got, exp, scale):
    if got != got or abs(got) == float("inf"):
        return False
    g = Fraction(repr(got))
    if scale == 0:
        return abs(g) <= Fraction(1, 10 ** 12)
    return abs(g - exp) <= abs(scale) * TOL


def check_value(line, st):
    if "expect" not in st:
        return None
    if line is None:
        return "expected a result, got nothing"
    k, v = line_value(line)
    if k != "item" or v["t"] != st["typ"]:
        return "expected %s, got %s %r" % (st["typ"], k, v)
    if st["typ"] == "Money" and v["cur"] not in (st.get("cur_any") or [st["cur"]]):
        return "expected currency %s, got %s" % (st.get("cur_any") or st["cur"], v["cur"])
    exp = Fraction(st["expect"][0], st["expect"][1])
    got = from_bits(v["v"])
    if not close(got, exp, Fraction(st["scale"][0], st["scale"][1])):
        return "expected %.17g, got %.17g" % (float(exp), got)
    return None


def nontrivial(c, rec):
    lines = last_lines(rec)
    if not lines or lines[-1] is None:
        return False
    k, v = line_value(lines[-1])
    return k == "item" and v["t"] in ("Money", "Number")


def spec_check(c, rec, header):
    m = c["meta"]
    if rec is None or rec.get("hang") or rec.get("crash"):
        return "evaluation hung or crashed"
    if len(rec["obs"]) != len(m["steps"]):
        return "expected %d observations, got %d" % (len(m["steps"]), len(rec["obs"]))
    for i, (st, ob) in enumerate(zip(m["steps"], rec["obs"])):
        if "panic" in ob:
            return "operation %d panicked" % i
        if "ret" in st:
            if ob.get("ret") != st["ret"]:
                return "operation %d: update_currency returned %r, expected %r" % (i, ob.get("ret"), st["ret"])
        else:
            lines = ob.get("lines")
            ln = st.get("line", 0)
            if not lines or len(lines) != ln + 1:
                return "operation %d: expected %d line(s), got %r" % (i, ln + 1, lines and len(lines))
            v = check_value(lines[ln], st)
            if v:
                return "operation %d: %s" % (i, v)
    return None


AMT = r"[-+]?[0-9][0-9.,]*"


def known_class(c, rec, verdict, known):
    """narrow syntactic predicates, one per recorded class, on the text of the failing operation of a case the
    generator tagged with that class; anything else stays a violation"""
    m = c["meta"]
    ids = {f["class"] for f in known}
    cls = m.get("cls")
    if m.get("kind") != "known-class" or cls not in ids:
        return None
    mo = re.match(r"operation (\d+):", verdict or "")
    if not mo:
        return None
    op = c["ops"][int(mo.group(1))]
    if op.get("op") != "exec" or op.get("lang") != "en":
        return None
    text = op["text"]
    cur, rates, alias, words, tz = load_tables()
    symbols = [re.escape(a) for a in alias if len(a) == 1 and not a.isalnum()]
    tzcodes = [v["code"] for v in cur.values() if v["code"].upper() in tz]
    conv_words = "|".join(re.escape(w) for w in words)
    if cls == "C06-suffix-symbol-drops-rest":
        # amount, suffix, blank(s), configured symbol, blank, then something more
        ok = re.fullmatch(AMT + r"[kKM] +(%s) +\S.*" % "|".join(symbols), text)
    elif cls == "C06-symbol-not-alias":
        # the whole line is one literal whose symbol is a Unicode currency symbol that is no alias
        mo = re.fullmatch(r"(?:(\S)" + AMT + "|" + AMT + r" ?(\S))", text)
        sy = mo and (mo.group(1) or mo.group(2))
        ok = bool(sy) and unicodedata.category(sy) == "Sc" and sy not in alias
    elif cls == "C06-nonlatin-alias":
        # the whole line is amount + alias, the alias being letters outside ASCII
        mo = re.fullmatch(AMT + r" ?(\S+)", text)
        ok = bool(mo) and mo.group(1).lower() in alias and mo.group(1).isalpha() and not mo.group(1).isascii()
    elif cls == "C06-code-is-timezone":
        # a code that is also a time-zone name: after a suffixed amount, or as the target of a conversion
        codes = "|".join(tzcodes)
        ok = bool(tzcodes) and (re.fullmatch(AMT + r"[kKM] +(%s)" % codes, text, re.I) or
                                re.fullmatch(AMT + r" ?[a-zA-Z]{2,} (%s) (%s)" % (conv_words, codes), text, re.I))
    else:
        ok = False
    return cls if ok else None


def witness_fails(f, wc, rec, header):
    """the recorded witness still shows the recorded wrong answer"""
    lines = last_lines(rec)
    w = f["observed"]
    if lines is None or not lines:
        return False
    k, v = line_value(lines[-1])
    if "err" in w:
        return k == "err" and v == w["err"]
    if "out" in w:
        return lines[-1] is not None and lines[-1].get("out") == w["out"]
    return False
