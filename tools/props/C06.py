"""C06 - money literals, currency conversion and money arithmetic follow the rate table."""
import json
from fractions import Fraction
from .common import *

THEOREMS = ["c06_convert", "c06_convert_id", "c06_all_pairs", "c06_arith", "c06_update_history", "c06_read_currency",
            "c06_nonvacuous"]
ALLOWED_AXIOMS = []
DETAIL = 0
RULE = ("ordered pairs of the rated currencies x amounts x literal spellings (symbol before, code/alias after with 0/1 "
        "blank, k/M suffix, sign); + - between money, * / by numbers, money/money; histories of <= 6 rate updates "
        "(codes in any case, aliases, unknown names) interleaved with conversions; expected = exact rational formula "
        "over the configured rate table of /repo, relative tolerance 2^-40; non-trivial = evaluates to money or a "
        "number; distinct = distinct history")
ASSUMPTIONS = ["the rate table is read from /repo/src/json/config.json on every run (an edited rate is not a violation)"]
TOL = Fraction(1, 2 ** 40)


def load_tables():
    cfg = json.load(open("/repo/src/json/config.json", encoding="utf-8"))
    cur = {k.lower(): v for k, v in cfg["currencies"].items()}
    rates = {cur[k]["code"]: Fraction(repr(float(v))) for k, v in cfg["currency_rates"].items() if k in cur}
    alias = {k: cur[v]["code"] for k, v in cfg["currency_alias"].items() if v in cur}
    return cur, rates, alias


def resolve(name, cur, alias):
    k = name.lower()
    if k in alias:
        return alias[k]
    if k in cur:
        return cur[k]["code"]
    return None


AMOUNTS = [0, 1, 2, 5, 10, 12.5, 99.99, 100, 250, 1000, 1234.5, 0.5, 0.01, 1000000]
SYMBOLS = {"USD": "$", "TRY": "₺", "EUR": "€"}
ALIASES_AFTER = {"USD": ["usd", "dollar", "USD", "Usd"], "TRY": ["try", "tl", "TL", "TRY"], "EUR": ["eur", "euro", "EUR"],
                 "DKK": ["dkk", "kr", "kroner", "DKK"], "BGN": ["bgn", "leva", "lef"], "SEK": ["sek", "SEK"]}


def money_lit(rng, a, code):
    """(text, value) of a money literal"""
    mult, sfx = 1, ""
    if rng.random() < 0.15:
        sfx = rng.choice(["k", "K", "M"])
        mult = 1000 if sfx in "kK" else 1000000
    s = fmt_dec(a, tsep=rng.choice([None, None, "."]))
    v = Fraction(repr(float(a))) * mult
    if code in SYMBOLS and rng.random() < 0.4:
        return SYMBOLS[code] + s + sfx, v
    names = ALIASES_AFTER.get(code, [code.lower(), code.upper()])
    name = rng.choice(names)
    if sfx:
        return s + sfx + " " + name, v                      # the suffix form needs a blank before the code
    return s + rng.choice([" ", "", " "]) + name, v


def conv(rates, v, a, b):
    return v / rates[a] * rates[b]


def generate(rng, tier):
    cur, rates, alias = load_tables()
    codes = sorted(rates)
    n = 400 if tier == "quick" else 6000
    cases = []
    if tier != "quick":
        for a in codes:
            for b in codes:
                cases.append(exec_case("100 %s to %s" % (a.lower(), b.lower()), "en", kind="pair",
                                       typ="Money", cur=b, expect=frac(conv(rates, Fraction(100), a, b))))
    while len(cases) < n:
        r = rng.random()
        a, b = rng.choice(codes), rng.choice(codes)
        if rng.random() < 0.1:
            b = a
        amt = rng.choice(AMOUNTS) if rng.random() < 0.7 else round(rng.uniform(0, 100000), rng.randint(0, 2))
        if r < 0.4:
            lit, v = money_lit(rng, amt, a)
            tgt = rng.choice(ALIASES_AFTER.get(b, [b.lower(), b.upper()]))
            text = lit + " " + rng.choice(["to", "in", "as", "into"]) + " " + tgt
            cases.append(exec_case(text, "en", kind="convert", typ="Money", cur=b, expect=frac(conv(rates, v, a, b))))
        elif r < 0.5:
            lit, v = money_lit(rng, amt, a)
            neg = rng.random() < 0.3 and lit[0].isdigit()
            cases.append(exec_case(("-" if neg else "") + lit, "en", kind="literal", typ="Money", cur=a,
                                   expect=frac(-v if neg else v)))
        elif r < 0.75:
            l1, v1 = money_lit(rng, amt, a)
            k = rng.random()
            if k < 0.45:
                amt2 = rng.choice(AMOUNTS)
                l2, v2 = money_lit(rng, amt2, b)
                op = rng.choice("+-")
                res = v1 + conv(rates, v2, b, a) if op == "+" else v1 - conv(rates, v2, b, a)
                cases.append(exec_case("%s %s %s" % (l1, op, l2), "en", kind="money" + op + "money", typ="Money", cur=a, expect=frac(res)))
            elif k < 0.75:
                w = rng.choice([0, 1, 2, 3, 4, 10, 0.5, 12.5])
                op = rng.choice("*/")
                res = v1 * Fraction(repr(float(w))) if op == "*" else (v1 / Fraction(repr(float(w))) if w != 0 else Fraction(0))
                cases.append(exec_case("%s %s %s" % (l1, op, fmt_dec(w)), "en", kind="money" + op + "number", typ="Money", cur=a, expect=frac(res)))
            else:
                amt2 = rng.choice([x for x in AMOUNTS if x != 0])
                l2, v2 = money_lit(rng, amt2, b)
                d = conv(rates, v2, b, a)
                res = v1 / d if d != 0 else Fraction(0)
                cases.append(exec_case("%s / %s" % (l1, l2), "en", kind="money/money", typ="Number", cur=None, expect=frac(res)))
        else:
            # a history of rate updates, then conversions that must see exactly the current table
            table = dict(rates)
            ops, steps = [], []
            for _ in range(rng.randint(1, 6)):
                if rng.random() < 0.65:
                    name = rng.choice([rng.choice(codes), rng.choice(codes).lower(), rng.choice(list(alias)), "xyz", "", "bitcoin"])
                    rate = rng.choice([0.5, 1.0, 2.0, 7.25, 100.0, 0.001, 3.5])
                    code = resolve(name, cur, alias)
                    ops.append({"op": "update_currency", "cur": name, "rate": str(bits(rate))})
                    steps.append({"ret": code is not None})
                    if code is not None:
                        table[code] = Fraction(repr(rate))
                else:
                    x, y = rng.choice(sorted(table)), rng.choice(sorted(table))
                    if x not in rates or y not in rates:
                        x, y = a, b
                    ops.append({"op": "exec", "lang": "en", "text": "%s %s to %s" % (fmt_dec(amt), x.lower(), y.lower())})
                    steps.append({"typ": "Money", "cur": y, "expect": frac(conv(table, Fraction(repr(float(amt))), x, y))})
            x, y = rng.choice(sorted(table)), rng.choice(sorted(table))
            ops.append({"op": "exec", "lang": "en", "text": "%s %s to %s" % (fmt_dec(amt), x.lower(), y.lower())})
            steps.append({"typ": "Money", "cur": y, "expect": frac(conv(table, Fraction(repr(float(amt))), x, y))})
            cases.append({"ops": ops, "meta": {"kind": "update-history", "steps": steps}})
    return cases


def frac(f):
    return [f.numerator, f.denominator]


def close(got, exp):
    if got != got or abs(got) == float("inf"):
        return False
    g = Fraction(repr(got))
    if exp == 0:
        return abs(g) <= Fraction(1, 10 ** 12)
    return abs(g - exp) <= abs(exp) * TOL


def check_value(line, typ, cur, expect):
    if line is None:
        return "expected a result, got nothing"
    k, v = line_value(line)
    if k != "item" or v["t"] != typ:
        return "expected %s, got %s %r" % (typ, k, v)
    if typ == "Money" and v["cur"] != cur:
        return "expected currency %s, got %s" % (cur, v["cur"])
    exp = Fraction(expect[0], expect[1])
    got = from_bits(v["v"])
    if not close(got, exp):
        return "expected %.17g, got %.17g" % (float(exp), got)
    return None


def nontrivial(c, rec):
    lines = last_lines(rec)
    if not lines or lines[0] is None:
        return False
    k, v = line_value(lines[0])
    return k == "item"


def spec_check(c, rec, header):
    m = c["meta"]
    if rec is None or rec.get("hang") or rec.get("crash"):
        return "evaluation hung or crashed"
    if m["kind"] == "update-history":
        for i, (st, ob) in enumerate(zip(m["steps"], rec["obs"])):
            if "panic" in ob:
                return "operation %d panicked" % i
            if "ret" in st:
                if ob.get("ret") != st["ret"]:
                    return "operation %d: update_currency returned %r, expected %r" % (i, ob.get("ret"), st["ret"])
            else:
                lines = ob.get("lines")
                if not lines or len(lines) != 1:
                    return "operation %d: expected one line" % i
                v = check_value(lines[0], st["typ"], st["cur"], st["expect"])
                if v:
                    return "operation %d: %s" % (i, v)
        return None
    lines = last_lines(rec)
    if lines is None:
        return "evaluation panicked or hung"
    if len(lines) != 1:
        return "expected one result line"
    return check_value(lines[0], m["typ"], m["cur"], m["expect"])


def known_class(c, rec, verdict, known):
    return None


def witness_fails(f, wc, rec, header):
    return False
