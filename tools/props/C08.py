"""C08 - separators affect only reading and printing of numbers, never the computed value.

A case evaluates the SAME abstract line twice in one history: its literals rendered in the convention of a first
separator configuration and evaluated under it, then rendered in a second convention and evaluated under that.
The oracle (written from the property statement, independent of the model) demands bit-identical VALUES (kind of the
result, token type, float bits, currency / unit, error text) for every line of the two evaluations; for lines that
consist of one literal it also demands the intended number float("<ip>.<fp>")."""
from .common import *

ALLOWED_AXIOMS = []
DETAIL = 0
RULE = ("abstract lines (single literals plain/percent/money/unit, with magnitude suffix; arithmetic of 2-4 literals with "
        "fractions and grouped thousands; the seven percent phrases on numbers and money; money conversion and money "
        "arithmetic in 8 currencies; unit conversions inside and across the metric/imperial/memory families; variables "
        "defined on one line and used on later lines) x ordered pairs of the six separator configurations "
        "(',' '.'), ('.' ','), ('.' ''), (',' ''), ('.' ' '), (',' \"'\"); literals rendered per configuration (integer "
        "part grouped in threes when the thousands separator is '.' or ','; fraction after the decimal separator); plus a "
        "dedicated kind grouped-other-*: literals grouped by a thousands separator ' ' or \"'\" with the normal expectation "
        "(known finding C08-K1); "
        "non-trivial = both evaluations give a value and the line has a literal with a fraction or a grouped integer "
        "part; distinct = distinct history")
ASSUMPTIONS = ["integer parts are grouped only when the thousands separator is '.' or ',': the literal regexes of "
               "config.json admit no other character inside a literal, so \"1 234\" or \"1'234\" is not one literal "
               "under any configuration: outside the dedicated kind grouped-other-* (known finding C08-K1) literals are "
               "written ungrouped when the thousands separator is ' ' or \"'\"",
               "intended number of a literal = python float of '<integer digits>.<fraction digits>' (correctly rounded)"]

CONFIGS = [(",", "."), (".", ","), (".", ""), (",", ""), (".", " "), (",", "'")]


# ---------------------------------------------------------------- abstract lines
class Lit:
    def __init__(self, ip, fp="", group=False):
        self.ip, self.fp, self.group = ip, fp, group

    def grouped_under(self, t, exotic=False):
        return self.group and len(self.ip) > 3 and (t in (".", ",") or (exotic and t != ""))

    def render(self, d, t, exotic=False):
        ip = self.ip
        if self.grouped_under(t, exotic):
            parts = []
            while len(ip) > 3:
                parts.insert(0, ip[-3:])
                ip = ip[:-3]
            parts.insert(0, ip)
            ip = t.join(parts)
        return ip + (d + self.fp if self.fp else "")

    def sensitive(self):
        return bool(self.fp) or (self.group and len(self.ip) > 3)

    def value(self):
        return float(self.ip + "." + (self.fp or "0"))


def render(parts, d, t, exotic=False):
    return "".join(p.render(d, t, exotic) if isinstance(p, Lit) else p for p in parts)


def rlit(rng, small=False, frac=None):
    """a random literal: no leading zeros, 1-7 integer digits, 0-4 fraction digits"""
    k = rng.random()
    if small:
        n = rng.randint(1, 3)
    else:
        n = 1 if k < 0.15 else rng.randint(1, 3) if k < 0.4 else rng.randint(4, 7)
    ip = str(rng.randint(1, 9)) + "".join(rng.choice("0123456789") for _ in range(n - 1))
    if n == 1 and rng.random() < 0.3:
        ip = "0"
    nf = rng.choice([0, 1, 1, 2, 2, 3, 4]) if frac is None else frac
    fp = "".join(rng.choice("0123456789") for _ in range(nf))
    if ip == "0" and (not fp or set(fp) == {"0"}):
        fp = "5"
    return Lit(ip, fp, group=rng.random() < 0.6)


FIXED = [Lit("1"), Lit("1", "5"), Lit("1234", "5", True), Lit("1234", "5", False), Lit("0", "1"), Lit("25", "4"),
         Lit("1000000", "", True), Lit("999", "999"), Lit("1000", "", True), Lit("12345678", "125", True), Lit("0", "001"),
         Lit("2", "54"), Lit("100"), Lit("1", "000", False), Lit("10", "50")]


def anylit(rng, **kw):
    return rng.choice(FIXED) if rng.random() < 0.25 else rlit(rng, **kw)


POST = ["usd", "try", "eur", "dkk", "sek", "gbp", "jpy", "bgn"]
# "£" is not a currency alias of config.json ("£25" evaluates to the number 0 under every configuration: not a
# separator matter, left to the money property)
PRE = ["$", "₺", "€"]
LEN_M = ["mm", "cm", "dm", "m", "dam", "hm", "km"]
W_M = ["mg", "cg", "dg", "g", "dag", "hg", "kg", "tonne"]
MEM = ["bit", "byte", "kb", "mb", "gb", "tb"]
LEN_I = ["inch", "ft", "yard", "furlong", "mile"]
W_I = ["oz", "lb", "stone"]
FAMILIES = [LEN_M, W_M, MEM, LEN_I, W_I]
CROSS = [(LEN_I, LEN_M), (LEN_M, LEN_I), (W_I, W_M), (W_M, W_I)]
TO = ["to", "in", "as", "into"]


def money(rng, l):
    if rng.random() < 0.3:
        return [rng.choice(PRE), l]
    return [l, rng.choice([" ", " ", ""]), rng.choice(POST)]


def shape(rng):
    """-> (kind, parts) ; parts: list of str / Lit"""
    k = rng.random()
    sp = " "
    if k < 0.10:
        l = anylit(rng)
        j = rng.randrange(8)
        if j == 0:
            return "literal", [l]
        if j == 1:
            return "literal-neg", ["-", l]
        if j == 2:
            return "literal-percent", [l, "%"] if rng.random() < 0.6 else ["%", l]
        if j == 3:
            return "literal-money", money(rng, l)
        if j == 4:
            return "literal-unit", [l, " ", rng.choice(rng.choice(FAMILIES))]
        if j == 5:
            return "literal-suffix", [rlit(rng, small=True), rng.choice(["k", "M", "K"])]
        if j == 6:
            return "literal-money-suffix", ["$", rlit(rng, small=True), rng.choice(["k", "M"])]
        return "literal", [l]
    if k < 0.28:
        n = rng.randint(2, 4)
        parts = []
        par = n >= 3 and rng.random() < 0.4
        for i in range(n):
            if i:
                parts.append(" %s " % rng.choice("+-*/"))
            if par and i == 0:
                parts.append("(")
            if rng.random() < 0.1:
                parts.append("-")
            parts.append(anylit(rng))
            if par and i == 1:
                parts.append(")")
        return "arith", parts
    if k < 0.42:
        x, p = anylit(rng), anylit(rng, small=True)
        xs = money(rng, x) if rng.random() < 0.4 else [x]
        ps = [p, "%"] if rng.random() < 0.7 else ["%", p]
        j = rng.randrange(7)
        if j == 0:
            return "pct-plus", xs + [" + "] + ps
        if j == 1:
            return "pct-minus", xs + [" - "] + ps
        if j == 2:
            return "pct-of", ps + [" of "] + xs
        if j == 3:
            return "pct-on", ps + [" on "] + xs
        if j == 4:
            return "pct-off", ps + [" off "] + xs
        if j == 5:
            return "pct-what", [x, " is what % of ", anylit(rng)]
        return "pct-of-what", xs + [" is "] + ps + [" of what"]
    if k < 0.58:
        a, b = anylit(rng), anylit(rng)
        c1, c2 = rng.choice(POST), rng.choice(POST)
        j = rng.randrange(7)
        if j <= 1:
            return "money-conv", money(rng, a) + [sp, rng.choice(TO), sp, c2]
        if j == 2:
            return "money-add", [a, sp, c1, rng.choice([" + ", " - "]), b, sp, c1]
        if j == 3:
            return "money-add-mixed", [a, sp, c1, rng.choice([" + ", " - "]), b, sp, c2]
        if j == 4:
            return "money-scale", [a, sp, c1, rng.choice([" * ", " / "]), b]
        if j == 5:
            return "money-ratio", [a, sp, c1, " / ", b, sp, c2]
        return "money-conv-arith", [a, sp, c1, " + ", b, sp, c2, sp, rng.choice(TO), sp, rng.choice(POST)]
    if k < 0.82:
        a, b = anylit(rng), anylit(rng)
        j = rng.randrange(6)
        if j <= 1:
            fam = rng.choice(FAMILIES)
            u1, u2 = rng.choice(fam), rng.choice(fam)
            return "unit-conv", [a, sp, u1, sp, rng.choice(TO), sp, u2]
        if j == 2:
            f1, f2 = rng.choice(CROSS)
            return "unit-conv-cross", [a, sp, rng.choice(f1), sp, rng.choice(TO), sp, rng.choice(f2)]
        if j == 3:
            fam = rng.choice(FAMILIES)
            return "unit-add", [a, sp, rng.choice(fam), rng.choice([" + ", " - "]), b, sp, rng.choice(fam)]
        if j == 4:
            fam = rng.choice(FAMILIES)
            return "unit-scale", [a, sp, rng.choice(fam), rng.choice([" * ", " / "]), b]
        fam = rng.choice(FAMILIES)
        return "unit-ratio", [a, sp, rng.choice(fam), " / ", b, sp, rng.choice(fam)]
    # several lines sharing variables
    a, b = anylit(rng), anylit(rng)
    j = rng.randrange(6)
    if j == 0:
        return "var-number", ["x = ", a, "\nx * ", b, "\nx"]
    if j == 1:
        return "var-money", ["price = "] + money(rng, a) + ["\nprice ", rng.choice(TO), " ", rng.choice(POST), "\nprice + ",
                                                              anylit(rng, small=True), "%"]
    if j == 2:
        fam = rng.choice(FAMILIES)
        return "var-unit", ["u = ", a, " ", rng.choice(fam), "\nu ", rng.choice(TO), " ", rng.choice(fam), "\nu + ", b, " ",
                            rng.choice(fam)]
    if j == 3:
        return "var-percent", ["p = ", anylit(rng, small=True), "%\n", a, " + p\np of ", b]
    if j == 4:
        return "var-chain", ["x = ", a, "\ny = x / ", b, "\nx + y\ny"]
    f1, f2 = rng.choice(CROSS)
    return "var-unit-cross", ["w = ", a, " ", rng.choice(f1), "\nw ", rng.choice(TO), " ", rng.choice(f2)]


# (kind, parts, expected value of every line or None): the expected values are computed here with python floats by the
# textbook operation sequence, so a separator leak that hits both configurations alike is still seen
PINNED = [
    ("unit-conv-cross", [Lit("1"), " inch to mm"], [25.4]),
    ("unit-conv", [Lit("1", "5"), " km to m"], [1500.0]),
    ("unit-conv", [Lit("1"), " m to km"], [1.0 / 10 / 10 / 10]),
    ("unit-conv", [Lit("1234", "5", True), " m to km"], [1234.5 / 10 / 10 / 10]),
    ("unit-conv-cross", [Lit("2", "54"), " cm to inch"], None),
    ("unit-conv-cross", [Lit("1", "5"), " oz to g"], None),
    ("unit-conv", [Lit("1"), " kg to hg"], [10.0]),
    ("unit-conv", [Lit("1", "5"), " mb to kb"], [1536.0]),
    ("var-number", ["x = ", Lit("1234", "5", True), "\nx * ", Lit("2")], [1234.5, 2469.0]),
    ("money-conv", [Lit("10"), " usd to try"], None),
    ("money-conv", [Lit("1234", "56", True), " usd to try"], None),
    ("arith", [Lit("1234", "5", True), " * ", Lit("2")], [2469.0]),
    ("arith", [Lit("1000000", "", True), " / ", Lit("3")], [1000000.0 / 3]),
    ("pct-plus", [Lit("1234", "5", True), " + ", Lit("12", "5"), "%"], [1234.5 + (1234.5 / 100) * 12.5]),
    ("literal", [Lit("1", "000", False)], None),
    ("literal", [Lit("1000", "", True)], None),
]


KNOWN_GROUPING = "C08-grouping-separator-not-lexed"


ORDER = {"flip": False}


def pair_case(kind, parts, c1, c2, expect=None, exotic=False, prime=()):
    """exotic: group the integer parts by the thousands separator also when it is not '.' or ',' (the convention the
    configuration asks for; known finding C08-K1: the lexer splits such literals)"""
    ops = []
    for k, (d, t) in enumerate((c1, c2)):
        setters = [{"op": "set_dec", "v": d}, {"op": "set_thou", "v": t}]
        if ORDER["flip"]:
            setters.reverse()          # the configuration reached must not depend on the order of the two setters
        ops += setters
        if k == 0:
            # priming evaluations on the same calculator under the FIRST configuration: what a spelling meant in an
            # earlier evaluation (or inside a conversion code) must not influence what it means later
            ops += [{"op": "exec", "lang": "en", "text": t0} for t0 in prime]
        ops += [{"op": "exec", "lang": "en", "text": render(parts, d, t, exotic)}]
    lits = [p for p in parts if isinstance(p, Lit)]
    meta = {"kind": kind, "sensitive": any(l.sensitive() for l in lits), "cfg": [list(c1), list(c2)],
            # syntactic record of what was written: which literals are grouped by which separator in each evaluation
            "grouped_by": [sorted({t for l in lits if l.grouped_under(t, exotic)}) for (d, t) in (c1, c2)]}
    if kind in ("literal", "literal-percent", "literal-money", "literal-unit", "literal-neg"):
        v = lits[0].value()
        meta["intended"] = bits(-v if kind == "literal-neg" else v)
    if expect is not None:
        meta["expect"] = [bits(x) for x in expect]
    return {"ops": ops, "meta": meta}


def generate(rng, tier):
    n = 330 if tier == "quick" else 5000
    cases = []
    pairs = [(a, b) for a in CONFIGS for b in CONFIGS if a != b]
    for i, (kind, parts, expect) in enumerate(PINNED):
        # the pinned lines under the two mainstream conventions and one rotating other pair
        cases.append(pair_case(kind, parts, CONFIGS[0], CONFIGS[1], expect))
        cases.append(pair_case(kind, parts, *pairs[(7 * i + 3) % len(pairs)], expect=expect))
    # grouped literals under a thousands separator that is not '.' or ',' (normal expectation; known finding C08-K1)
    exotic_cfgs = [c for c in CONFIGS if c[1] not in (".", ",", "")]
    plain_cfgs = [c for c in CONFIGS if c[1] in (".", ",", "")]
    big = [Lit("1234", "5", True), Lit("1234", "", True), Lit("1000000", "", True), Lit("12345678", "125", True)]
    shapes = [lambda l: ("grouped-other-literal", [l]), lambda l: ("grouped-other-literal-percent", [l, "%"]),
              lambda l: ("grouped-other-literal-money", [l, " usd"]), lambda l: ("grouped-other-arith", [l, " * ", Lit("2")]),
              lambda l: ("grouped-other-unit", [l, " m to km"]), lambda l: ("grouped-other-var", ["x = ", l, "\nx * ", Lit("2")])]
    m = 14 if tier == "quick" else 200
    for i in range(m):
        l = big[i % len(big)] if i < 8 else rlit(rng)
        if i >= 8:
            l = Lit(l.ip if len(l.ip) > 3 else l.ip + "000", l.fp, True)
        kind, parts = shapes[i % len(shapes)](l)
        ce = exotic_cfgs[i % len(exotic_cfgs)]
        cp = plain_cfgs[(i // 2) % len(plain_cfgs)]
        # the single-literal shapes keep the "intended number" expectation of their plain kind
        base = kind.replace("grouped-other-", "") if kind.startswith("grouped-other-literal") else kind
        pc = pair_case(base, parts, cp, ce, exotic=True)
        pc["meta"]["kind"] = kind
        cases.append(pc)
    # user-defined unit families whose conversion code holds fractional number, percent and money-free literals: the
    # code is written with '.' and no grouping and must be read so under EVERY configuration
    fam = [{"op": "add_type", "name": "tax"},
           {"op": "add_type_item", "name": "tax", "index": 1, "format": "{value} net", "parse": ["{NUMBER:value} {TEXT:type:net}"],
            "up": "{value} + 7.5%", "down": "{value}", "names": ["net"]},
           {"op": "add_type_item", "name": "tax", "index": 2, "format": "{value} gross", "parse": ["{NUMBER:value} {TEXT:type:gross}"],
            "up": "{value} * 1.25", "down": "{value} / 1.075", "names": ["gross"]},
           {"op": "add_type_item", "name": "tax", "index": 3, "format": "{value} final", "parse": ["{NUMBER:value} {TEXT:type:final}"],
            "up": "{value}", "down": "{value} / 1.25", "names": ["final"]}]
    probes = [("200 net to gross", 215.0), ("215 gross to net", 200.0), ("100 gross to final", 125.0), ("100 final to gross", 80.0),
              ("200 net to final", 268.75)]
    for i, (c1, c2) in enumerate(pairs if tier != "quick" else pairs[::3]):
        text, val = probes[i % len(probes)]
        ops = list(fam)
        for (d, t) in (c1, c2):
            ops += [{"op": "set_dec", "v": d}, {"op": "set_thou", "v": t}, {"op": "exec", "lang": "en", "text": text}]
        cases.append({"ops": ops, "meta": {"kind": "user-unit-code", "sensitive": True, "cfg": [list(c1), list(c2)],
                                           "grouped_by": [[], []], "expect": [bits(val)]}})
    # the same spelling under two conventions on ONE calculator: "1.500" is 1500 under (',', '.') and 1,5 under ('.', ',')
    mirror = [((",", "."), (".", ",")), ((".", ","), (",", "."))]
    for i, (kind, parts, expect) in enumerate(PINNED):
        c1, c2 = mirror[i % 2]
        cases.append(pair_case(kind, parts, c1, c2, expect, prime=[render(parts, *c2)]))
    for c1, c2 in mirror:
        one24 = [Lit("1", "024"), " + ", Lit("1")]
        cases.append(pair_case("arith", one24, c1, c2, [1.024 + 1], prime=[render([Lit("1024", "", True), " km to m"], *c1)]))
        cases.append(pair_case("arith", [Lit("1024", "", True), " + ", Lit("1")], c1, c2, [1025.0],
                               prime=[render([Lit("1", "024"), " km to m"], *c1)]))
    while len(cases) < n:
        kind, parts = shape(rng)
        c1, c2 = rng.choice(pairs)
        ORDER["flip"] = rng.random() < 0.5
        prime = ()
        if rng.random() < 0.2 and (c1, c2) in mirror:
            prime = [render(parts, *c2)]
        elif rng.random() < 0.1:
            c1, c2 = rng.choice(mirror)
            prime = [render(parts, *c2)]
        cases.append(pair_case(kind, parts, c1, c2, prime=prime))
    ORDER["flip"] = False
    return cases


# ---------------------------------------------------------------- oracle
def exec_idx(c):
    return [i for i, o in enumerate(c["ops"]) if o["op"] == "exec"][-2:]       # the pair; priming evaluations come before


def exec_obs(rec, c=None):
    """the observations of the two exec ops, or None (panic / hang)"""
    if rec is None or rec.get("hang") or rec.get("crash"):
        return None
    obs = rec["obs"]
    i1, i2 = exec_idx(c) if c is not None else (2, 5)
    if len(obs) <= i2:
        return None
    out = []
    for o in (obs[i1], obs[i2]):
        if "panic" in o or o.get("lines") is None:
            return None
        out.append(o["lines"])
    return out


def value_of(line):
    """the VALUE of a line result: everything but the printed text and the highlighting"""
    k, v = line_value(line)
    return (k, json_key(v))


def json_key(v):
    import json
    return json.dumps(v, sort_keys=True, ensure_ascii=False)


def nontrivial(c, rec):
    ob = exec_obs(rec, c)
    if ob is None or not c["meta"]["sensitive"]:
        return False
    return all(ls and all(l is not None and line_value(l)[0] == "item" for l in ls) for ls in ob)


def spec_check(c, rec, header):
    ob = exec_obs(rec, c)
    if ob is None:
        return "an evaluation panicked or hung"
    a, b = ob
    i1, i2 = exec_idx(c)
    t1, t2 = c["ops"][i1]["text"], c["ops"][i2]["text"]
    if len(a) != len(b):
        return "%r gives %d lines, %r gives %d" % (t1, len(a), t2, len(b))
    for i, (la, lb) in enumerate(zip(a, b)):
        va, vb = value_of(la), value_of(lb)
        if va != vb:
            return "line %d: %r under %r = %s %s but %r under %r = %s %s" % (
                i, t1, c["meta"]["cfg"][0], va[0], va[1], t2, c["meta"]["cfg"][1], vb[0], vb[1])
    exp = c["meta"].get("expect")
    if exp is not None:
        if len(a) != len(exp):
            return "%r: expected %d lines, got %d" % (t1, len(exp), len(a))
        for i, (la, e) in enumerate(zip(a, exp)):
            k, v = line_value(la)
            if k != "item" or "v" not in v:
                return "line %d of %r: expected the value %.17g, got %s %r" % (i, t1, from_bits(e), k, v)
            if int(v["v"]) != e:
                return "line %d of %r: expected %.17g, got %.17g" % (i, t1, from_bits(e), from_bits(v["v"]))
    want = c["meta"].get("intended")
    if want is not None:
        k, v = line_value(a[0]) if a and a[0] is not None else ("none", None)
        if k != "item" or "v" not in v:
            return "the literal %r is not read as a value: %s %r" % (t1, k, v)
        if int(v["v"]) != want:
            return "the literal %r denotes %.17g, read as %.17g" % (t1, from_bits(want), from_bits(v["v"]))
    return None


def known_class(c, rec, verdict, known):
    """C08-K1, narrow and syntactic: an evaluation whose configured thousands separator is not '.' or ',' was given a
    line that contains a literal grouped by that separator, and the failure is a wrong value (never a panic)"""
    if KNOWN_GROUPING not in {f["class"] for f in known}:
        return None
    if verdict.startswith("an evaluation panicked"):
        return None
    for (d, t), by in zip(c["meta"]["cfg"], c["meta"].get("grouped_by", [[], []])):
        if t not in (".", ",", "") and t in by:
            return KNOWN_GROUPING
    return None


def witness_fails(f, wc, rec, header):
    """the recorded witness still prints the recorded (wrong) text"""
    lines = last_lines(rec)
    if not lines or lines[-1] is None:
        return False
    return lines[-1].get("out") == f["observed"].get("out")
