"""C07 - numbers print correctly rounded, grouped and signed in every format setting.

Cases: one calculator configuration per case (a separator pair, the number / percentage / money configurations and a
user-defined unit family with its own digits and flags, all set through the public setters), then ONE evaluation of a
text with several lines; every line injects one binary64 value exactly:
    [NUMBER:x]                        a plain number             (number configuration)
    [PERCENT:x]                       a percentage               (percentage configuration)
    [MONEY:1.;code] * [NUMBER:x]      a money amount 1 * x = x   (money configuration, the currency's digits)
    [NUMBER:x] km / [NUMBER:x] zed    a unit quantity            (defaults 2/true/true, or the unit's own settings)
(the atom [MONEY:x;code] itself only survives when x ends in '.', because the global alias ';' -> '' whose regex is
\\b;\\b turns the atom's token into Text("") otherwise - in the crate and in the model alike; hence the product).

Oracle (independent of the model, written from the statement): python `decimal` on the exact binary64 expansion
Decimal(float): rounded half-even to n digits (what "{:.N}" prints), or the shortest round-trip rendering when rounding
is switched off; integer part grouped in threes from the right; '-' for values below zero; fraction omitted iff removal
is enabled and all printed fraction digits are zero (or there are none); '%' prefix; currency symbol, placement and
digits from config.json; the unit's format string.

The former known class C07-double-rounding (integer-part length and zero-fraction test taken from a separately rounded
copy round(x*10^n)/10^n) was repaired in /repo 9ef4dcc: no class is excused any more, every line must pass the oracle."""
import json, math
from decimal import Decimal, ROUND_HALF_EVEN, localcontext
from .common import *

ALLOWED_AXIOMS = []
DETAIL = 0
RULE = ("values: rounding boundaries k + 0.5*10^-n +- 1 ulp (k in 0, 1, 9, 99, 999, 999999, ...), 0.995, 99.995, 999.995, "
        "999999.995, values below one unit of the last digit, +-0, negatives, 10^0..10^22, 2^53, largest finite, smallest "
        "subnormal, k/8 ties, random magnitudes 1e-9..1e18; x digits 0..9 x both flags x 8 separator pairs (two with a multi-character thousands separator) x 14 currencies "
        "x number / percent / money / built-in units / a user-defined unit family with its own digits and flags; "
        "non-trivial = every line evaluated to an item carrying exactly the injected binary64; distinct = distinct histories")
ASSUMPTIONS = ["currency digits / symbol / placement and unit format strings are read from /repo/src/json/config.json",
               "with rounding switched off the specified digits are those of the shortest round-trip rendering (Rust \"{}\")",
               "a negative value is one that compares below zero (so -0.004 prints as -0 / -0,00 and -0.0 prints unsigned)"]

_cfg = json.load(open("/repo/src/json/config.json", encoding="utf-8"))
CUR = {k.lower(): v for k, v in _cfg["currencies"].items()}
UNITS = {}
for _g in _cfg["types"]:
    for _it in _g["items"]:
        for _n in _it["names"]:
            UNITS.setdefault(_n, (_g["name"], _it["index"], _it["format"], _it.get("decimal_digits"),
                                  _it.get("remove_fract_if_zero"), _it.get("use_fract_rounding")))
# 14 currencies: every placement (left/right x space/no space) and every digit count (0, 1, 2, 3) of the table
CURRENCIES = [c for c in ["usd", "eur", "jpy", "bhd", "try", "gbp", "all", "btn", "mvr", "vnd", "bif", "lyd", "chf", "kwd"]
              if c in CUR]
BUILTIN_UNITS = [u for u in ["km", "kg", "mm", "meter"] if u in UNITS]
SEPARATORS = [(",", "."), (".", ","), (",", " "), (".", "'"), (".", ""), ("٫", "٬"),      # (decimal, thousands)
              (",", "' "), (".", "&nbsp;")]      # separators are strings: several characters, not palindromes
FAMILY = "cseven"
# user-defined units: (name, format, digits, round, rm); None = left to the default 2 / true / true
CUSTOM = [("zed", "{value} zd", 0, True, False), ("yod", "<{value}>yd", 4, False, True), ("wex", "{value} wx", 3, None, None),
          ("vav", "vv {value}", None, False, False), ("ush", "{value}u", 7, True, True), ("tav", "{value} tv", 1, False, None)]


# ---------------------------------------------------------------- the oracle
def exact_text(x):
    """a decimal literal that parses to exactly x: plain digits when short, else the shortest round-trip literal with an
    exponent (long lines are slow in the model's regex matcher; Rust's parse is correctly rounded either way)"""
    r = repr(x)
    if "e" not in r:
        return r
    with localcontext() as ctx:
        ctx.prec = 2500
        s = format(Decimal(r), "f")
    return s if len(s) <= 40 else r


def fixed_str(ax, n):
    """Rust format!("{:.n$}", ax) for a non-negative finite ax: exact value, ties to even"""
    with localcontext() as ctx:
        ctx.prec = 2500
        q = Decimal(ax).quantize(Decimal(1).scaleb(-n), rounding=ROUND_HALF_EVEN)
        return format(q, "f")


def display_str(ax):
    """Rust format!("{}", ax) for a non-negative finite ax: shortest round-trip digits, never an exponent"""
    with localcontext() as ctx:
        ctx.prec = 2500
        s = format(Decimal(repr(ax)), "f")
    if "." in s:
        s = s.rstrip("0").rstrip(".")
    return s


def group3(ip, tsep):
    out = []
    while len(ip) > 3:
        out.insert(0, ip[-3:])
        ip = ip[:-3]
    out.insert(0, ip)
    return tsep.join(out)


def display_alternatives(ax):
    """other digit strings of the same length as the shortest round-trip rendering that also read back as ax: when the
    value lies exactly half-way between two shortest candidates the choice between them is not fixed by "shortest
    round-trip" (python picks the even digit, Rust's Grisu/Dragon the upper one); both are correctly rounded renderings"""
    s = display_str(ax)
    if "." not in s:
        return []
    out = []
    head, last = s[:-1], int(s[-1])
    for d in (last - 1, last + 1):
        if 0 <= d <= 9:
            alt = head + str(d)
            if float(alt) == ax:
                out.append(alt)
    return out


ALT = {"st": None}


def spec_number(x, n, rm, rnd, dsep, tsep):
    st = fixed_str(abs(x), n) if rnd else (ALT["st"] or display_str(abs(x)))
    ip, dot, fp = st.partition(".")
    out = ("-" if x < 0 else "") + group3(ip, tsep)
    if dot and not (rm and set(fp) <= {"0"}):
        out += dsep + fp
    return out


def expected(item, cfg):
    x = from_bits(item["bits"])
    k = item["k"]
    dsep, tsep = cfg["dsep"], cfg["tsep"]
    if k == "number":
        n, rm, rnd = cfg["num"]
        return spec_number(x, n, rm, rnd, dsep, tsep), n, rnd
    if k == "percent":
        n, rm, rnd = cfg["pct"]
        return "%" + spec_number(x, n, rm, rnd, dsep, tsep), n, rnd
    if k == "money":
        c = CUR[item["cur"]]
        rm, rnd = cfg["money"]
        n = c["decimalDigits"]
        p = spec_number(x, n, rm, rnd, dsep, tsep)
        sp = " " if c["spaceBetweenAmountAndSymbol"] else ""
        return (c["symbol"] + sp + p if c["symbolOnLeft"] else p + sp + c["symbol"]), n, rnd
    if k == "unit":
        fmt, n, rm, rnd = item["fmt"], item["n"], item["rm"], item["rnd"]
        n = 2 if n is None else n
        rm = True if rm is None else rm
        rnd = True if rnd is None else rnd
        return fmt.replace("{value}", spec_number(x, n, rm, rnd, dsep, tsep)), n, rnd
    raise ValueError(k)


# ---------------------------------------------------------------- generator
def ulp_nbrs(x):
    return [math.nextafter(x, -math.inf), x, math.nextafter(x, math.inf)]


def value_pool(rng, n):
    """values that stress n printed digits"""
    vals = []
    for k in (0, 1, 9, 99, 999, 999999, 12345678, rng.randint(0, 10 ** rng.randint(1, 9))):
        with localcontext() as ctx:
            ctx.prec = 60
            b = float(Decimal(k) + Decimal(5).scaleb(-n - 1))
        vals += ulp_nbrs(b)
    vals += [0.995, 99.995, 999.995, 999999.995, 0.005, 0.045, 1.005, 2.675, 0.125, 0.375, 2.5, 3.5, 0.5, 1.5]
    vals += [0.4 * 10.0 ** (-n), 0.04 * 10.0 ** (-n), 0.6 * 10.0 ** (-n), 1e-7, 1e-12, 5e-324, 2.2250738585072014e-308]
    vals += [10.0 ** e for e in range(0, 23)]
    vals += [0.0, -0.0, 2.0 ** 53, 2.0 ** 53 + 2, 1e15 + 0.5, 123456789.123456789, 1 / 3, 2 / 3, 1234.5, 999.9999, 0.1, 0.2, 0.3,
             1.7976931348623157e308, 9007199254740993.0, 4503599627370495.5]
    vals += [rng.randint(-400, 400) / 8 for _ in range(6)]
    for _ in range(10):
        e = rng.randint(-9, 18)
        vals.append(rng.random() * 10.0 ** e)
        vals.append(round(rng.random() * 10.0 ** rng.randint(0, 6), rng.randint(0, 4)))
    return vals


def pick(rng, n):
    x = rng.choice(value_pool(rng, n))
    if rng.random() < 0.3:
        x = -x
    return x


def config_ops(cfg):
    ops = []
    if cfg["custom"]:
        ops.append({"op": "add_type", "name": FAMILY})
        for i, (name, fmt, d, rnd, rm) in enumerate(CUSTOM):
            o = {"op": "add_type_item", "name": FAMILY, "index": i + 1, "format": fmt,
                 "parse": ["{NUMBER:value} {TEXT:type:%s}" % name], "up": "{value}", "down": "{value}", "names": [name]}
            if d is not None:
                o["digits"] = d
            if rnd is not None:
                o["round"] = rnd
            if rm is not None:
                o["rm"] = rm
            ops.append(o)
    ops += sep_ops(cfg["dsep"], cfg["tsep"])
    if cfg["num"] != (2, True, True) or cfg["always"]:
        ops.append({"op": "set_num_cfg", "d": cfg["num"][0], "rm": cfg["num"][1], "round": cfg["num"][2]})
    if cfg["pct"] != (2, True, True) or cfg["always"]:
        ops.append({"op": "set_pct_cfg", "d": cfg["pct"][0], "rm": cfg["pct"][1], "round": cfg["pct"][2]})
    if cfg["money"] != (False, True) or cfg["always"]:
        ops.append({"op": "set_money_cfg", "rm": cfg["money"][0], "round": cfg["money"][1]})
    return ops


def line_of(item):
    x = from_bits(item["bits"])
    t = exact_text(x)
    k = item["k"]
    if k == "number":
        return "[NUMBER:%s]" % t
    if k == "percent":
        return "[PERCENT:%s]" % t
    if k == "money":
        return "[MONEY:1.;%s] * [NUMBER:%s]" % (item["cur"], t)
    return "[NUMBER:%s] %s" % (t, item["unit"])


def make_case(rng, cfg, items, kind):
    text = "\n".join(line_of(it) for it in items)
    ops = config_ops(cfg) + [{"op": "exec", "lang": "en", "text": text}]
    meta = {"kind": kind, "cfg": {"dsep": cfg["dsep"], "tsep": cfg["tsep"], "num": list(cfg["num"]), "pct": list(cfg["pct"]),
                                  "money": list(cfg["money"])}, "items": items}
    return {"ops": ops, "meta": meta}


def item(rng, k, x, cfg):
    it = {"k": k, "bits": str(bits(x))}
    if k == "money":
        it["cur"] = rng.choice(CURRENCIES)
    elif k == "unit":
        if cfg["custom"] and rng.random() < 0.75:
            name, fmt, d, rnd, rm = rng.choice(CUSTOM)
            it.update(unit=name, fmt=fmt, n=d, rm=rm, rnd=rnd)
        else:
            u = rng.choice(BUILTIN_UNITS)
            _, _, fmt, d, rm, rnd = UNITS[u]
            it.update(unit=u, fmt=fmt, n=d, rm=rm, rnd=rnd)
    return it


def digits_for(k, it, cfg):
    if k == "number":
        return cfg["num"][0]
    if k == "percent":
        return cfg["pct"][0]
    if k == "money":
        return CUR[it["cur"]]["decimalDigits"]
    return 2 if it["n"] is None else it["n"]


def generate(rng, tier):
    ncases = 320 if tier == "quick" else 3000
    per = 6
    cases = []
    default = {"dsep": ",", "tsep": ".", "num": (2, True, True), "pct": (2, True, True), "money": (False, True),
               "custom": False, "always": False}
    # the headline values under the default configuration
    heads = [0.995, 99.995, 999.995, 999999.995, -0.995, 0.994, 0.996, 1234567.891, -1234567.891, 0.004, -0.004, 0.0, -0.0, 1e21,
             1e15, 123.0, 123.1, 123.01, 1234.01, 123456.123456789, -123456.1,
             # decimal literals whose binary64 value lies just BELOW a x.xx5 boundary: one rounding, of the exact value
             1.115, 2.675, 1.005, 8.345, 0.145, 1002.675, -1.115, 0.285, 1.255, 4.015, 10.075, 1.045]
    for i in range(0, len(heads), per):
        items = [item(rng, rng.choice(["number", "percent"]) if j % 2 else "number", x, default)
                 for j, x in enumerate(heads[i:i + per])]
        cases.append(make_case(rng, default, items, "default-config"))
    # every digit count x both flags, number configuration
    k = 0
    for n in range(10):
        for rm in (True, False):
            for rnd in (True, False):
                dsep, tsep = SEPARATORS[k % len(SEPARATORS)]
                k += 1
                cfg = dict(default, dsep=dsep, tsep=tsep, num=(n, rm, rnd), always=True)
                items = [item(rng, "number", pick(rng, n), cfg) for _ in range(per)]
                cases.append(make_case(rng, cfg, items, "number-grid"))
    # every currency, the four settings of the money configuration
    for ci, cur in enumerate(CURRENCIES):
        for rm, rnd in ((False, True), (True, True), (False, False), (True, False)):
            if tier == "quick" and (ci + rm + 2 * rnd) % 2:
                continue
            dsep, tsep = SEPARATORS[(ci + rm) % len(SEPARATORS)]
            cfg = dict(default, dsep=dsep, tsep=tsep, money=(rm, rnd), always=True)
            n = CUR[cur]["decimalDigits"]
            items = []
            for _ in range(per):
                it = item(rng, "money", pick(rng, n), cfg)
                it["cur"] = cur
                items.append(it)
            cases.append(make_case(rng, cfg, items, "money-grid"))
    # amounts below half a minor unit, in currencies of 3, 2 and 0 digits, under both rounding settings: the digit count
    # of the CURRENCY decides what is printed
    for cur in ("kwd", "bhd", "lyd", "usd", "jpy"):
        if cur not in CURRENCIES:
            continue
        for rm, rnd in ((False, True), (False, False), (True, True)):
            cfg = dict(default, money=(rm, rnd), always=True)
            items = []
            for x in (0.004, 0.0004, 0.003, 0.0049, 0.005, 0.0051):
                it = item(rng, "money", x, cfg)
                it["cur"] = cur
                items.append(it)
            cases.append(make_case(rng, cfg, items, "money-small"))
    # mixed
    while len(cases) < ncases:
        dsep, tsep = rng.choice(SEPARATORS)
        cfg = {"dsep": dsep, "tsep": tsep, "num": (rng.randint(0, 9), rng.random() < 0.5, rng.random() < 0.6),
               "pct": (rng.randint(0, 9), rng.random() < 0.5, rng.random() < 0.6),
               "money": (rng.random() < 0.5, rng.random() < 0.6), "custom": rng.random() < 0.7, "always": rng.random() < 0.5}
        items = []
        for _ in range(per):
            kk = rng.choice(["number", "percent", "money", "unit", "unit"])
            it = item(rng, kk, 0.0, cfg)
            x = pick(rng, digits_for(kk, it, cfg))
            it["bits"] = str(bits(x))
            items.append(it)
        cases.append(make_case(rng, cfg, items, "mixed"))
    return cases


# ---------------------------------------------------------------- verdicts
def failures(c, rec):
    """[(line index, reason)]"""
    m = c["meta"]
    items, cfg = m["items"], m["cfg"]
    lines = last_lines(rec)
    if lines is None:
        return [(-1, "evaluation panicked or hung")]
    if len(lines) != len(items):
        return [(-1, "expected %d result lines, got %d" % (len(items), len(lines)))]
    out = []
    for i, (it, l) in enumerate(zip(items, lines)):
        x = from_bits(it["bits"])
        exp, n, rnd = expected(it, cfg)
        kind, v = line_value(l)
        if kind != "item" or str(v.get("v")) != str(it["bits"]):
            out.append((i, "line %d: the value %r was not injected exactly: %r" % (i, x, l)))
            continue
        if l["out"] != exp and not rnd:
            # rounding off = shortest round-trip digits: accept the other candidate of an exact tie
            for alt in display_alternatives(abs(x)):
                ALT["st"] = alt
                try:
                    if l["out"] == expected(it, cfg)[0]:
                        exp = l["out"]
                finally:
                    ALT["st"] = None
        if l["out"] != exp:
            out.append((i, "line %d: %s %r (binary64 %s) with %d digits, rounding %s: expected %r, printed %r"
                        % (i, it["k"], x, Decimal(x) if abs(x) < 1e30 else repr(x), n, "on" if rnd else "off", exp, l["out"])))
    return out


def nontrivial(c, rec):
    lines = last_lines(rec)
    items = c["meta"]["items"]
    if lines is None or len(lines) != len(items):
        return False
    for it, l in zip(items, lines):
        kind, v = line_value(l)
        if kind != "item" or str(v.get("v")) != str(it["bits"]):
            return False
    return True


def spec_check(c, rec, header):
    f = failures(c, rec)
    return f[0][1] if f else None


def known_class(c, rec, verdict, known):
    return None


def witness_fails(f, wc, rec, header):
    return False
