"""C13 - based integer literals and base conversion round-trip."""
from fractions import Fraction
from .common import *

# C13_binary64_exact / C13_print_read_64 (every integer below 2^53 is a binary64) rest on the Floats library's
# specification of the primitive floats; every other theorem is closed under the global context
ALLOWED_AXIOMS = ["Prim2SF_SF2Prim", "FloatAxioms.Prim2SF_SF2Prim", "FloatAxioms.eqb_spec", "eqb_spec"]
DETAIL = 0
RULE = ("n from {0, 1, 2^k-1, 2^k, 2^k+1 (k<=62), 2^63-1024, 2^63-1, random} x 4 source x 4 target bases (both digit "
        "cases, both prefix cases, 'to/as/into' or no conversion word); every conversion is followed by its printed "
        "literal as a second line (read-back); fractional N around .5 (exact rational oracle, incl. "
        "0.49999999999999994 and 2^52-0.5); arithmetic + - * / with based literals (left type kept); a based literal "
        "held in a variable and converted; literals one past the i64 range (skipped, must not panic); "
        "a few hex literals of the known class C13-hex-currency (digit + currency code in hex letters) with the normal "
        "expectation; non-trivial = a based or converted number; distinct = distinct text")
ASSUMPTIONS = ["integers above 2^53 are not exactly representable in binary64: expected values follow the rounding of "
               "i64 -> f64 (python int -> float is the same correctly rounded conversion) and the saturating f64 -> i64 "
               "cast when printing",
               "default configuration: decimal separator ','"]

BASES = {"hex": (16, "0x", "Hexadecimal"), "octal": (8, "0o", "Octal"), "binary": (2, "0b", "Binary"),
         "decimal": (10, "", "Decimal")}
WORDS = {"hex": ["hex", "hexadecimal"], "octal": ["octal"], "binary": ["binary"], "decimal": ["decimal"]}
I64_MAX = 2 ** 63 - 1


def _currency_names():
    import json, os
    try:
        cfg = json.load(open(os.path.join(os.environ.get("SMARTCALC_REPO", "/repo"), "src", "json", "config.json")))
        return {k.lower() for k in cfg.get("currencies", {})} | {k.lower() for k in cfg.get("currency_alias", {})}
    except Exception:
        return {"aed", "bbd", "cad", "cdf", "xaf", "xcd"}


CURRENCY_NAMES = _currency_names()


def collides(text):
    """KNOWN FINDING C13-K1 / class C13-hex-currency (known_findings.json; reproduced by the model, pinned by
    Properties/C13.v C13_readback_refuted): the money regex `[0-9]+[ ]*[a-zA-Z]{2,}` runs before the number regexes, so
    a hex literal in which a digit is followed by a run of letters that is a currency code is read as money: `0xCD`
    (= 205, the text printed by `205 to hex`) evaluates to 0 XCD, `0xAF` (175) to 0 XAF, `0x1AED`, `0x2CAD5`, `0x3cdf`,
    `0x57bbd1` give "Unknown calculation".  Codes made of hex letters: aed bbd cad cdf, and xaf xcd right after the
    leading 0.  This is the narrow syntactic predicate of the class: the ordinary kinds avoid such literals, the kind
    `hex-currency` generates them on purpose with the normal expectation."""
    import re
    return any(m.group(1).lower() in CURRENCY_NAMES for m in re.finditer(r"[0-9]([a-zA-Z]{2,})", text))


def digits(n, base, upper=True):
    if n == 0:
        return "0"
    ds = "0123456789ABCDEF" if upper else "0123456789abcdef"
    out = ""
    while n:
        out = ds[n % base] + out
        n //= base
    return out


def lit(rng, n, base_name):
    """a literal of n in the base, digits in either case, prefix in either case"""
    base, pre, _ = BASES[base_name]
    if base == 10:
        return str(n)
    p = pre if rng.random() < 0.7 else pre.upper()
    return p + digits(n, base, upper=rng.random() < 0.5)


def held(v):
    """the integer the calculator holds for the literal v (i64 -> f64), and what `as i64` gives back"""
    fv = float(v)
    return fv, min(int(fv), I64_MAX)


def printed(n, base_name):
    """the text of the non-negative integer n in the base (None for decimal: number formatting is C07)"""
    base, pre, _ = BASES[base_name]
    if base == 10:
        return None
    return pre + digits(n, base, upper=True)


def round_half_away(x):
    """nearest integer of the binary64 x, ties away from zero, computed exactly"""
    q = Fraction(x)
    r = (abs(q) + Fraction(1, 2)).__floor__()
    return r if q >= 0 else -r


def two_lines(text, second, **meta):
    if collides(second) and meta.get("kind") != "hex-currency":
        return exec_case(text, "en", **meta)      # the conversion itself is fine; its read-back is the known class
    c = exec_case(text + "\n" + second, "en", **meta)
    c["meta"]["second"] = second
    return c


def generate(rng, tier):
    n = 420 if tier == "quick" else 6000
    pool = [0, 1, 2, 7, 8, 9, 10, 15, 16, 17, 255, 256, 1000, 65535, 65536, 2 ** 53 - 1, 2 ** 63 - 1024, 2 ** 63 - 1]
    for k in range(1, 63):
        pool += [2 ** k - 1, 2 ** k, 2 ** k + 1]
    fracs = [0.5, 1.5, 2.5, 2.4999, 254.5, 255.49, 1023.5, 0.4, 99.999, 0.49999999999999994, 0.5000000000000001,
             4503599627370495.5, 2251799813685248.5, 2147483647.5, 2147483648.5, 4294967295.5, 1e15 + 0.5]
    cases = []
    seen = set()

    def add(c):
        key = c["ops"][-1]["text"]
        if c["meta"]["kind"] != "hex-currency" and \
                (collides(key.split("\n")[0]) or (c["meta"]["kind"] == "variable" and collides(key))):
            return
        if key not in seen:
            seen.add(key)
            cases.append(c)

    # the deterministic part: every pool value once as a literal of a based type + read-back
    for i, v in enumerate(pool):
        src = ["hex", "octal", "binary"][i % 3]
        fv, iv = held(v)
        out = printed(iv, src)
        add(two_lines(lit(rng, v, src), out, kind="literal", value=bits(fv), nt=BASES[src][2], out=out))
    # the deterministic part, continued: every fractional boundary value, and the odd integers of [2^52, 2^53) (where
    # x + 0.5 is not representable: rounding must not go through it), written in every base and converted
    for i, x in enumerate(fracs):
        tgt = ["hex", "octal", "binary"][i % 3]
        iv = round_half_away(x)
        out = printed(iv, tgt)
        add(two_lines("%s to %s" % (fmt_dec(x), WORDS[tgt][0]), out, kind="round", value=bits(float(iv)), nt=BASES[tgt][2], out=out))
    # ... also when decimal numbers are configured to be printed without rounding / with other digit counts: the based
    # conversion rounds to the nearest integer regardless of the number configuration
    for i, x in enumerate([2.7, 254.5, 7.9, 1023.75, 0.5, 2.4999, 99.999]):
        tgt = ["hex", "binary", "octal"][i % 3]
        iv = round_half_away(x)
        out = printed(iv, tgt)
        c = two_lines("%s to %s" % (fmt_dec(x), WORDS[tgt][0]), out, kind="round-numcfg", value=bits(float(iv)), nt=BASES[tgt][2], out=out)
        c["ops"].insert(0, {"op": "set_num_cfg", "d": [2, 0, 5, 3][i % 4], "rm": i % 2 == 0, "round": False})
        add(c)
    for i, v in enumerate([2 ** 52 + 1, 2 ** 52 + 3, 2 ** 53 - 1, 2 ** 53 - 3, 3 * 2 ** 51 + 1, 2 ** 52 + 2 ** 26 + 1,
                           2 ** 53 - 2 ** 20 - 1, 2 ** 52 + 12345]):
        fv, iv = held(v)
        for j, (src, tgt) in enumerate([("decimal", "hex"), ("hex", "decimal"), ("hex", "binary"), ("octal", "hex")]):
            if (i + j) % 2 and tier == "quick":
                continue
            out = printed(iv, tgt)
            text = "%s to %s" % (lit(rng, v, src), WORDS[tgt][0])
            add(two_lines(text, out, kind="convert", value=bits(fv), nt=BASES[tgt][2], out=out) if out else
                exec_case(text, "en", kind="convert", value=bits(fv), nt=BASES[tgt][2], out=None))
    # the result takes the notation of the LEFT operand: a decimal literal in front of a based one stays decimal
    for text, val in (("5 + 0x10", 21.0), ("20 - 0b11", 17.0), ("2 * 0o17", 30.0), ("100 / 0x4", 25.0), ("7 + 0x10 + 0b1", 24.0),
                      ("1 + 2 + 0xFF", 258.0)):
        add(exec_case(text, "en", kind="arith-decimal-left", value=bits(val), nt="Decimal", out=None))
    # hex digit strings that contain something looking like another based literal (0b1, 0B0, 0b10 ...): the whole
    # literal is ONE hex number (the three based regexes must be tried in an order that lets the hex literal win)
    for hx in ["10B1", "a0b0", "0b0", "10b11", "F0B1F", "200B0", "7e0b1", "0B", "B0B", "1b0b1"]:
        v = int(hx, 16)
        text = "0x" + hx
        out = printed(v, "hex")
        add(two_lines(text, out, kind="hex-with-0b", value=bits(float(v)), nt=BASES["hex"][2], out=out))
    # known class C13-hex-currency: hex literals spelling a currency code after a digit, normal expectation
    for _ in range(8 if tier == "quick" else 60):
        code = rng.choice(["AED", "BBD", "CAD", "CDF", "xAF", "xCD"])
        tail = rng.choice(["", "", str(rng.randint(0, 9)), "%d%s" % (rng.randint(0, 9), digits(rng.randint(0, 4095), 16))])
        if code[0] == "x":
            hx = code[1:] + tail
        else:
            hx = str(rng.randint(1, 99999)) + code + tail
        v = int(hx, 16)
        if v >= 2 ** 53:
            continue
        out = "0x" + hx.upper()
        form = rng.random()
        if form < 0.4:
            text = lit(rng, v, "hex")                                  # the literal itself
        elif form < 0.7:
            text = "%d to hex" % v                                     # fine; its read-back is in the class
        else:
            text = "%s to %s" % (lit(rng, v, "hex"), rng.choice(["octal", "binary"]))
            add(exec_case(text, "en", kind="hex-currency", value=bits(float(v)), out=printed(v, text.split()[-1]),
                          nt=BASES[text.split()[-1]][2]))
            continue
        add(two_lines(text, out, kind="hex-currency", value=bits(float(v)), nt="Hexadecimal", out=out))
    guard = 0
    while len(cases) < n and guard < 50 * n:
        guard += 1
        r = rng.random()
        v = rng.choice(pool) if rng.random() < 0.6 else rng.randint(0, 2 ** rng.randint(1, 63) - 1)
        src = rng.choice(list(BASES))
        tgt = rng.choice(list(BASES))
        fv, iv = held(v)
        if r < 0.5:
            # N to base (with and without the conversion word), N an integer literal in any base
            if src == "decimal" and v >= 10 ** 15:
                continue                    # long decimal literals are a formatting question (C07)
            conv = rng.choice(["to ", "to ", "as ", "into ", ""])      # "in" reads as the unit inch
            text = "%s %s%s" % (lit(rng, v, src), conv, rng.choice(WORDS[tgt]))
            out = printed(iv, tgt)
            if out:
                add(two_lines(text, out, kind="convert", value=bits(fv), nt=BASES[tgt][2], out=out))
            else:
                add(exec_case(text, "en", kind="convert", value=bits(fv), nt=BASES[tgt][2], out=None))
        elif r < 0.65:
            # fractional N is rounded to the nearest integer (ties away from zero)
            x = rng.choice(fracs) if rng.random() < 0.5 else \
                (rng.randint(0, 2 ** rng.randint(1, 40)) + 0.5 if rng.random() < 0.5 else round(rng.uniform(0, 5000), 2))
            tgt = rng.choice(["hex", "octal", "binary"])
            iv = round_half_away(x)
            out = printed(iv, tgt)
            add(two_lines("%s to %s" % (fmt_dec(x), rng.choice(WORDS[tgt])), out, kind="round",
                          value=bits(float(iv)), nt=BASES[tgt][2], out=out))
        elif r < 0.82:
            # a based literal is an ordinary number in arithmetic; the result keeps the left type
            if v > 2 ** 40:
                continue
            w = rng.choice([1, 2, 3, 10, 255, 4096])
            op = rng.choice("+-*/")
            src2 = rng.choice(["hex", "octal", "binary"])
            text = "%s %s %s" % (lit(rng, v, src2), op, lit(rng, w, rng.choice(list(BASES))))
            res = fv + w if op == "+" else fv - w if op == "-" else fv * w if op == "*" else fv / w
            out = printed(int(res), src2) if res >= 0 and res == int(res) else None
            add(exec_case(text, "en", kind="arith", value=bits(res), nt=BASES[src2][2], out=out))
        elif r < 0.9:
            # a based literal held in a variable, then converted
            src2 = rng.choice(["hex", "octal", "binary"])
            out = printed(iv, tgt)
            c = exec_case("a = %s\na to %s" % (lit(rng, v, src2), rng.choice(WORDS[tgt])), "en", kind="variable",
                          value=bits(fv), nt=BASES[tgt][2], out=out)
            add(c)
        elif r < 0.95:
            # plain literal + read-back
            src2 = rng.choice(["hex", "octal", "binary"])
            out = printed(iv, src2)
            add(two_lines(lit(rng, v, src2), out, kind="literal", value=bits(fv), nt=BASES[src2][2], out=out))
        else:
            # one past the range of the reader (>= 2^63).  OBSERVED, reported, not claimed by the statement ("every
            # non-negative integer the calculator accepts"): the repaired reader skips such a literal, and the digits
            # are then read by the DECIMAL number regex, e.g. `0x8000000000000000` evaluates to the decimal number
            # 8.000.000.000.000.000 and `0xFFFFFFFFFFFFFFFF` to 0.  Only "no panic" is checked here (and model = crate)
            src2 = rng.choice(["hex", "octal", "binary"])
            big = 2 ** 63 + rng.choice([0, 1, 2 ** 62, 2 ** 63 - 1, 2 ** 64, 2 ** 70])
            add(exec_case(lit(rng, big, src2), "en", kind="beyond-i64"))
    return cases


def nontrivial(c, rec):
    lines = last_lines(rec)
    if not lines or lines[-1] is None:
        return False
    k, v = line_value(lines[-1])
    return k == "item" and v["t"] == "Number"


def check_line(line, m, what):
    if line is None:
        return "%s: no result" % what
    k, v = line_value(line)
    if k != "item" or v["t"] != "Number":
        return "%s: expected a number, got %s %r" % (what, k, v)
    if int(v["v"]) != m["value"]:
        return "%s: expected the value %r, got %r" % (what, from_bits(m["value"]), from_bits(v["v"]))
    if v["nt"] != m["nt"]:
        return "%s: expected number type %s, got %s" % (what, m["nt"], v["nt"])
    if m.get("out") is not None and line["out"] != m["out"]:
        return "%s: expected the text %r, got %r" % (what, m["out"], line["out"])
    return None


def spec_check(c, rec, header):
    m = c["meta"]
    lines = last_lines(rec)
    if lines is None:
        return "evaluation panicked or hung"
    if m["kind"] == "beyond-i64":
        return None
    if m["kind"] == "variable":
        if len(lines) != 2:
            return "expected two results, got %r" % (lines,)
        return check_line(lines[1], m, "converted variable")
    if "second" in m:
        if len(lines) != 2:
            return "expected two results, got %r" % (lines,)
        return check_line(lines[0], m, "first line") or check_line(lines[1], m, "read-back of %r" % m["second"])
    if len(lines) != 1:
        return "expected one result, got %r" % (lines,)
    return check_line(lines[0], m, "line")


def known_class(c, rec, verdict, known):
    """a failure belongs to C13-hex-currency only when the line that failed holds a hex literal matching collides()"""
    if "C13-hex-currency" not in {f["class"] for f in known}:
        return None
    lines_text = c["ops"][-1]["text"].split("\n")
    if verdict.startswith("read-back"):
        failed = lines_text[1] if len(lines_text) > 1 else ""
    elif verdict.startswith("first line") or verdict.startswith("line:"):
        failed = lines_text[0]
    else:
        return None
    import re
    hexlits = re.findall(r"0[xX][0-9a-fA-F]+", failed)
    return "C13-hex-currency" if any(collides(h) for h in hexlits) else None


def witness_fails(f, wc, rec, header):
    """the recorded witness still shows the recorded wrong output"""
    lines = last_lines(rec)
    if not lines or lines[-1] is None:
        return False
    return lines[-1].get("out") == f["observed"].get("out")
