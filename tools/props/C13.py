"""C13 - based integer literals and base conversion round-trip."""
from fractions import Fraction
from .common import *

ALLOWED_AXIOMS = []
DETAIL = 0
RULE = ("n from {0, 1, 2^k-1, 2^k, 2^k+1 (k<=62), 2^63-1024, 2^63-1, random} x 4 source x 4 target bases (both digit "
        "cases, both prefix cases, 'to/as/into' or no conversion word); every conversion is followed by its printed "
        "literal as a second line (read-back); fractional N around .5 (exact rational oracle, incl. "
        "0.49999999999999994 and 2^52-0.5); arithmetic + - * / with based literals (left type kept); a based literal "
        "held in a variable and converted; literals one past the i64 range (skipped, must not panic); "
        "non-trivial = a based or converted number; distinct = distinct text")
ASSUMPTIONS = ["integers above 2^53 are not exactly representable in binary64: expected values follow the rounding of "
               "i64 -> f64 (python int -> float is the same correctly rounded conversion) and the saturating f64 -> i64 "
               "cast when printing",
               "default configuration: decimal separator ','"]

BASES = {"hex": (16, "0x", "Hexadecimal"), "octal": (8, "0o", "Octal"), "binary": (2, "0b", "Binary"),
         "decimal": (10, "", "Decimal")}
WORDS = {"hex": ["hex", "hexadecimal"], "octal": ["octal"], "binary": ["binary"], "decimal": ["decimal"]}
I64_MAX = 2 ** 63 - 1


def digits(n, base, upper=True):
    if n == 0:
        return "0"
    ds = "0123456789ABCDEF" if upper else "0123456789abcdef"
    out = ""
    while n:
        out = ds[n % base] + out
        n //= base
    return out


def lit(rng, n, base_name):
    """a literal of n in the base, digits in either case, prefix in either case"""
    base, pre, _ = BASES[base_name]
    if base == 10:
        return str(n)
    p = pre if rng.random() < 0.7 else pre.upper()
    return p + digits(n, base, upper=rng.random() < 0.5)


def held(v):
    """the integer the calculator holds for the literal v (i64 -> f64), and what `as i64` gives back"""
    fv = float(v)
    return fv, min(int(fv), I64_MAX)


def printed(n, base_name):
    """the text of the non-negative integer n in the base (None for decimal: number formatting is C07)"""
    base, pre, _ = BASES[base_name]
    if base == 10:
        return None
    return pre + digits(n, base, upper=True)


def round_half_away(x):
    """nearest integer of the binary64 x, ties away from zero, computed exactly"""
    q = Fraction(x)
    r = (abs(q) + Fraction(1, 2)).__floor__()
    return r if q >= 0 else -r


def two_lines(text, second, **meta):
    c = exec_case(text + "\n" + second, "en", **meta)
    c["meta"]["second"] = second
    return c


def generate(rng, tier):
    n = 420 if tier == "quick" else 6000
    pool = [0, 1, 2, 7, 8, 9, 10, 15, 16, 17, 255, 256, 1000, 65535, 65536, 2 ** 53 - 1, 2 ** 63 - 1024, 2 ** 63 - 1]
    for k in range(1, 63):
        pool += [2 ** k - 1, 2 ** k, 2 ** k + 1]
    fracs = [0.5, 1.5, 2.5, 2.4999, 254.5, 255.49, 1023.5, 0.4, 99.999, 0.49999999999999994, 0.5000000000000001,
             4503599627370495.5, 2251799813685248.5, 2147483647.5, 2147483648.5, 4294967295.5, 1e15 + 0.5]
    cases = []
    seen = set()

    def add(c):
        key = c["ops"][-1]["text"]
        if key not in seen:
            seen.add(key)
            cases.append(c)

    # the deterministic part: every pool value once as a literal of a based type + read-back
    for i, v in enumerate(pool):
        src = ["hex", "octal", "binary"][i % 3]
        fv, iv = held(v)
        out = printed(iv, src)
        add(two_lines(lit(rng, v, src), out, kind="literal", value=bits(fv), nt=BASES[src][2], out=out))
    guard = 0
    while len(cases) < n and guard < 50 * n:
        guard += 1
        r = rng.random()
        v = rng.choice(pool) if rng.random() < 0.6 else rng.randint(0, 2 ** rng.randint(1, 63) - 1)
        src = rng.choice(list(BASES))
        tgt = rng.choice(list(BASES))
        fv, iv = held(v)
        if r < 0.5:
            # N to base (with and without the conversion word), N an integer literal in any base
            if src == "decimal" and v >= 10 ** 15:
                continue                    # long decimal literals are a formatting question (C07)
            conv = rng.choice(["to ", "to ", "as ", "into ", ""])      # "in" reads as the unit inch
            text = "%s %s%s" % (lit(rng, v, src), conv, rng.choice(WORDS[tgt]))
            out = printed(iv, tgt)
            if out:
                add(two_lines(text, out, kind="convert", value=bits(fv), nt=BASES[tgt][2], out=out))
            else:
                add(exec_case(text, "en", kind="convert", value=bits(fv), nt=BASES[tgt][2], out=None))
        elif r < 0.65:
            # fractional N is rounded to the nearest integer (ties away from zero)
            x = rng.choice(fracs) if rng.random() < 0.5 else \
                (rng.randint(0, 2 ** rng.randint(1, 40)) + 0.5 if rng.random() < 0.5 else round(rng.uniform(0, 5000), 2))
            tgt = rng.choice(["hex", "octal", "binary"])
            iv = round_half_away(x)
            out = printed(iv, tgt)
            add(two_lines("%s to %s" % (fmt_dec(x), rng.choice(WORDS[tgt])), out, kind="round",
                          value=bits(float(iv)), nt=BASES[tgt][2], out=out))
        elif r < 0.82:
            # a based literal is an ordinary number in arithmetic; the result keeps the left type
            if v > 2 ** 40:
                continue
            w = rng.choice([1, 2, 3, 10, 255, 4096])
            op = rng.choice("+-*/")
            src2 = rng.choice(["hex", "octal", "binary"])
            text = "%s %s %s" % (lit(rng, v, src2), op, lit(rng, w, rng.choice(list(BASES))))
            res = fv + w if op == "+" else fv - w if op == "-" else fv * w if op == "*" else fv / w
            out = printed(int(res), src2) if res >= 0 and res == int(res) else None
            add(exec_case(text, "en", kind="arith", value=bits(res), nt=BASES[src2][2], out=out))
        elif r < 0.9:
            # a based literal held in a variable, then converted
            src2 = rng.choice(["hex", "octal", "binary"])
            out = printed(iv, tgt)
            c = exec_case("a = %s\na to %s" % (lit(rng, v, src2), rng.choice(WORDS[tgt])), "en", kind="variable",
                          value=bits(fv), nt=BASES[tgt][2], out=out)
            add(c)
        elif r < 0.95:
            # plain literal + read-back
            src2 = rng.choice(["hex", "octal", "binary"])
            out = printed(iv, src2)
            add(two_lines(lit(rng, v, src2), out, kind="literal", value=bits(fv), nt=BASES[src2][2], out=out))
        else:
            # one past the range of the reader: not a literal any more; nothing is claimed but "no panic"
            src2 = rng.choice(["hex", "octal", "binary"])
            big = 2 ** 63 + rng.choice([0, 1, 2 ** 62, 2 ** 63 - 1, 2 ** 64, 2 ** 70])
            add(exec_case(lit(rng, big, src2), "en", kind="beyond-i64"))
    return cases


def nontrivial(c, rec):
    lines = last_lines(rec)
    if not lines or lines[-1] is None:
        return False
    k, v = line_value(lines[-1])
    return k == "item" and v["t"] == "Number"


def check_line(line, m, what):
    if line is None:
        return "%s: no result" % what
    k, v = line_value(line)
    if k != "item" or v["t"] != "Number":
        return "%s: expected a number, got %s %r" % (what, k, v)
    if int(v["v"]) != m["value"]:
        return "%s: expected the value %r, got %r" % (what, from_bits(m["value"]), from_bits(v["v"]))
    if v["nt"] != m["nt"]:
        return "%s: expected number type %s, got %s" % (what, m["nt"], v["nt"])
    if m.get("out") is not None and line["out"] != m["out"]:
        return "%s: expected the text %r, got %r" % (what, m["out"], line["out"])
    return None


def spec_check(c, rec, header):
    m = c["meta"]
    lines = last_lines(rec)
    if lines is None:
        return "evaluation panicked or hung"
    if m["kind"] == "beyond-i64":
        return None
    if m["kind"] == "variable":
        if len(lines) != 2:
            return "expected two results, got %r" % (lines,)
        return check_line(lines[1], m, "converted variable")
    if "second" in m:
        if len(lines) != 2:
            return "expected two results, got %r" % (lines,)
        return check_line(lines[0], m, "first line") or check_line(lines[1], m, "read-back of %r" % m["second"])
    if len(lines) != 1:
        return "expected one result, got %r" % (lines,)
    return check_line(lines[0], m, "line")


def known_class(c, rec, verdict, known):
    return None


def witness_fails(f, wc, rec, header):
    return False
