"""C13 - based integer literals and base conversion round-trip."""
from .common import *

THEOREMS = ["c13_digits_roundtrip", "c13_print_read", "c13_convert", "c13_arith", "c13_nonvacuous"]
ALLOWED_AXIOMS = []
DETAIL = 0
RULE = ("n from {0, 1, 2^k-1, 2^k, 2^k+1 (k<=62), random} x 4 source x 4 target bases; fractional N around .5; "
        "arithmetic with based literals; printed literal fed back as a new line; non-trivial = a based or converted "
        "number; distinct = distinct text")
ASSUMPTIONS = ["integers above 2^53 are not exactly representable in binary64: expected values follow the rounding of "
               "i64 -> f64 (python int -> float is the same correctly rounded conversion)"]

BASES = {"hex": (16, "0x", "Hexadecimal"), "octal": (8, "0o", "Octal"), "binary": (2, "0b", "Binary"),
         "decimal": (10, "", "Decimal")}
WORDS = {"hex": ["hex", "hexadecimal"], "octal": ["octal"], "binary": ["binary"], "decimal": ["decimal"]}


def digits(n, base, upper=True):
    if n == 0:
        return "0"
    ds = "0123456789ABCDEF" if upper else "0123456789abcdef"
    out = ""
    while n:
        out = ds[n % base] + out
        n //= base
    return out


def lit(rng, n, base_name):
    base, pre, _ = BASES[base_name]
    if base == 10:
        return str(n)
    p = pre if rng.random() < 0.7 else pre.upper().replace("0X", "0X")
    return p + digits(n, base, upper=rng.random() < 0.5)


def printed(n, base_name):
    base, pre, _ = BASES[base_name]
    if base == 10:
        return None
    return pre + digits(n, base, upper=True)


def round_half_away(x):
    import math
    return math.floor(abs(x) + 0.5) * (1 if x >= 0 else -1)


def generate(rng, tier):
    n = 350 if tier == "quick" else 5000
    pool = [0, 1, 2, 7, 8, 9, 10, 15, 16, 17, 255, 256, 1000, 65535, 65536, 2 ** 31 - 1, 2 ** 31, 2 ** 31 + 1, 2 ** 32,
            2 ** 53 - 1, 2 ** 53, 2 ** 62, 2 ** 63 - 1024]
    for k in range(1, 63):
        pool += [2 ** k - 1, 2 ** k, 2 ** k + 1]
    cases = []
    while len(cases) < n:
        r = rng.random()
        v = rng.choice(pool) if rng.random() < 0.6 else rng.randint(0, 2 ** rng.randint(1, 62))
        src = rng.choice(list(BASES))
        tgt = rng.choice(list(BASES))
        fv = float(v)                       # value of the literal as the calculator holds it
        if r < 0.55:
            # N to base (with and without the conversion word), N an integer literal in any base
            if src == "decimal" and v >= 10 ** 15:
                continue                    # long decimal literals are a formatting question (C07)
            conv = rng.choice(["to ", "to ", "as ", "into ", ""])      # "in" reads as the unit inch
            text = "%s %s%s" % (lit(rng, v, src), conv, rng.choice(WORDS[tgt]))
            iv = int(fv)
            exp_out = printed(iv, tgt)
            cases.append(exec_case(text, "en", kind="convert", value=bits(fv), nt=BASES[tgt][2], out=exp_out, back=iv if exp_out else None))
        elif r < 0.7:
            # fractional N is rounded to the nearest integer (ties away from zero)
            x = rng.choice([0.5, 1.5, 2.5, 2.4999, 254.5, 255.49, 1023.5, 0.4, 99.999]) if rng.random() < 0.6 else round(rng.uniform(0, 5000), 2)
            tgt = rng.choice(["hex", "octal", "binary"])
            iv = round_half_away(x)
            text = "%s to %s" % (fmt_dec(x), rng.choice(WORDS[tgt]))
            cases.append(exec_case(text, "en", kind="round", value=bits(float(iv)), nt=BASES[tgt][2], out=printed(iv, tgt), back=iv))
        elif r < 0.85:
            # a based literal is an ordinary number in arithmetic; the result keeps the left type
            if v > 2 ** 40:
                continue
            w = rng.choice([1, 2, 3, 10, 255, 4096])
            op = rng.choice("+-*")
            src2 = rng.choice(["hex", "octal", "binary"])
            text = "%s %s %s" % (lit(rng, v, src2), op, lit(rng, w, rng.choice(list(BASES))))
            res = fv + w if op == "+" else fv - w if op == "-" else fv * w
            cases.append(exec_case(text, "en", kind="arith", value=bits(res), nt=BASES[src2][2], out=None, back=None))
        else:
            # plain literal
            src2 = rng.choice(["hex", "octal", "binary"])
            text = lit(rng, v, src2)
            iv = int(fv)
            cases.append(exec_case(text, "en", kind="literal", value=bits(fv), nt=BASES[src2][2], out=printed(iv, src2), back=iv))
    # second pass: reading the printed literal back gives the same integer (as a two-line text)
    extra = []
    for c in cases:
        m = c["meta"]
        if m.get("out") and len(extra) < n // 3:
            extra.append(exec_case(m["out"], "en", kind="readback", value=bits(float(m["back"])), nt=m["nt"], out=m["out"], back=m["back"]))
    return cases + extra


def nontrivial(c, rec):
    lines = last_lines(rec)
    if not lines or lines[0] is None:
        return False
    k, v = line_value(lines[0])
    return k == "item" and v["t"] == "Number"


def spec_check(c, rec, header):
    m = c["meta"]
    lines = last_lines(rec)
    if lines is None:
        return "evaluation panicked or hung"
    if len(lines) != 1 or lines[0] is None:
        return "expected one result, got %r" % (lines,)
    k, v = line_value(lines[0])
    if k != "item" or v["t"] != "Number":
        return "expected a number, got %s %r" % (k, v)
    if int(v["v"]) != m["value"]:
        return "expected the value %r, got %r" % (from_bits(m["value"]), from_bits(v["v"]))
    if v["nt"] != m["nt"]:
        return "expected number type %s, got %s" % (m["nt"], v["nt"])
    if m.get("out") is not None and lines[0]["out"] != m["out"]:
        return "expected the text %r, got %r" % (m["out"], lines[0]["out"])
    return None


def known_class(c, rec, verdict, known):
    return None


def witness_fails(f, wc, rec, header):
    return False
