"""C12 - unit conversion matches the unit definitions; linear, invertible, transitive; no conversion
between kinds; arithmetic between quantities."""
from fractions import Fraction
from .common import *

ALLOWED_AXIOMS = []
DETAIL = 0
RULE = ("every ordered pair of the 33 units within a kind (365 incl. u->u; quick: x 1 amount, thorough: x 6 amounts incl. "
        "negative and fractional) x a random spelling of the source, a random name of the target, a random conversion "
        "word, one of two separator configurations; cross-kind pairs (must not convert); round trips A->B->A and chains "
        "A->B->C through a variable; quantity +,- quantity, quantity *,/ number, quantity / quantity; expected value = "
        "exact rational amount * size(u)/size(v) from a hand-written size table, relative tolerance 2^-40; "
        "non-trivial = evaluates to a quantity or a number; distinct = distinct op history")
ASSUMPTIONS = ["binary64 results are compared with the exact rational value up to relative error 2^-40",
               "the oracle's unit sizes (mm / mg / bit) are written by hand from the property statement",
               "the link 'basic_execute on the substituted code = amount * c resp. / c' is not proved for all amounts; "
               "it is exercised by every case here (the model runs the faithful string evaluator)"]

F = Fraction
INCH = F(254, 10)
OZ = F(283495231, 10000000) * 1000        # 28.3495231 g in mg
# name -> (kind, size in mm / mg / bit, (family, index) of the unit, spellings after a number, names as a target)
UNITS = {}


def _u(key, kind, size, fam, idx, spell, names):
    UNITS[key] = {"key": key, "kind": kind, "size": F(size), "fam": fam, "idx": idx, "spell": spell, "names": names}


for i, (ab, full) in enumerate([("mm", "millimeter"), ("cm", "centimeter"), ("dm", "decimeter"), ("m", "meter"),
                                ("dam", "decameter"), ("hm", "hectometer"), ("km", "kilometer")]):
    _u(ab, "length", F(10) ** i, "metric-length", i + 1, [ab, full], [ab, full])
for i, (ab, full) in enumerate([("mg", "milligram"), ("cg", "centigram"), ("dg", "decigram"), ("g", "gram"),
                                ("dag", "decagram"), ("hg", "hectogram"), ("kg", "kilogram")]):
    _u(ab, "weight", F(10) ** i, "metric-weight", i + 1, [ab, full], [ab, full])
_u("tonne", "weight", F(10) ** 9, "metric-weight", 8, ["tonne", "megagram"], ["tonne", "megagram"])
_u("in", "length", INCH, "imperial-unit-length", 1, ["in", "inch"], ["in", "inch"])
_u("ft", "length", 12 * INCH, "imperial-unit-length", 2, ["ft", "feet", "foot"], ["ft", "feet", "foot"])
_u("yard", "length", 36 * INCH, "imperial-unit-length", 3, ["yard"], ["yard"])
_u("furlong", "length", 220 * 36 * INCH, "imperial-unit-length", 4, ["furlong"], ["furlong"])
_u("mile", "length", 1760 * 36 * INCH, "imperial-unit-length", 5, ["mile"], ["mile"])
_u("oz", "weight", OZ, "imperial-unit-weight", 1, ["oz", "ounce"], ["oz", "ounce"])
_u("lb", "weight", 16 * OZ, "imperial-unit-weight", 2, ["lb", "pound"], ["lb", "pound"])
_u("st", "weight", 14 * 16 * OZ, "imperial-unit-weight", 3, ["st", "stone"], ["st", "stone"])
_u("bit", "memory", 1, "memory", 1, ["bit"], ["bit"])
_u("byte", "memory", 8, "memory", 2, ["byte"], ["byte"])
for i, (ab, pre) in enumerate([("kb", "kilo"), ("mb", "mega"), ("gb", "giga"), ("tb", "tera"), ("pb", "peta"),
                               ("eb", "exa"), ("zb", "zetta"), ("yb", "yotta")]):
    spell = [ab, pre + "byte"] + ([pre + "bytes"] if ab != "yb" else [])
    names = [ab, pre + "byte"] + ([pre] if ab != "kb" else [])
    _u(ab, "memory", 8 * F(1024) ** (i + 1), "memory", i + 3, spell, names)
assert len(UNITS) == 33
BY_REF = {(u["fam"], u["idx"]): u for u in UNITS.values()}
KINDS = {k: [u for u in UNITS.values() if u["kind"] == k] for k in ("length", "weight", "memory")}

WORDS = ["to", "as", "in", "into"]
AMOUNTS = [1, 2, 2.5, -3, 0.125, 1000, 1234.5, 7, 0.1, 36, -0.75, 1024, 250000,
           # conversion is linear in the amount at every magnitude: amounts below f64::EPSILON are not zero
           1e-16, 2e-16, -5e-17, 3e-12]
SEPS = [(",", "."), (".", ",")]           # (decimal, thousands): the default and the English habit
TOL = F(1, 2 ** 40)


def lit(v, sep, group):
    return fmt_dec(v, dsep=sep[0], tsep=sep[1] if group else None)


def pre_of(sep):
    return [] if sep == SEPS[0] else sep_ops(sep[0], sep[1])


def Fr(v):
    return F(repr(float(v)))


def spelling(rng, sp):
    """the unit word after a number is matched case-insensitively (a TARGET name is not: `5 kb to MB` stays 5KB, the
    names are compared as written in lower case; the generator writes targets in lower case)"""
    r = rng.random()
    return sp if r < 0.7 else (sp.upper() if r < 0.85 else sp.capitalize())


def qty(rng, v, u, sep):
    sp = spelling(rng, rng.choice(u["spell"]))
    # `1M`, `2G`, `3k` written without a space are numbers with a magnitude suffix (C02), not quantities
    gap = rng.choice([" ", " ", " ", ""]) if len(sp) >= 2 else " "
    return lit(v, sep, rng.random() < 0.5) + gap + sp


def frac(x):
    return [x.numerator, x.denominator]


def conv_case(rng, u, v, amount, sep=None):
    sep = sep or rng.choice(SEPS)
    text = qty(rng, amount, u, sep) + " " + rng.choice(WORDS) + " " + rng.choice(v["names"])
    exp = Fr(amount) * u["size"] / v["size"]
    return exec_case(text, "en", pre=pre_of(sep), kind="convert-" + u["kind"], typ="qty", expect=frac(exp), unit=v["key"])


def generate(rng, tier):
    quick = tier == "quick"
    cases = []
    # 1. all ordered pairs within a kind
    for kind, us in KINDS.items():
        for u in us:
            for v in us:
                ams = [rng.choice(AMOUNTS)] if quick else [1, -3, 0.125, 1234.5] + rng.sample(AMOUNTS, 2)
                for a in ams:
                    cases.append(conv_case(rng, u, v, a))
    # 2. every spelling of every unit as a source and every name as a target, at least once
    for u in UNITS.values():
        peers = KINDS[u["kind"]]
        for sp in u["spell"]:
            for sep in (SEPS if not quick else [rng.choice(SEPS)]):
                v = rng.choice(peers)
                a = rng.choice(AMOUNTS)
                text = lit(a, sep, True) + " " + spelling(rng, sp) + " " + rng.choice(WORDS) + " " + rng.choice(v["names"])
                cases.append(exec_case(text, "en", pre=pre_of(sep), kind="spelling", typ="qty",
                                       expect=frac(Fr(a) * u["size"] / v["size"]), unit=v["key"]))
        for nm in u["names"]:
            v = rng.choice(peers)
            a = rng.choice(AMOUNTS)
            sep = rng.choice(SEPS)
            text = qty(rng, a, v, sep) + " " + rng.choice(WORDS) + " " + nm
            cases.append(exec_case(text, "en", pre=pre_of(sep), kind="spelling", typ="qty",
                                   expect=frac(Fr(a) * v["size"] / u["size"]), unit=u["key"]))
    # 2b. both separators '.' (only set_decimal_seperator(".") was called, or grouping first): the literals of the
    #     conversion codes (25.4, 28349.5231 ...) are read as written whatever the configuration; integer amounts
    for k, (a, u, v) in enumerate([(1, "inch", "mm"), (2, "inch", "mm"), (3, "ft", "cm"), (1, "stone", "kg"), (150, "cm", "m"),
                                   (12, "bit", "byte"), (1, "oz", "g"), (5, "mile", "km"), (1, "lb", "g"), (3, "yd", "m")]):
        uu = next((x for x in UNITS.values() if u in x["names"] or u in x["spell"]), None)
        vv = next((x for x in UNITS.values() if v in x["names"]), None)
        if uu is None or vv is None or uu["kind"] != vv["kind"]:
            continue
        pre = [{"op": "set_dec", "v": "."}] if k % 2 == 0 else [{"op": "set_thou", "v": "."}, {"op": "set_dec", "v": "."}]
        cases.append(exec_case("%d %s to %s" % (a, u, v), "en", pre=pre, kind="both-separators-dot", typ="qty",
                               expect=frac(Fr(a) * uu["size"] / vv["size"]), unit=vv["key"]))
    # 3. cross-kind: never a quantity of another kind
    allu = list(UNITS.values())
    n_cross = 70 if quick else 600
    while n_cross > 0:
        u, v = rng.choice(allu), rng.choice(allu)
        if u["kind"] == v["kind"]:
            continue
        n_cross -= 1
        sep = rng.choice(SEPS)
        a = rng.choice(AMOUNTS)
        if rng.random() < 0.7:
            text = qty(rng, a, u, sep) + " " + rng.choice(WORDS) + " " + rng.choice(v["names"])
        else:
            text = qty(rng, a, u, sep) + " " + rng.choice("+-") + " " + qty(rng, rng.choice(AMOUNTS), v, sep)
        cases.append(exec_case(text, "en", pre=pre_of(sep), kind="cross-kind", typ="cross", src=u["key"]))
    # 4. arithmetic
    n_ar = 120 if quick else 1500
    for _ in range(n_ar):
        kind = rng.choice(list(KINDS))
        u, v = rng.choice(KINDS[kind]), rng.choice(KINDS[kind])
        sep = rng.choice(SEPS)
        a, b = rng.choice(AMOUNTS), rng.choice(AMOUNTS)
        k = rng.random()
        if k < 0.45:
            op = rng.choice("+-")
            bv = Fr(b) * v["size"] / u["size"]
            exp = Fr(a) + bv if op == "+" else Fr(a) - bv
            text = qty(rng, a, u, sep) + " " + op + " " + qty(rng, b, v, sep)
            cases.append(exec_case(text, "en", pre=pre_of(sep), kind="qty%sqty" % op, typ="qty", expect=frac(exp), unit=u["key"]))
        elif k < 0.75:
            op = rng.choice("*/")
            n = rng.choice([2, 3, 4, 10, 0.5, 8, 100])
            exp = Fr(a) * Fr(n) if op == "*" else Fr(a) / Fr(n)
            text = qty(rng, a, u, sep) + " " + op + " " + lit(n, sep, False)
            cases.append(exec_case(text, "en", pre=pre_of(sep), kind="qty%snumber" % op, typ="qty", expect=frac(exp), unit=u["key"]))
        else:
            exp = Fr(a) / (Fr(b) * v["size"] / u["size"])
            text = qty(rng, a, u, sep) + " / " + qty(rng, b, v, sep)
            cases.append(exec_case(text, "en", pre=pre_of(sep), kind="qty/qty", typ="number", expect=frac(exp)))
    # 4b. sums of three to six quantities of one kind, units repeated, the last quantity closing the line: every operand
    #     is converted into the unit of the LEFT-MOST one
    for _ in range(40 if quick else 500):
        kind = rng.choice(list(KINDS))
        m = rng.randint(3, 6)
        pool = rng.sample(KINDS[kind], min(len(KINDS[kind]), rng.randint(2, 3)))
        us = [rng.choice(pool) for _ in range(m)]
        sep = rng.choice(SEPS)
        am = [rng.choice([1, 2, 3, 5, 12, 0.5, 250]) for _ in range(m)]
        total, text = Fr(am[0]), qty(rng, am[0], us[0], sep)
        biggest = abs(total)
        for a, u in zip(am[1:], us[1:]):
            op = "+" if rng.random() < 0.75 else "-"
            bv = Fr(a) * u["size"] / us[0]["size"]
            total = total + bv if op == "+" else total - bv
            biggest = max(biggest, abs(bv), abs(total))
            text += " " + op + " " + qty(rng, a, u, sep)
        if total == 0 or biggest > abs(total) * 1024:
            continue                      # cancellation: binary64 absorbs the small terms, the exact oracle does not apply
        cases.append(exec_case(text, "en", pre=pre_of(sep), kind="qty-sum-%d" % m, typ="qty", expect=frac(total), unit=us[0]["key"]))
    for text, val, key in (("1 cm + 5 m + 5 m + 1 km", 1 + 500 + 500 + 100000, "cm"), ("1 byte + 2 kb + 2 kb + 1 mb", 1 + 2048 + 2048 + 1048576, "byte"),
                           ("1 oz + 3 lb + 3 lb + 1 stone", 1 + 48 + 48 + 224, "oz")):
        u = next((x for x in UNITS.values() if key in x["names"] or key in x["spell"]), None)
        if u is not None:
            cases.append(exec_case(text, "en", kind="qty-sum-pinned", typ="qty", expect=frac(F(val)), unit=u["key"]))
    for text, typ, val, key in (("4 megabyte / 2 megabyte", "number", 2, None), ("1 kb + 1 megabyte + 1 megabyte + 1 megabyte", "qty", 3073, "kb"),
                                ("8 megabyte - 2 megabyte - 2 megabyte", "qty", 4, "mb"), ("3 megabyte + 1 megabyte to kb", None, None, None)):
        if typ == "number":
            cases.append(exec_case(text, "en", kind="unit-word-twice", typ="number", expect=frac(F(val))))
        elif typ == "qty":
            u = next((x for x in UNITS.values() if key in x["names"] or key in x["spell"]), None)
            if u is not None:
                cases.append(exec_case(text, "en", kind="unit-word-twice", typ="qty", expect=frac(F(val)), unit=u["key"]))
    # units of two families of one kind that sit at the same position of their chains (cm / ft, mm / inch, mg / oz)
    for text, typ, val, key in (("1 cm + 1 ft", "qty", F(1) + F(3048, 100), "cm"), ("1 ft - 1 cm", "qty", F(1) - F(100, 3048), "ft"),
                                ("10 cm / 1 ft", "number", F(1000, 3048), None), ("1 mm + 1 inch", "qty", F(1) + F(254, 10), "mm"),
                                ("1 inch + 1 mm", "qty", F(1) + F(10, 254), "inch")):
        if typ == "number":
            cases.append(exec_case(text, "en", kind="same-chain-position", typ="number", expect=frac(val)))
        else:
            u = next((x for x in UNITS.values() if key in x["names"] or key in x["spell"]), None)
            if u is not None:
                cases.append(exec_case(text, "en", kind="same-chain-position", typ="qty", expect=frac(val), unit=u["key"]))
    for text, srck in (("1 kb + 1 dg", "kb"), ("1 byte + 1 ft", "byte"), ("1 kg - 1 km", "kg")):
        u = next((x for x in UNITS.values() if srck in x["names"] or srck in x["spell"]), None)
        if u is not None:
            cases.append(exec_case(text, "en", kind="cross-kind", typ="cross", src=u["key"]))
    # small memory amounts taken up several 1024-steps and back / scaled / as divisors (no rounding of intermediates)
    for text, typ, val, key in (("a = 1 byte to tb\na * 1099511627776", "qty", 1, "tb"), ("1 tb / 1 byte", "number", 1099511627776, None),
                                ("a = 5 byte to gb\na to byte", "qty", 5, "byte"), ("a = 1 kb to tb\na to kb", "qty", 1, "kb")):
        if typ == "number":
            cases.append(exec_case(text, "en", kind="variable-small", typ="number", expect=frac(F(val))))
        else:
            u = next((x for x in UNITS.values() if key in x["names"] or key in x["spell"]), None)
            if u is not None:
                cases.append(exec_case(text, "en", kind="variable-small", typ="qty", expect=frac(F(val)), unit=u["key"]))
    # 4c. the amount supplied by a variable, in front of the unit word; and a variable NAMED like a unit word
    for text, val, key in (("x = 10\nx kg", 10, "kg"), ("x = 10\nx kg to g", 10000, "g"), ("x = 10\nx m + 5 m", 15, "m"),
                           ("len = 3\nlen km to m", 3000, "m"), ("n = 2\nn mb to kb", 2048, "kb")):
        u = next((x for x in UNITS.values() if key in x["names"]), None)
        if u is not None:
            cases.append(exec_case(text, "en", kind="variable-amount", typ="qty", expect=frac(F(val)), unit=u["key"]))
    for text, val in (("m = 5\n10 m", 15), ("m = 5\n10 m + 2", 17), ("kb = 3\n2 kb", 5)):
        cases.append(exec_case(text, "en", kind="variable-named-like-unit", typ="number", expect=frac(F(val))))
    # 5. round trips and chains through a variable (A to B, the result to A resp. to C)
    n_rt = 60 if quick else 800
    for _ in range(n_rt):
        kind = rng.choice(list(KINDS))
        u, v, w = (rng.choice(KINDS[kind]) for _ in range(3))
        sep = rng.choice(SEPS)
        a = rng.choice(AMOUNTS)
        back = rng.random() < 0.5
        last = u if back else w
        text = "x = " + qty(rng, a, u, sep) + " to " + rng.choice(v["names"]) + "\nx to " + rng.choice(last["names"])
        cases.append(exec_case(text, "en", pre=pre_of(sep), kind="round-trip" if back else "chain", typ="qty2",
                               expect=frac(Fr(a) * u["size"] / last["size"]), unit=last["key"],
                               expect1=frac(Fr(a) * u["size"] / v["size"]), unit1=v["key"]))
    return cases


def nontrivial(c, rec):
    lines = last_lines(rec)
    if not lines or lines[-1] is None:
        return False
    k, v = line_value(lines[-1])
    return k == "item" and v["t"] in ("DynamicType", "Number")


def close(got, exp):
    if got != got or abs(got) == float("inf"):
        return False
    g = F(repr(got))
    if exp == 0:
        return abs(g) <= F(1, 10 ** 12)
    return abs(g - exp) <= abs(exp) * TOL


def check_qty(line, exp, unit):
    if line is None:
        return "expected a quantity, got no result"
    k, v = line_value(line)
    if k != "item" or v["t"] != "DynamicType":
        return "expected a quantity in %s, got %s %r" % (unit, k, v)
    u = UNITS[unit]
    if (v["group"], v["index"]) != (u["fam"], u["idx"]):
        return "expected the unit %s (%s #%d), got %s #%s" % (unit, u["fam"], u["idx"], v["group"], v["index"])
    got = from_bits(v["v"])
    if not close(got, exp):
        return "expected %s %s (= %.17g), got %.17g" % (exp, unit, float(exp), got)
    return None


def spec_check(c, rec, header):
    m = c["meta"]
    lines = last_lines(rec)
    if lines is None:
        return "evaluation panicked or hung"
    typ = m["typ"]
    if typ == "qty2":
        if len(lines) != 2:
            return "expected two results, got %r" % (lines,)
        r = check_qty(lines[0], F(*m["expect1"]), m["unit1"])
        return r or check_qty(lines[1], F(*m["expect"]), m["unit"])
    if m.get("kind", "").startswith("variable-"):
        lines = lines[-1:]               # earlier lines bind the variables
    if len(lines) != 1:
        return "expected one result, got %r" % (lines,)
    line = lines[0]
    if typ == "qty":
        return check_qty(line, F(*m["expect"]), m["unit"])
    if typ == "number":
        if line is None:
            return "expected a number, got no result"
        k, v = line_value(line)
        if k != "item" or v["t"] != "Number":
            return "expected a plain number, got %s %r" % (k, v)
        got = from_bits(v["v"])
        if not close(got, F(*m["expect"])):
            return "expected %s (= %.17g), got %.17g" % (F(*m["expect"]), float(F(*m["expect"])), got)
        return None
    if typ == "cross":
        # no quantity of another kind may come out (an error, no result or the untouched source are fine)
        if line is None:
            return None
        k, v = line_value(line)
        if k == "item" and v["t"] == "DynamicType":
            u = BY_REF.get((v["group"], v["index"]))
            if u is None:
                return "unknown unit %r" % (v,)
            if u["kind"] != UNITS[m["src"]]["kind"]:
                return "a %s quantity became a %s quantity: %r" % (UNITS[m["src"]]["kind"], u["kind"], v)
        return None
    return "unknown case type %r" % typ


def known_class(c, rec, verdict, known):
    return None


def witness_fails(f, wc, rec, header):
    return False
