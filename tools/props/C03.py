"""C03 - a text is a straight-line program: later lines see the latest binding.

Generator: straight-line programs (2-12 lines) of assignments, re-assignments (also self-referential), copies through
other variables, uses inside arithmetic, negated uses, failing lines in between, over pools of one- and multi-word names
with shared prefixes, written in mixed letter case; values of every kind (number, percent, money, duration, date, time,
unit quantity).  Each program is run as ONE multi-line text (exec) or through a re-used Session (the text cut in chunks:
new_session / set_language / set_text / exec_session / set_text / exec_session ...).

Oracle: a tiny reference interpreter written from the property statement (env = name -> value, most recent binding
wins, names = lower-cased word tuples, leftmost-then-longest name match right of '=', assignment only on success, values
are copied).  It reads the program TEXT; the generator only tells it which right-hand sides are opaque literals of a
non-number kind and which lines are meant to fail.

The three defects once listed for C03 (find_location not restarting, the variable left behind by a failing first
assignment, `ab` / `a b` sharing one variable) are repaired in the code, and the CORPUS below pins each repair with fixed
programs whose every line is checked against the reference interpreter; so does it for the fourth one (a name with an
operator word in second or later position, assigned while the name made of its other words is bound, overwrote that
other variable).  There is no known-finding class.  Names with an operator word only occur in the fixed corpus, not in
the random pools: with `grand sum` bound a line `grand + grand` is the same token sequence as `grand sum grand`, which is
outside the statement."""
from .common import *
import re

ALLOWED_AXIOMS = []
DETAIL = 0
RULE = ("programs of 2-12 lines over name pools with shared prefixes (a / a b / a b c, total / total cost, my var / my / "
        "var, ...), random letter case; line kinds: numeric assignment (literals, uses, self-reference, + - * and "
        "parentheses, negated uses), opaque assignment (percent, money, duration, date, time, unit), copy y = x, use, "
        "failing assignment (evaluation error or parse error) of new and of existing names, also of a longer name that "
        "would shadow an existing shorter one, failing use, blank line, use next to a plain word or overlapping a partial "
        "match of the same name (a a b), use of a never (successfully) bound name as plain text, pairs of names whose "
        "words concatenate to the same string (ab / a b, a bc / ab c); fixed corpus pinning the repaired defects and names "
        "with an operator word in second or later position (grand sum, net times) alone and next to their first word; one "
        "exec of the whole text or a re-used session fed in 1-3 chunks; non-trivial = a later line reads a binding made "
        "by an earlier line; distinct = distinct histories")
ASSUMPTIONS = [
    "a word that the language reads as an operator (sum, add, minus, times ...) is that operator unless it is part of a "
    "bound name",
    "words that are not part of a bound name are plain text and are ignored (the calculator's general treatment of text)",
    "operands written next to each other are added (C02); a sign in front of an operand negates it",
    "`3 hours * 2 hours` fails to evaluate (C10: * is not defined on durations); `2 *` and `( 1 + 2` fail to parse",
    "for values that are not plain numbers the oracle only requires a later use to show what the defining line showed",
]

FAMILIES = [
    [("a",), ("a", "b"), ("a", "b", "c")],
    [("total",), ("total", "cost"), ("total", "cost", "net")],
    [("x",), ("y",), ("z",), ("w",)],
    [("my", "var"), ("my",), ("var",)],
    [("foo",), ("foo", "bar"), ("bar",), ("bar", "foo")],
    [("rate",), ("tax", "rate"), ("tax",), ("net", "tax", "rate")],
    # names with letters outside ASCII (each letter has a one-to-one upper/lower pair): re-binding and use in another
    # letter case must hit the same variable
    [("ödeme",), ("ödeme", "günü"), ("ücret",), ("gümüş", "ücret")],
    [("τιμή",), ("цена",), ("цена", "нетто")],
]
COLLIDING = [
    [("ab",), ("a", "b")],
    [("a", "bc"), ("ab", "c")],
    [("total", "cost"), ("totalcost",)],
]
JUNK = ["qux", "zed", "tip", "fee"]
OPAQUE = ["10%", "25%", "10 usd", "$250", "3 hours", "90 minutes", "2 days 3 hours", "12 january 2021",
          "11:30", "23:15", "3 km", "250 g", "1 january 2020"]
FAIL_EVAL = ["3 hours * 2 hours", "1 hour * 2 days"]
FAIL_PARSE = ["2 *", "( 1 + 2", ""]


# ---------------------------------------------------------------- the reference interpreter
TOK = re.compile(r"\s*(?:(\d+(?:,\d+)?)|([^\W\d_]+)|([-+*()]))")        # words: letters of any script


def lex(s):
    """numbers (decimal comma), words, operators; None when the text has anything else"""
    out, i = [], 0
    s = s.rstrip()
    while i < len(s):
        m = TOK.match(s, i)
        if not m:
            return None
        if m.group(1) is not None:
            out.append(("num", float(m.group(1).replace(",", "."))))
        elif m.group(2) is not None:
            out.append(("word", m.group(2).lower()))
        else:
            out.append(("op", m.group(3)))
        i = m.end()
    return out


def occurs_at(toks, i, name):
    return all(i + j < len(toks) and toks[i + j] == ("word", w) for j, w in enumerate(name))


# words the language reads as an operator when they are not part of a bound name (config.json languages.en.alias)
OPWORDS = {"sum": "+", "add": "+", "append": "+", "minus": "-", "exclude": "-", "times": "*", "multiply": "*"}


def resolve(toks, names):
    """leftmost-then-longest replacement of name occurrences; an operator word outside a name is its operator, other
    words are dropped"""
    out, i = [], 0
    while i < len(toks):
        if toks[i][0] == "word":
            best = None
            for n in names:
                if occurs_at(toks, i, n) and (best is None or len(n) > len(best)):
                    best = n
            if best is not None:
                out.append(("name", best))
                i += len(best)
            elif toks[i][1] in OPWORDS:
                out.append(("op", OPWORDS[toks[i][1]]))
                i += 1
            else:
                i += 1
        else:
            out.append(toks[i])
            i += 1
    return out


class Fail(Exception):
    pass


class Opaque(Exception):
    pass


def evaluate(toks, env):
    """value of a resolved token list: + - *, parentheses, signs, juxtaposition = addition"""
    pos = [0]

    def peek():
        return toks[pos[0]] if pos[0] < len(toks) else None

    def starts_operand(t):
        return t is not None and (t[0] in ("num", "name") or t == ("op", "("))

    def atom():
        t = peek()
        if t is None:
            raise Fail("operand expected")
        pos[0] += 1
        if t[0] == "num":
            return t[1]
        if t[0] == "name":
            v = env[t[1]]
            if not isinstance(v, float):
                raise Opaque()
            return v
        if t == ("op", "("):
            v = expr()
            if peek() != ("op", ")"):
                raise Fail("parenthesis not closed")
            pos[0] += 1
            return v
        raise Fail("operand expected")

    def unary():
        t = peek()
        if t in (("op", "-"), ("op", "+")):
            pos[0] += 1
            v = unary()
            return -1.0 * v if t[1] == "-" else v
        return atom()

    def term():
        v = unary()
        while peek() == ("op", "*"):
            pos[0] += 1
            v = v * unary()
        return v

    def expr():
        v = term()
        while True:
            t = peek()
            if t in (("op", "+"), ("op", "-")):
                pos[0] += 1
                r = term()
                v = v + r if t[1] == "+" else v - r
            elif starts_operand(t):
                v = v + term()
            else:
                return v

    v = expr()
    if pos[0] != len(toks):
        raise Fail("trailing tokens")
    return v


def reference(lines, kinds):
    """expected result per line: ("none",) blank | ("fail",) | ("num", v) | ("same", j) same as line j | ("any",) ok
    but unchecked | ("skip",)"""
    env, out = {}, []
    for idx, (line, kind) in enumerate(zip(lines, kinds)):
        if line.strip() == "":
            out.append(("none",))
            continue
        lhs, eq, rhs = line.partition("=")
        name = None
        if eq:
            lt = lex(lhs)
            if lt is None or not lt or any(t[0] != "word" for t in lt):
                out.append(("skip",))
                continue
            name = tuple(t[1] for t in lt)
            body = rhs
        else:
            body = line
        if kind == "fail":
            out.append(("fail",))
            continue
        if kind == "opaque":
            if name is not None:
                env[name] = ("opaque", idx)
            out.append(("any",))
            continue
        toks = lex(body)
        if toks is None:
            out.append(("skip",))
            continue
        rt = resolve(toks, env.keys())
        try:
            if len(rt) == 1 and rt[0][0] == "name" and not isinstance(env[rt[0][1]], float):
                v = env[rt[0][1]]                    # a copy / bare use of an opaque value
                # ("unknown": bound by arithmetic on opaque values, which may or may not have evaluated - the name
                #  then holds either that result or its previous value; nothing is claimed about later uses)
                res = ("same", v[1]) if v[0] == "opaque" else ("skip",)
            else:
                v = evaluate(rt, env)
                res = ("num", v)
        except Fail:
            out.append(("fail",))
            continue
        except Opaque:
            out.append(("skip",))
            if name is not None:
                env[name] = ("unknown", idx)
            continue
        if name is not None:
            env[name] = v
        out.append(res)
    return out


# ---------------------------------------------------------------- generator
def recase(rng, w):
    r = rng.random()
    if r < 0.55:
        return w
    if r < 0.7:
        return w.upper()
    if r < 0.85:
        return w.capitalize()
    return "".join(ch.upper() if rng.random() < 0.5 else ch for ch in w)


def show(rng, name):
    return (" " * rng.randint(1, 2)).join(recase(rng, w) for w in name)


def lit(rng):
    if rng.random() < 0.85:
        return str(rng.randint(0, 20))
    return rng.choice(["1,5", "2,5", "0,25", "12,75", "100"])


def gen_expr(rng, nums, depth, selfname=None):
    """a numeric expression over literals and the numeric names [nums]"""
    def operand(d):
        r = rng.random()
        if d > 0 and r < 0.25:
            return "(" + expr(d - 1) + ")"
        if nums and r < 0.7:
            n = selfname if (selfname is not None and rng.random() < 0.5) else rng.choice(nums)
            return show(rng, n)
        return lit(rng)

    def signed(d, first):
        o = operand(d)
        if rng.random() < 0.15:
            return ("-" if rng.random() < 0.8 else "- ") + o
        return o

    def expr(d):
        k = rng.choice([1, 1, 2, 2, 3])
        s = signed(d, True)
        for _ in range(k - 1):
            op = rng.choice([" + ", " - ", " * ", " + ", " * ", " "])
            nxt = signed(d, False)
            if op == " " and (nxt.startswith("-") or nxt[0].isdigit() and s[-1].isdigit()):
                op = " + "
            s += op + nxt
        return s

    return expr(depth)


def gen_program(rng, collide=False):
    fams = rng.sample(COLLIDING, 1) + rng.sample(FAMILIES, 1) if collide else rng.sample(FAMILIES, rng.randint(1, 2))
    pool = [n for f in fams for n in f]
    n_lines = rng.randint(2, 12)
    lines, kinds = [], []
    nums, opaques = [], []          # the generator's own bookkeeping (only used to pick sensible lines)
    eq = lambda: rng.choice([" = ", " = ", "=", " =", "= "])
    for i in range(n_lines):
        r = rng.random()
        name = rng.choice(pool)
        known = nums + opaques
        if r < 0.30 or not known:
            selfname = name if name in nums else None
            lines.append(show(rng, name) + eq() + gen_expr(rng, nums, rng.randint(0, 2), selfname))
            kinds.append("num")
            if name in opaques:
                opaques.remove(name)
            if name not in nums:
                nums.append(name)
        elif r < 0.40:
            lines.append(show(rng, name) + eq() + rng.choice(OPAQUE))
            kinds.append("opaque")
            if name in nums:
                nums.remove(name)
            if name not in opaques:
                opaques.append(name)
        elif r < 0.50:
            src = rng.choice(known)
            lines.append(show(rng, name) + eq() + show(rng, src))
            kinds.append("num")
            if name != src:
                for l in (nums, opaques):
                    if name in l:
                        l.remove(name)
                (nums if src in nums else opaques).append(name)
        elif r < 0.72:
            if nums and rng.random() < 0.8:
                lines.append(gen_expr(rng, nums, rng.randint(0, 2)))
            else:
                lines.append(show(rng, rng.choice(known)))
            kinds.append("num")
        elif r < 0.80:
            rhs = rng.choice(FAIL_EVAL)
            if nums and rng.random() < 0.4:
                rhs = show(rng, rng.choice(nums)) + " + " + rhs
            lines.append(show(rng, name) + eq() + rhs)
            kinds.append("fail")
        elif r < 0.85:
            lines.append((show(rng, name) + eq() + rng.choice(FAIL_PARSE)).rstrip() if rng.random() < 0.7
                         else show(rng, name) + " =")
            kinds.append("fail")
        elif r < 0.90:
            lines.append(rng.choice(FAIL_EVAL + ["2 *", "qux zed"]))
            kinds.append("fail")
        elif r < 0.93:
            lines.append("")
            kinds.append("num")
        elif r < 0.955:
            # a name that is not bound (never assigned, or only by failing lines) is plain text
            unbound = [n for n in pool if n not in known]
            u = rng.choice(unbound) if unbound else (rng.choice(JUNK),)
            k = rng.random()
            if k < 0.5:
                lines.append(show(rng, u) + " + " + lit(rng))
            elif k < 0.75 and known:
                lines.append(show(rng, u) + " " + show(rng, rng.choice(known)))
            else:
                lines.append(show(rng, u))
            kinds.append("num")
        else:
            # a use next to a plain word; the word may be the first word of the name itself
            n = rng.choice(known)
            j = n[0] if rng.random() < 0.4 else rng.choice(JUNK + [w for m in pool for w in m])
            if (j,) in known:
                j = rng.choice(JUNK)
            if len(n) > 1 and rng.random() < 0.35 and (n[0],) not in known:
                # an occurrence overlapping a partial match of the same name: `a a b`, `a b a b c`
                k = rng.randint(1, len(n) - 1)
                lines.append(show(rng, n[:k]) + " " + show(rng, n))
            else:
                lines.append((j + " " + show(rng, n)) if rng.random() < 0.6 else (show(rng, n) + " " + j))
            kinds.append("num")
    return lines, kinds


def make_case(rng, lines, kinds, kind):
    sep = "\r\n" if rng.random() < 0.08 else "\n"
    meta = {"kind": kind, "lines": lines, "kinds": kinds}
    if kind.startswith("session"):
        cuts = sorted(rng.sample(range(1, len(lines)), min(len(lines) - 1, rng.randint(0, 2)))) if len(lines) > 1 else []
        chunks, prev = [], 0
        for cpos in cuts + [len(lines)]:
            chunks.append(lines[prev:cpos])
            prev = cpos
        ops = [{"op": "new_session", "sid": 1}, {"op": "set_language", "sid": 1, "lang": "en"}]
        for ch in chunks:
            ops.append({"op": "set_text", "sid": 1, "text": sep.join(ch)})
            ops.append({"op": "exec_session", "sid": 1})
        return {"ops": ops, "meta": meta}
    return {"ops": [{"op": "exec", "lang": "en", "text": sep.join(lines)}], "meta": meta}


CORPUS = [
    (["x = 2", "y = x", "x = 7", "y"], None),
    (["a b = 3", "a = 1", "a b + a"], None),
    (["x = 3", "x = x + 1", "x = x * x", "x"], None),
    (["My Var = 4", "my var * 2", "MY VAR"], None),
    (["a = 1", "a b = 2", "a b c = 3", "a b c + a b + a", "-a b c", "2 * -A B"], None),
    (["x = 3", "x = 3 hours * 2 hours", "x", "x = 2 *", "x + 1"], ["num", "fail", "num", "fail", "num"]),
    (["x = 10%", "x", "y = 3 hours", "y", "t = 11:30", "t", "d = 12 january 2021", "d", "m = 10 usd", "m", "k = 3 km", "k",
      "kk = k", "k = 1", "kk"], ["opaque", "num"] * 6 + ["num", "num", "num"]),
    (["total = 5", "TOTAL + total", "ToTaL cost = total * 2", "total cost", "total", "Total  Cost - TOTAL"], None),
    # occurrences overlapping a failed partial match (fixed in /repo 542d9d0)
    (["a b = 3", "a a b", "foo a b", "a a b a b", "a b c = 5", "a b a b c", "a a b a b c * 2", "a a a b"], None),
    (["my var = 4", "my my var", "my my my var + 1", "2 * my MY Var"], None),
    # re-assignment under another letter case must hit the same variable
    (["Total = 1", "total = 2", "total + 1", "TOTAL"], None),
    (["Rate = 5", "rate = Rate * 2", "rate", "RATE + Rate"], None),
    (["My Rent = 100", "my rent = 200", "My Rent * 2", "MY RENT = my rent + 1", "my Rent"], None),
    (["zeta = 1", "Zeta = 2", "ZETA = 3", "zeta + Zeta + ZETA"], None),
    (["Ödeme = 10", "ödeme = 20", "ödeme + 1", "ÖDEME + 1", "Ödeme + 1"], None),
    (["Gümüş Ücret = 100", "gümüş ücret = 250", "gümüş ücret * 2", "GÜMÜŞ ÜCRET + 1", "ücret = 3", "Ücret + gümüş Ücret"], None),
    (["ödeme = 1", "ÖDEME = 2", "Ödeme = ödeme + 5", "ödeme"], None),
    (["Τιμή = 5", "τιμή = 6", "ΤΙΜΉ + 1", "Цена = 7", "цена = 8", "ЦЕНА * 2"], None),
    # a name whose SECOND or later word is an operator word of the language (sum, times, minus ...): the name tokens then
    # hold an operator token; binding, re-binding and use must still hit one variable (the first word is not bound alone)
    (["grand sum = 10", "grand sum = 25", "grand sum + 1", "Grand Sum * 2"], None),
    (["net times = 3", "net times = net times + 4", "net times", "rest minus = 2", "rest minus = 9", "rest minus + net times"], None),
    # ... and such a name next to its first word bound alone: two variables (`grand sum` is stored under the key with
    # the operator, `grand` under its own), the longer name wins, `grand` can be re-bound freely
    (["grand sum = 10", "grand = 7", "grand sum", "grand", "grand sum + grand", "grand = 8", "Grand Sum - GRAND",
      "grand = grand sum + 1", "grand", "grand sum"], None),
    (["net times = 3", "net = 5", "net times + net", "net = net times", "net", "net times * 2", "NET  TIMES - net"], None),
    (["rest minus = 2", "rest = 9", "rest minus", "rest", "rest = rest * rest minus", "rest", "rest minus"], None),
    # binding and re-binding of both names in both orders (formerly `grand sum = ..` overwrote a bound `grand`: the
    # lookup key left the operator tokens out; repaired in /repo 60764fa)
    (["grand = 7", "grand sum = 10", "grand", "grand sum"], None),
    (["grand sum = 10", "grand = 7", "grand sum", "grand", "grand sum = 3", "grand sum + grand"], None),
    (["grand sum = 10", "grand = 7", "grand sum = 3", "grand sum", "grand", "grand = 1", "grand sum", "GRAND SUM = 4 + grand",
      "grand sum - grand"], None),
    (["net = 5", "net times = 3", "net times = net times + net", "net", "net times", "net = net times * 2", "net"], None),
    # a name whose leading word recurs inside the name, used where the occurrence starts inside a failed partial match
    (["very very big = 1000", "very very very big + 1", "very very big * 2", "very big = 3", "very very very big + very big"], None),
    (["tic tac tic toe = 7", "tic tac tic tac tic toe * 2", "tic tic tac tic toe + 1"], None),
    # names that embed a month word (codec, marching, trojan) next to the month word bound on its own
    (["codec = 5", "dec = 7", "codec", "codec + dec"], None), (["marching = 10", "march = 1", "marching + 1"], None),
    (["trojan = 7", "jan = 2", "2 * trojan"], None),
    # words that merely CONTAIN an operator word or resemble a keyword are ordinary name words
    (["cost = 3", "cost summary = 40", "cost + 1", "cost summary * 2"], None),
    (["start = 2", "start timestamp = 100", "start timestamp + start", "rent addition = 5", "rent addition * 2"], None),
    (["lead time = 3", "lead time * 2", "travel time = lead time + 5", "travel time"], None),
    (["timestamp = 7", "summary = 1", "timestamp + summary", "multiplying = 2", "multiplying * 3"], None),
    # a failing assignment leaves no variable behind (formerly C03-ghost-variable): a failed multi-word assignment
    # does not shadow the shorter existing name, a failed first assignment leaves the name plain text
    (["a = 2", "a b = 3 hours * 2 hours", "a b + 1", "a b", "a", "A B = a + 3 hours * 2 hours", "a b * 4"],
     ["num", "fail", "num", "num", "num", "fail", "num"]),
    (["z = 3 hours * 2 hours", "z + 1", "z", "z = 4", "z + 1"], ["fail", "num", "num", "num", "num"]),
    (["total = 5", "total cost = 2 *", "total cost + 1", "Total Cost = 1 hour * 2 days", "total cost", "total cost = 7",
      "total cost + total"], ["num", "fail", "num", "fail", "num", "num", "num"]),
    (["x = 1", "q = 3 hours * 2 hours", "y = q", "y", "x", "q + x", "x q"],
     ["num", "fail", "num", "num", "num", "num", "num"]),
    # names whose words concatenate to the same string are different variables (formerly C03-name-key-collision)
    (["ab = 1", "a b = 2", "ab", "a b", "ab + a b", "a b = ab + 10", "ab", "A  B", "AB = 20", "a b"], None),
    (["a b = 2", "ab = 1", "a b", "ab", "-ab + 2 * a b"], None),
    (["a bc = 1", "ab c = 2", "a bc + ab c", "abc = 5", "abc + a bc", "ab c"], None),
    (["total cost = 3", "totalcost = 4", "total cost * 10 + totalcost", "TotalCost", "Total Cost"], None),
]


def generate(rng, tier):
    n = 420 if tier == "quick" else 6000
    cases = []
    for lines, kinds in CORPUS:
        kinds = kinds or ["num"] * len(lines)
        cases.append(make_case(rng, lines, kinds, "corpus"))
        cases.append(make_case(rng, lines, kinds, "session-corpus"))
    cases.extend(equiv_cases())
    while len(cases) < n:
        collide = rng.random() < 0.08
        lines, kinds = gen_program(rng, collide)
        k = "session" if rng.random() < 0.3 else "exec"
        cases.append(make_case(rng, lines, kinds, k + ("-collide" if collide else "")))
    return cases


# ---------------------------------------------------------------- oracle
def observed_lines(rec):
    """result slots of all exec / exec_session observations, in order; None on panic / hang"""
    if rec is None or rec.get("hang") or rec.get("crash"):
        return None
    out = []
    for ob in rec["obs"]:
        if "panic" in ob:
            return None
        if "lines" in ob:
            if ob.get("status") is False:
                return None
            out.extend(ob["lines"])
    return out


def first_failure(c, rec):
    """(line index, reason) of the first line that contradicts the reference interpreter, or None"""
    lines, kinds = c["meta"]["lines"], c["meta"]["kinds"]
    obs = observed_lines(rec)
    if obs is None:
        return (0, "evaluation panicked, hung or the session refused to run")
    # every chunk / text yields one slot per line
    if len(obs) != len(lines):
        return (0, "%d result slots for %d lines" % (len(obs), len(lines)))
    exp = reference(lines, kinds)
    for i, (e, o) in enumerate(zip(exp, obs)):
        k, v = line_value(o)
        if e[0] == "none":
            if o is not None:
                return (i, "blank line produced %r" % (o,))
        elif e[0] == "fail":
            if k == "item":
                return (i, "the line should fail but evaluated to %r" % (v,))
        elif e[0] == "num":
            if k != "item" or v["t"] != "Number":
                return (i, "expected the number %r, got %s %r" % (e[1], k, v))
            if not same_float(from_bits(v["v"]), e[1]):
                return (i, "expected %r, got %r" % (e[1], from_bits(v["v"])))
        elif e[0] == "same":
            d = obs[e[1]]
            if k != "item" or d is None or "err" in d or o.get("out") != d.get("out") or o.get("ast") != d.get("ast"):
                return (i, "expected what line %d showed (%r), got %r" % (e[1], d, o))
        elif e[0] == "any":
            if k != "item":
                return (i, "the defining line %r did not evaluate: %r" % (lines[i], o))
    return None


EQUIV = [
    # (program with names, the same last line with the bound values written out): the LAST lines evaluate alike, whatever
    # kind the bound value has - the name is replaced by its value before units, rules and signs are looked at
    (["p = 10%", "200 + -p"], "200 + -(10%)"), (["p = 10%", "200 - -p"], "200 - -(10%)"), (["p = 10%", "p of 50"], "10% of 50"),
    (["p = 10%", "p on 50"], "10% on 50"), (["p = 10%", "p off 50"], "10% off 50"), (["p = 10%", "5 is p of what"], "5 is 10% of what"),
    (["price = 10 eur", "$100 + -price"], "$100 + -(10 eur)"), (["d = 2 hours", "11:30 + +d"], "11:30 + 2 hours"),
    (["x = 10", "x kg"], "10 kg"), (["x = 10", "x kg to g"], "10 kg to g"), (["x = 10", "x m + 5 m"], "10 m + 5 m"),
    (["m = 5", "10 m"], "10 5"), (["kb = 3", "2 kb + 1"], "2 3 + 1"), (["t = 15:30", "12/12/2020 at t"], "12/12/2020 at 15:30"),
    (["t = 15:30", "x = 12/12/2020 at t", "x as unix"], "12/12/2020 at 15:30 as unix"), (["n = 7", "12/12/2020 at n"], "12/12/2020 at 7"),
    (["x = 20 usd", "x is 10% of what"], "20 usd is 10% of what"), (["share = 20 is what % of 80", "share of 200"], "25% of 200"),
    (["k = 3 km", "k + 500 m"], "3 km + 500 m"), (["a = 2 hours", "a 30 minutes"], "2 hours 30 minutes"),
    (["a = 1 year", "b = 2 months", "c = 3 weeks", "d = 4 days", "e = 5 hours", "f = 6 minutes", "a b c d e f"],
     "1 year 2 months 3 weeks 4 days 5 hours 6 minutes"),
    (["a = 1 day", "b = 2 hours", "c = 3 minutes", "a b c"], "1 day 2 hours 3 minutes"),
    (["a = 1 day", "b = 2 hours", "c = 3 minutes", "d = 4 seconds", "total = a b c d", "total 5 seconds"], "1 day 2 hours 3 minutes 9 seconds"),
    (["a = 2 hours", "1 hour + a 30 minutes"], "1 hour + 2 hours 30 minutes"), (["t = 10:30", "t 2 hours"], "10:30 2 hours"),
    (["d = 12/12/2020", "d 2 weeks"], "12/12/2020 2 weeks"), (["n = 3", "n 10% of 50"], "3 10% of 50"), (["u = 10 usd", "u 5 usd to try"], "10 usd 5 usd to try"), (["z = 12:30 EST", "z to CET"], "12:30 EST to CET"),
]


def equiv_cases():
    out = []
    for lines, literal in EQUIV:
        out.append({"ops": [{"op": "exec", "lang": "en", "text": "\n".join(lines)}, {"op": "exec", "lang": "en", "text": literal}],
                    "meta": {"kind": "equiv", "lines": lines, "kinds": [], "literal": literal}})
    return out


def equiv_failure(c, rec):
    if rec is None or rec.get("hang") or rec.get("crash") or any("panic" in o for o in rec["obs"]):
        return "evaluation panicked or hung"
    a, b = rec["obs"][0].get("lines"), rec["obs"][1].get("lines")
    if not a or not b or a[-1] is None or b[-1] is None:
        return "no result: %r / %r" % (a, b)
    la, lb = a[-1], b[-1]
    if "err" in lb:
        return None                      # the written-out line itself does not evaluate: nothing is claimed
    if "err" in la or la.get("out") != lb.get("out") or la.get("ast") != lb.get("ast"):
        return "%r gives %r but with the values written out, %r, it gives %r" % (c["meta"]["lines"][-1], la, c["meta"]["literal"], lb)
    return None


def spec_check(c, rec, header):
    if c["meta"].get("kind") == "equiv":
        return equiv_failure(c, rec)
    f = first_failure(c, rec)
    if f is None:
        return None
    return "line %d (%r): %s" % (f[0], c["meta"]["lines"][f[0]] if f[0] < len(c["meta"]["lines"]) else None, f[1])


def nontrivial(c, rec):
    if c["meta"].get("kind") == "equiv":
        return equiv_failure(c, rec) is None
    obs = observed_lines(rec)
    if not obs:
        return False
    exp = reference(c["meta"]["lines"], c["meta"]["kinds"])
    seen_assign = False
    for line, e in zip(c["meta"]["lines"], exp):
        if seen_assign and e[0] in ("num", "same") and re.search(r"[A-Za-z]", line.partition("=")[2] if "=" in line else line):
            return True
        if "=" in line and e[0] in ("num", "same", "any"):
            seen_assign = True
    return False


def known_class(c, rec, verdict, known):
    return None


def witness_fails(f, wc, rec, header):
    return False
