"""C10 - durations: unit lengths, additivity, greedy printing, `as` flooring."""
from .common import *

THEOREMS = ["c10_units", "c10_parse_simple", "c10_parse_day", "c10_parse_year", "c10_parse_month",
            "c10_parse_in_range", "c10_greedy_sum", "c10_greedy_shape", "c10_zero_prints_nothing", "c10_as_floor",
            "c10_additive_calc", "c10_additive_combine", "c10_singular_plural_en", "c10_singular_plural_tr"]
ALLOWED_AXIOMS = []
DETAIL = 0
RULE = ("counts from {0,1,2,29,30,31,59,60,61,255,256,257,364,365,366,513,65537,10^6,random} (pinned: 257/513/65537 years and their sums) x every unit spelling of en and tr; sequences of "
        "1-7 parts juxtaposed or joined by + and -; `as` with the five targets; non-trivial = evaluates to a duration; "
        "distinct = distinct text")
ASSUMPTIONS = ["the reference word table (second(s) .. year(s); saniye .. yil) and unit lengths are fixed in the oracle"]

LEN = {"second": 1, "minute": 60, "hour": 3600, "day": 86400, "week": 7 * 86400, "month": 30 * 86400, "year": 365 * 86400}
EN = {"second": ["second", "seconds"], "minute": ["minute", "minutes"], "hour": ["hour", "hours"], "day": ["day", "days"],
      "week": ["week", "weeks"], "month": ["month", "months"], "year": ["year", "years"]}
TR = {"second": ["saniye"], "minute": ["dakika"], "hour": ["saat"], "day": ["gün", "gun"], "week": ["hafta"],
      "month": ["ay"], "year": ["yıl", "yil"]}
TR_PRINT = {"second": "saniye", "minute": "dakika", "hour": "saat", "day": "gün", "week": "hafta", "month": "ay", "year": "yıl"}
ORDER = ["year", "month", "week", "day", "hour", "minute", "second"]
COUNTS = [0, 1, 2, 29, 30, 31, 59, 60, 61, 255, 256, 257, 364, 365, 366, 513, 65537, 10 ** 6]


def secs_of(n, unit):
    if unit == "month":
        return (365 * (n // 12) + 30 * (n % 12)) * 86400
    return n * LEN[unit]


def render(secs, lang):
    d = abs(secs)
    parts = []
    for u in ORDER:
        if u == "second":
            if d > 0:
                parts.append((u, d))
        elif d >= LEN[u]:
            parts.append((u, d // LEN[u]))
            d %= LEN[u]
    out = []
    for u, c in parts:
        if lang == "en":
            out.append("1 %s" % u if c == 1 else "%d %ss" % (c, u))
        else:
            out.append("%d %s" % (c, TR_PRINT[u]))
    return " ".join(out)


def count(rng):
    return rng.choice(COUNTS) if rng.random() < 0.6 else rng.randint(0, 10 ** rng.randint(1, 6))


def generate(rng, tier):
    n = 350 if tier == "quick" else 5000
    cases = []
    # every unit spelling x boundary counts
    for lang, table in (("en", EN), ("tr", TR)):
        for u, words in table.items():
            for w in words:
                for c in (COUNTS if tier != "quick" else rng.sample(COUNTS, 3)):
                    s = secs_of(c, u)
                    cases.append(exec_case("%d %s" % (c, w), lang, kind="single-" + lang, expect=s, out=render(s, lang)))
    # pinned: component counts that are 1 modulo a power of two are not "1 year" (the singular row is for the count 1 only)
    for text, secs in (("257 years", 257 * LEN["year"]), ("513 years", 513 * LEN["year"]), ("65537 years", 65537 * LEN["year"]),
                       ("200 years + 57 years", 257 * LEN["year"]), ("300 years - 43 years", 257 * LEN["year"]),
                       ("3084 months", 257 * LEN["year"]), ("256 years 12 months 3 hours", 257 * LEN["year"] + 3 * 3600),
                       ("93805 days", 93805 * 86400), ("257 weeks", 257 * LEN["week"]), ("257 hours", 257 * 3600),
                       ("1 year", LEN["year"]), ("256 years", 256 * LEN["year"])):
        cases.append(exec_case(text, "en", kind="pinned-en", expect=secs, out=render(secs, "en")))
    rule = {"op": "add_rule", "lang": "en", "patterns": ["hello {TEXT:who}"], "name": "greeting", "kind": "const_number", "k": str(bits(1.0)), "cur": ""}
    for text, secs in (("90 seconds as minutes", 60), ("3 hours 20 minutes as hours", 3 * 3600), ("1 hour 30 minutes", 5400),
                       ("2 weeks + 3 days", 17 * 86400), ("1 hour - 3 hours + 4 hours", 2 * 3600)):
        cases.append(exec_case(text, "en", pre=[rule, {"op": "delete_rule", "lang": "en", "name": "greeting"}],
                               kind="pinned-after-rule-history", expect=secs, out=render(secs, "en")))
    # durations held in variables and written side by side add up, every operand included (two to nine operands, more than the
    # longest combining pattern of the table has parts), in both languages
    vals = {"en": [("a", "1 year", LEN["year"]), ("b", "2 months", 2 * LEN["month"]), ("c", "3 weeks", 3 * LEN["week"]), ("d", "4 days", 4 * 86400),
                   ("e", "5 hours", 5 * 3600), ("f", "6 minutes", 360), ("g", "1 second", 1), ("h", "8 seconds", 8), ("i", "2 days", 2 * 86400)],
            "tr": [("a", "1 yıl", LEN["year"]), ("b", "2 ay", 2 * LEN["month"]), ("c", "3 hafta", 3 * LEN["week"]), ("d", "4 gün", 4 * 86400),
                   ("e", "5 saat", 5 * 3600), ("f", "6 dakika", 360), ("g", "1 saniye", 1), ("h", "8 saniye", 8), ("i", "2 gün", 2 * 86400)]}
    for lang in ("en", "tr"):
        for k in (2, 3, 4, 5, 6, 7, 8, 9):
            vs = vals[lang][:k]
            defs = "\n".join("%s = %s" % (n_, t) for n_, t, _ in vs)
            names = " ".join(n_ for n_, _, _ in vs)
            tot = sum(s_ for _, _, s_ in vs)
            cases.append(exec_case(defs + "\n" + names, lang, kind="variables-side-by-side", expect=tot, out=render(tot, lang), lastline=True))
            if lang == "en":
                cases.append(exec_case(defs + "\ntotal = " + names + "\ntotal 7 seconds", "en", kind="variables-side-by-side", expect=tot + 7,
                                       out=render(tot + 7, "en"), lastline=True))
    for lang, text, secs in (("en", "3 hours 20 minutes - 1 hour 30 minutes", 6600), ("tr", "3 saat 20 dakika - 1 saat 30 dakika", 6600),
                             ("en", "1 day 2 hours - 30 minutes 10 seconds", 93600 - 1810), ("tr", "1 gün 2 saat - 30 dakika 10 saniye", 93600 - 1810),
                             ("en", "2 weeks 1 day + 1 day 2 hours 3 minutes", 15 * 86400 + 86400 + 7380),
                             ("tr", "2 hafta 1 gün + 1 gün 2 saat 3 dakika", 15 * 86400 + 86400 + 7380),
                             ("tr", "5 saat - 1 saat 30 dakika - 20 dakika", 18000 - 5400 - 1200)):
        cases.append(exec_case(text, lang, kind="multi-part-operands-" + lang, expect=secs, out=render(secs, lang)))
    for text, secs in (("257 yıl", 257 * LEN["year"]), ("1 yıl", LEN["year"])):
        cases.append(exec_case(text, "tr", kind="pinned-tr", expect=secs, out=render(secs, "tr")))
    while len(cases) < n:
        lang = "en" if rng.random() < 0.75 else "tr"
        table = EN if lang == "en" else TR
        k = rng.random()
        if k < 0.45:
            # sequence of 1-7 parts, juxtaposed (descending order of units as people write them, or random)
            m = rng.randint(1, 7)
            units = rng.sample(ORDER, m)
            if rng.random() < 0.7:
                units.sort(key=ORDER.index)
            total, words = 0, []
            for u in units:
                c = count(rng) if rng.random() < 0.3 else rng.randint(0, 70)
                total += secs_of(c, u)
                words.append("%d %s" % (c, rng.choice(table[u])))
            text = (" " * rng.randint(1, 2)).join(words)
            cases.append(exec_case(text, lang, kind="sequence-" + lang, expect=total, out=render(total, lang)))
        elif k < 0.7:
            # joined by + and -
            m = rng.randint(2, 4)
            total, text = 0, ""
            for i in range(m):
                u = rng.choice(ORDER)
                c = rng.randint(0, 400)
                s = secs_of(c, u)
                op = "+" if i == 0 or rng.random() < 0.6 else "-"
                total = total + s if op == "+" else total - s
                text += ("" if i == 0 else " %s " % op) + "%d %s" % (c, rng.choice(table[u]))
            cases.append(exec_case(text, lang, kind="arith-" + lang, expect=total, out=render(total, lang)))
        elif lang == "en":
            # D as unit (flooring); tr has no conversion words configured
            m = rng.randint(1, 3)
            units = sorted(rng.sample(ORDER, m), key=ORDER.index)
            total, words = 0, []
            for u in units:
                c = rng.randint(0, 500)
                total += secs_of(c, u)
                words.append("%d %s" % (c, rng.choice(EN[u])))
            tgt = rng.choice(["second", "minute", "hour", "day", "week"])
            res = (abs(total) // LEN[tgt]) * LEN[tgt]
            text = " ".join(words) + " " + rng.choice(["as", "to", "in", "into"]) + " " + rng.choice(EN[tgt])
            pre, kind = [], "as"
            if rng.random() < 0.2:
                # a custom rule registered and deleted again (or left in place) must not disturb the built-in rules
                rule = {"op": "add_rule", "lang": "en", "patterns": ["hello {TEXT:who}"], "name": "greeting", "kind": "const_number",
                        "k": str(bits(1.0)), "cur": ""}
                pre = [rule] + ([{"op": "delete_rule", "lang": "en", "name": "greeting"}] if rng.random() < 0.7 else [])
                kind = "as-after-rule-history"
            cases.append(exec_case(text, "en", pre=pre, kind=kind, expect=res, out=render(res, "en")))
    return cases


def nontrivial(c, rec):
    lines = last_lines(rec)
    if not lines or lines[0] is None:
        return False
    k, v = line_value(lines[0])
    return k == "item" and v["t"] == "Duration"


def spec_check(c, rec, header):
    exp = c["meta"].get("expect")
    if exp is None:
        return None
    lines = last_lines(rec)
    if lines is None:
        return "evaluation panicked or hung"
    if c["meta"].get("lastline") and lines:
        lines = lines[-1:]               # earlier lines bind variables
    if len(lines) != 1 or lines[0] is None:
        return "expected one duration result, got %r" % (lines,)
    k, v = line_value(lines[0])
    if k != "item" or v["t"] != "Duration":
        return "expected a duration of %d s, got %s %r" % (exp, k, v)
    if v["secs"] != exp:
        return "expected %d seconds, got %d" % (exp, v["secs"])
    if lines[0]["out"] != c["meta"]["out"]:
        return "expected the text %r, got %r" % (c["meta"]["out"], lines[0]["out"])
    return None


def known_class(c, rec, verdict, known):
    return None


def witness_fails(f, wc, rec, header):
    return False
