"""C05 - percentage phrases compute the textbook formulas for numbers and money."""
from fractions import Fraction
from .common import *

ALLOWED_AXIOMS = []
DETAIL = 0
RULE = ("X, A, B, p from {0, +-small integers, fractions, large, tiny} x {plain, money in 8 currencies} x both percent "
        "spellings x both operand orders x the seven phrases; expected value = exact rational formula, compared with "
        "relative tolerance 2^-40; non-trivial = evaluates to a number/percent/money; distinct = distinct text")
ASSUMPTIONS = ["binary64 results are compared with the exact rational formula up to relative error 2^-40"]

VALUES = [0, 1, 2, 5, 10, 12.5, 50, 80, 99.99, 100, 150, 200, 1234.5, 0.5, 0.25, 0.001, 1000000, 123456789]
PCTS = [0, 1, 5, 7.5, 10, 12.5, 15, 20, 25, 33, 50, 75, 99.9, 100, 150, 200, 0.5]
CURRENCIES = [("$", "USD", "pre"), ("₺", "TRY", "pre"), ("€", "EUR", "pre"), ("usd", "USD", "post"), ("try", "TRY", "post"),
              ("eur", "EUR", "post"), ("dkk", "DKK", "post"), ("sek", "SEK", "post"), ("bgn", "BGN", "post"),
              ("jpy", "JPY", "post"), ("gbp", "GBP", "post")]
TOL = Fraction(1, 2 ** 40)


def lit(rng, v):
    return fmt_dec(v, tsep=rng.choice([None, None, "."]))


def amount(rng, v, cur):
    s = lit(rng, v)
    if cur is None:
        return s
    sym, code, pos = cur
    if pos == "pre":
        return sym + s
    return s + rng.choice([" ", ""]) + rng.choice([sym, sym.upper()])


def pct(rng, p):
    s = fmt_dec(p)
    return s + "%" if rng.random() < 0.6 else "%" + s


def F(x):
    return Fraction(repr(float(x)))


def generate(rng, tier):
    n = 400 if tier == "quick" else 6000
    cases = []
    while len(cases) < n:
        X = rng.choice(VALUES) if rng.random() < 0.7 else round(rng.uniform(0, 10000), rng.randint(0, 3))
        p = rng.choice(PCTS) if rng.random() < 0.7 else round(rng.uniform(0, 300), rng.randint(0, 2))
        if rng.random() < 0.15:
            X = -X
        if rng.random() < 0.1:
            p = -p
        cur = rng.choice(CURRENCIES) if rng.random() < 0.4 else None
        neg_money = cur is not None and X < 0
        if neg_money:
            X = -X                      # signed money literals belong to C06
        code = cur[1] if cur else None
        fx, fp = F(X), F(p)
        phrase = rng.choice(["plus", "minus", "of", "on", "off", "what", "ofwhat"])
        sp = " " * rng.choice([1, 1, 2])
        xs, ps = amount(rng, X, cur), pct(rng, p)
        if phrase == "plus":
            text, exp, typ = xs + sp + "+" + sp + ps, fx * (1 + fp / 100), "same"
        elif phrase == "minus":
            text, exp, typ = xs + sp + "-" + sp + ps, fx * (1 - fp / 100), "same"
        elif phrase == "of":
            text = (ps + sp + "of" + sp + xs) if rng.random() < 0.7 else (xs + sp + "of" + sp + ps)
            exp, typ = fx * fp / 100, "same"
        elif phrase == "on":
            text = (ps + sp + "on" + sp + xs) if rng.random() < 0.7 else (xs + sp + "on" + sp + ps)
            exp, typ = fx * (1 + fp / 100), "same"
        elif phrase == "off":
            text = (ps + sp + "off" + sp + xs) if rng.random() < 0.7 else (xs + sp + "off" + sp + ps)
            exp, typ = fx * (1 - fp / 100), "same"
        elif phrase == "what":
            B = rng.choice(VALUES)
            fb = F(B)
            bs = amount(rng, B, cur)
            text = xs + sp + "is what % of" + sp + bs
            exp, typ = (100 * fx / fb if fb != 0 else Fraction(0)), "percent"
        else:
            text = xs + sp + "is" + sp + ps + sp + "of what"
            exp, typ = (100 * fx / fp if fp != 0 else Fraction(0)), "same"
        if phrase in ("plus", "minus") and X < 0 and text.startswith("-"):
            pass
        if p < 0 and phrase in ("plus", "minus"):
            # "100 + -10%": the sign belongs to the percentage literal
            pass
        cases.append(exec_case(text, "en", kind=phrase + ("-money" if cur else ""),
                               expect=[exp.numerator, exp.denominator], typ=typ, cur=code))
    return cases


def nontrivial(c, rec):
    lines = last_lines(rec)
    if not lines or lines[0] is None:
        return False
    k, v = line_value(lines[0])
    return k == "item"


def close(got, exp):
    g = Fraction(repr(got)) if got == got and abs(got) != float("inf") else None
    if g is None:
        return False
    if exp == 0:
        return abs(g) <= Fraction(1, 10 ** 12)
    return abs(g - exp) <= abs(exp) * TOL


def spec_check(c, rec, header):
    m = c["meta"]
    exp = Fraction(m["expect"][0], m["expect"][1])
    lines = last_lines(rec)
    if lines is None:
        return "evaluation panicked or hung"
    if len(lines) != 1 or lines[0] is None:
        return "expected one result, got %r" % (lines,)
    k, v = line_value(lines[0])
    if k != "item":
        return "expected a value, got %s %r" % (k, v)
    want = "Percent" if m["typ"] == "percent" else ("Money" if m["cur"] else "Number")
    if v["t"] != want:
        return "expected a %s, got %r" % (want, v)
    if want == "Money" and v["cur"] != m["cur"]:
        return "expected currency %s, got %s" % (m["cur"], v["cur"])
    got = from_bits(v["v"])
    if not close(got, exp):
        return "expected %s (= %.17g), got %.17g" % (exp, float(exp), got)
    return None


def known_class(c, rec, verdict, known):
    return None


def witness_fails(f, wc, rec, header):
    return False
