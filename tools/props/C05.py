"""C05 - percentage phrases compute the textbook formulas for numbers and money.

Generator: the seven phrases x both operand orders (where the phrase allows it) x both percent spellings
('p%', '%p') x operand kinds {plain literal, plain atom [NUMBER:x], money with a currency symbol, money with any
of the currency codes of config.json (upper / lower case), money atom [MONEY:x;code], a session variable holding a
number / money / percentage} x values {0, +-integers, fractions, large, tiny (atoms)}.
Oracle (independent of the model): the exact rational formula of the statement evaluated on the binary64 values
of the operands; the result must have the right kind (Number / Percent / Money in the operand's currency) and
agree up to a relative error of 2^-40 of the largest intermediate magnitude."""
import json, os
from fractions import Fraction
from .common import *

ALLOWED_AXIOMS = []
DETAIL = 0
RULE = ("X, A, B, p from {0, +-small integers, fractions, large, tiny} x {plain literal, [NUMBER:x] atom, money by "
        "symbol / alias word, money by any of the 161 currency codes, session variable} x percent spellings "
        "{p%, %p, [PERCENT:p] atom, variable} x both operand orders x the seven phrases, en (and tr, same patterns); "
        "expected value = exact rational formula on the binary64 operand values, compared with relative tolerance "
        "2^-40 of the largest intermediate; non-trivial = evaluates to a number/percent/money; distinct = distinct text")
ASSUMPTIONS = ["binary64 results are compared with the exact rational formula up to relative error 2^-40 (of the "
               "largest of |X|, |X*p/100|, |result|: 'X - p%' with p near 100 cancels)",
               "operands are kept within 1e-100 .. 1e100 in magnitude so that no intermediate product overflows or "
               "underflows (an overflowing intermediate is turned into 0 by the guarded division; the statement is "
               "about finite results)"]

_cfg = json.load(open("/repo/src/json/config.json", encoding="utf-8"))
CODES = sorted(_cfg["currencies"].keys())                      # 161 codes, upper case
# words that must not be read as something else when they follow a number ("10 on", "10 is" are not money because
# these are not currency codes; a code equal to a phrase word or a unit/constant word would be ambiguous)
SYMBOLS = [("$", "USD"), ("₺", "TRY"), ("€", "EUR")]
ALIASES = [("tl", "TRY"), ("dollar", "USD"), ("euro", "EUR"), ("kr", "DKK"), ("leva", "BGN")]

INTS = [0, 1, 2, 3, 5, 7, 10, 12, 40, 50, 80, 99, 100, 150, 200, 1000, 1000000, 123456789]
FRACS = [0.5, 0.25, 0.125, 12.5, 99.99, 0.001, 1234.5, 33.33, 7.5, 0.1, 2.675, 1000.5]
ATOMS = ["1e-7", "2.5e20", "1e100", "3.5e-100", "0.000001", "123456789012345678", "4.9e-30", "6.02e23", "1e15", ".5", "5."]
PCT_INTS = [0, 1, 5, 6, 10, 15, 20, 25, 33, 50, 75, 99, 100, 101, 150, 200, 1000]
PCT_FRACS = [0.5, 7.5, 12.5, 99.9, 0.01, 33.33, 2.25, 100.5]
TOL = Fraction(1, 2 ** 40)


def F(x):
    return Fraction(float(x))


class Operand:
    """text to put into the line, exact value, currency code or None, optional variable definition line"""
    def __init__(self, text, val, code=None, pre=None):
        self.text, self.val, self.code, self.pre = text, val, code, pre


def pick_value(rng, allow_neg=True):
    r = rng.random()
    if r < 0.5:
        v = rng.choice(INTS)
    elif r < 0.8:
        v = rng.choice(FRACS)
    else:
        v = round(rng.uniform(0, 10000), rng.randint(0, 3))
    if allow_neg and rng.random() < 0.2:
        v = -v
    return v


def lit(rng, v):
    return fmt_dec(v, tsep=rng.choice([None, None, "."]))


def make_amount(rng, money, var_ok=True):
    """an operand X / A / B: plain or money"""
    r = rng.random()
    if not money:
        if r < 0.12:
            a = rng.choice(ATOMS)
            if rng.random() < 0.3:
                a = "-" + a
            op = Operand("[NUMBER:%s]" % a, F(a))
        else:
            v = pick_value(rng)
            op = Operand(lit(rng, v), F(v))
    else:
        # no [MONEY:x;code] atoms: the global alias ';' -> '' (regex \b;\b, config.json "alias") matches the atom's
        # own text, so alias_tokinizer turns every such token into Text("") - in the crate and in the model alike;
        # atoms are not part of the statement (reported, not a C05 failure)
        if r < 0.3:
            v = pick_value(rng, allow_neg=False)
            sym, code = rng.choice(SYMBOLS)
            neg = rng.random() < 0.15
            # '$-5': the sign is part of the PRICE group of the money regex
            op = Operand(sym + ("-" if neg else "") + lit(rng, v), F(-v if neg else v), code)
        elif r < 0.4:
            v = pick_value(rng)
            word, code = rng.choice(ALIASES)
            op = Operand(lit(rng, v) + " " + word, F(v), code)
        else:
            v = pick_value(rng)
            code = rng.choice(CODES)
            op = Operand(lit(rng, v) + rng.choice([" ", " ", ""]) + rng.choice([code, code.lower()]), F(v), code)
    if var_ok and rng.random() < 0.1:
        name = rng.choice(["x", "y", "amount", "base", "total"])
        op = Operand(name, op.val, op.code, pre="%s = %s" % (name, op.text))
    return op


def make_percent(rng, var_ok=True):
    r = rng.random()
    if r < 0.1:
        a = rng.choice(["1e-7", "2.5e3", "0.000001", "12.5", "1e10", ".5", "100", "0"])
        if rng.random() < 0.3:
            a = "-" + a
        op = Operand("[PERCENT:%s]" % a, F(a))
    else:
        p = rng.choice(PCT_INTS) if rng.random() < 0.6 else (rng.choice(PCT_FRACS) if rng.random() < 0.6
                                                            else round(rng.uniform(0, 300), rng.randint(0, 2)))
        if rng.random() < 0.15:
            p = -p
        s = fmt_dec(p)
        op = Operand(s + "%" if rng.random() < 0.5 else "%" + s, F(p))
    if var_ok and rng.random() < 0.07:
        name = rng.choice(["rate", "vat", "pct"])
        op = Operand(name, op.val, None, pre="%s = %s" % (name, op.text))
    return op


PHRASES = ["plus", "minus", "of", "on", "off", "what", "ofwhat"]


def long_lines(rng, tier):
    """many occurrences of one phrase on a line (more than the language has rules): each one is rewritten"""
    out = []
    for k, tmpl in ((21, "of"), (25, "of-money"), (24, "on-off"), (30, "of"), (40, "on-off")) if tier == "quick" else \
            [(k, t) for k in (20, 21, 22, 26, 33, 48, 64) for t in ("of", "of-money", "on-off")]:
        terms, total = [], Fraction(0)
        for i in range(1, k + 1):
            if tmpl == "of":
                terms.append("+ %d%% of 100" % i); total += i
            elif tmpl == "of-money":
                terms.append("+ %d%% of 100 usd" % i); total += i
            elif i % 2:
                terms.append("+ 10% on 200"); total += 220
            else:
                terms.append("- 10% off 100"); total -= 90
        text = " ".join(terms)[2:]
        out.append(exec_case(text, "en", kind="long-" + tmpl, nlines=1, expect=[total.numerator, total.denominator],
                             mag=[abs(total).numerator + 1000, 1], typ="same", cur="USD" if tmpl == "of-money" else None))
    return out


def pinned_signs():
    out = []
    for text, v, cur in (("%1.234,5 of 10", Fraction(12345, 100), None), ("1.234,5% of 10", Fraction(12345, 100), None),
                         ("10 + %1.234,5", 10 + Fraction(12345, 100), None), ("%1.234.567 of 1", Fraction(1234567, 100), None),
                         ("200 + -%10", 180, None), ("200 - -%10", 220, None), ("200 + - 10%", 180, None), ("200 - - 10%", 220, None),
                         ("$200 + -%10", 180, "USD"), ("200 + -(10%)", 180, None), ("200 - %-10", 220, None), ("200 + -10%", 180, None)):
        v = Fraction(v)
        out.append(exec_case(text, "en", kind="pinned-sign", nlines=1, expect=[v.numerator, v.denominator],
                             mag=[abs(v.numerator) + 400, 1], typ="same", cur=cur))
    return out


def generate(rng, tier):
    n = 600 if tier == "quick" else 8000
    cases, seen = long_lines(rng, tier) + pinned_signs(), set()
    while len(cases) < n:
        phrase = PHRASES[len(cases) % len(PHRASES)] if rng.random() < 0.8 else rng.choice(PHRASES)
        money = rng.random() < 0.45
        x = make_amount(rng, money)
        p = make_percent(rng)
        sp = lambda: " " * rng.choice([1, 1, 1, 2])
        mags = [abs(x.val)]
        if phrase in ("plus", "minus"):
            op = "+" if phrase == "plus" else "-"
            ptext = p.text
            if p.val < 0 and not p.pre and rng.random() < 0.6:
                # the sign detached from the literal: a unary minus applied to the percent token
                if ptext.startswith("%-"):
                    ptext = "-%" + ptext[2:]
                elif ptext.startswith("-") and ptext.endswith("%"):
                    ptext = "- " + ptext[1:]
            text = x.text + sp() + op + sp() + ptext
            share = x.val * p.val / 100
            exp = x.val + share if phrase == "plus" else x.val - share
            typ, mags = "same", mags + [abs(share)]
        elif phrase in ("of", "on", "off"):
            text = (p.text + sp() + phrase + sp() + x.text) if rng.random() < 0.5 else (x.text + sp() + phrase + sp() + p.text)
            share = x.val * p.val / 100
            exp = share if phrase == "of" else (x.val + share if phrase == "on" else x.val - share)
            typ, mags = "same", mags + [abs(share)]
        elif phrase == "what":
            b = make_amount(rng, money if rng.random() < 0.8 else not money)
            if b.pre and x.pre and b.text == x.text:
                continue
            if rng.random() < 0.12:
                b = Operand("0", Fraction(0)) if b.code is None else Operand("0 " + b.code, Fraction(0), b.code)
            text = x.text + sp() + "is what % of" + sp() + b.text
            exp = 100 * x.val / b.val if b.val != 0 else Fraction(0)      # a zero divisor yields 0
            typ, mags = "percent", [abs(exp)]
            if b.pre:
                x = Operand(x.text, x.val, x.code, pre=(x.pre + "\n" if x.pre else "") + b.pre)
        else:
            if rng.random() < 0.12:
                p = Operand(rng.choice(["0%", "%0"]), Fraction(0))
            text = x.text + sp() + "is" + sp() + p.text + sp() + "of what"
            exp = 100 * x.val / p.val if p.val != 0 else Fraction(0)
            typ, mags = "same", [abs(exp)]
        pre = [q for q in (x.pre, p.pre) if q]
        full = "\n".join(pre + [text])
        # keep every intermediate well inside the binary64 range (see ASSUMPTIONS)
        if any(m != 0 and not (Fraction(1, 10 ** 120) < m < Fraction(10 ** 120)) for m in mags + [abs(exp)]):
            continue
        if full in seen:
            continue
        seen.add(full)
        lang = "tr" if rng.random() < 0.1 else "en"
        mag = max(mags + [abs(exp)])
        pre_ops, kind = [], phrase + ("-money" if x.code else "")
        r = rng.random()
        if "[" not in full and r < 0.25:
            # the same phrase written in the other convention (decimal '.', thousands ','): both percent spellings and
            # every literal are read through the configured separators
            full = full.translate(str.maketrans(",.", ".,"))
            pre_ops = sep_ops(".", ",")
            kind += "-dot"
            if r < 0.1:
                # ... and without any grouping: an EMPTY thousands separator (the configuration of the crate's execute_4)
                full = full.replace(",", "")
                pre_ops = sep_ops(".", "")
                kind += "-nogroup"
        elif "[" not in full and r < 0.33:
            full = full.replace(".", "")
            pre_ops = [{"op": "set_thou", "v": ""}]
            kind += "-nogroup"
        cases.append(exec_case(full, lang, pre=pre_ops, kind=kind, nlines=full.count("\n") + 1,
                               expect=[exp.numerator, exp.denominator], mag=[mag.numerator, mag.denominator],
                               typ=typ, cur=x.code))
    return cases


def _last(c, rec):
    lines = last_lines(rec)
    if lines is None:
        return None, "evaluation panicked or hung"
    if len(lines) != c["meta"]["nlines"] or lines[-1] is None:
        return None, "expected %d results, got %r" % (c["meta"]["nlines"], lines)
    return lines[-1], None


def nontrivial(c, rec):
    line, err = _last(c, rec)
    if err:
        return False
    k, v = line_value(line)
    return k == "item"


def close(got, exp, mag):
    if got != got or abs(got) == float("inf"):
        return False
    g = Fraction(got)
    if exp == 0 and mag == 0:
        return g == 0
    return abs(g - exp) <= mag * TOL


def spec_check(c, rec, header):
    m = c["meta"]
    exp = Fraction(m["expect"][0], m["expect"][1])
    mag = Fraction(m["mag"][0], m["mag"][1])
    line, err = _last(c, rec)
    if err:
        return err
    k, v = line_value(line)
    if k != "item":
        return "expected a value, got %s %r" % (k, v)
    want = "Percent" if m["typ"] == "percent" else ("Money" if m["cur"] else "Number")
    if v["t"] != want:
        return "expected a %s, got %r" % (want, v)
    if want == "Money" and v["cur"] != m["cur"]:
        return "expected currency %s, got %s" % (m["cur"], v["cur"])
    got = from_bits(v["v"])
    if not close(got, exp, mag):
        return "expected %s (= %.17g), got %.17g" % (exp, float(exp), got)
    return None


def known_class(c, rec, verdict, known):
    return None


def witness_fails(f, wc, rec, header):
    return False
