"""C18 - custom rules and user-defined unit families: registration, effect, removal.

Histories of add_rule / delete_rule (known and unknown languages and names, overlapping
patterns, a declining rule) interleaved with probe evaluations.  Independent oracle (python):
  * return values: add_rule false exactly for an unknown language, delete_rule false exactly for
    an unknown language or a name with no surviving registration;
  * probe lines evaluate to what the FIRST surviving registration (in registration order) whose
    pattern matches and which does not decline returns;
  * after deleting every registration the probes evaluate as on a fresh calculator (exec_fresh);
  * cross-check: the probes after the history equal the probes on a fresh calculator on which only
    the surviving registrations were made, in the same order (a second case);
  * user-defined families convert along the declared chain; duplicate family names / item indices
    return false and change nothing.
"""
from .common import *

ALLOWED_AXIOMS = []
DETAIL = 0
RULE = ("histories of 2-12 add_rule/delete_rule calls over 6 rule shapes x 4 names (incl. unknown language/name, duplicates "
        "of a name, a declining rule) with probe evaluations; each history is paired with a fresh calculator replaying the "
        "survivors; unit-family histories with duplicate registrations; non-trivial = at least one deletion followed by an "
        "evaluation; distinct = distinct history")
ASSUMPTIONS = ["API rules are drawn from the closed family implemented in harness/src/main.rs (HRule) and Model/Rules.v (api_call)"]

TWO, TEN, HALF = 2.0, 10.0, 0.5
# shape: (patterns, kind, k, cur)
SHAPES = {
    "double": (["{NUMBER:x} widgets"], "scale", TWO, ""),
    "tenfold": (["{NUMBER:x} widgets", "{NUMBER:x} gadgets"], "scale", TEN, ""),
    "half": (["{NUMBER:x} gadgets"], "scale", HALF, ""),
    "adder": (["{NUMBER:a} plus {NUMBER:b}"], "sum", 0.0, ""),
    "magic": (["magic number"], "const_number", 42.0, ""),
    "gold": (["price of gold"], "const_money", 1800.0, "usd"),
    "shy": (["{NUMBER:x} widgets", "magic number"], "decline", 0.0, ""),
    "again": (["{NUMBER:x} again"], "echo", 0.0, ""),
    # a field restricted to one unit family (the family name contains a hyphen)
    "flag": (["{DYNAMIC_TYPE:q:metric-length} flagged"], "const_number", 777.0, ""),
    # literals with letters outside ASCII: a constrained text field and a plain word of the pattern are compared
    # case-insensitively by the Unicode rules, whichever case the pattern and the line are written in
    "cay": (["{NUMBER:n} {TEXT:what:ÇAY}"], "const_number", 55.0, ""),
    "kafe": (["{NUMBER:n} {TEXT:what:καφε}"], "const_number", 66.0, ""),
    "ussu": (["{NUMBER:a} üssü {NUMBER:b}"], "sum", 0.0, ""),
}
PROBES = ["3 widgets", "5 gadgets", "2 plus 5", "magic number", "price of gold", "7 again", "1 + 1", "3 km flagged", "3 kb flagged",
          "3 çay", "4 Çay", "5 ÇAY", "2 ΚΑΦΕ", "2 καφε", "2 ÜSSÜ 5", "3 üssü 4",
          # built-in behaviour next to the custom rules: registrations and deletions touch API rules only ("default" =
          # compared with the fresh calculator / the survivors-only calculator, not with an absolute value)
          "90 seconds as minutes", "10% of 200", "1 km to m", "12:30 EST to CET", "10 usd to try", "3 hours 20 minutes"]


def add_op(name, shape, lang="en"):
    pats, kind, k, cur = SHAPES[shape]
    return {"op": "add_rule", "lang": lang, "patterns": pats, "name": name, "kind": kind, "k": str(bits(k)), "cur": cur}


def probe_expect(regs, text):
    """value of a probe line under the registrations [(name, shape)] in order; None = not decided by this oracle"""
    def first(pred):
        for name, shape in regs:
            pats, kind, k, cur = SHAPES[shape]
            r = pred(pats, kind, k)
            if r is not None:
                return r
        return "default"
    if text.endswith(" widgets") or text.endswith(" gadgets") or text.endswith(" again"):
        n, word = text.split(" ")
        x = float(n)

        def pred(pats, kind, k):
            if any(p == "{NUMBER:x} %s" % word for p in pats):
                if kind == "scale":
                    return ("Number", x * k)
                if kind == "echo":
                    return ("Number", x)
            return None
        return first(pred)
    if " plus " in text:
        a, b = text.split(" plus ")
        return first(lambda pats, kind, k: ("Number", float(a) + float(b)) if kind == "sum" and any(" plus " in p for p in pats) else None)
    if " üssü " in text.lower():
        a, _, b = text.split(" ")
        return first(lambda pats, kind, k: ("Number", float(a) + float(b)) if kind == "sum" and any("üssü" in p for p in pats) else None)
    if text.lower().endswith(" çay"):
        return first(lambda pats, kind, k: ("Number", k) if any("ÇAY" in p for p in pats) else None)
    if text.lower().endswith(" καφε"):
        return first(lambda pats, kind, k: ("Number", k) if any("καφε" in p for p in pats) else None)
    if text == "magic number":
        return first(lambda pats, kind, k: ("Number", k) if (kind == "const_number" and "magic number" in pats) else None)
    if text == "3 km flagged":
        return first(lambda pats, kind, k: ("Number", k) if any("flagged" in p for p in pats) else None)
    if text == "3 kb flagged":
        return ("DynamicType", None)          # a memory quantity never matches the length-restricted field
    if text == "price of gold":
        return first(lambda pats, kind, k: ("Money", k) if kind == "const_money" else None)
    return "default"


def gen_history(rng):
    regs = []                 # surviving [(name, shape)]
    steps = []                # ("add", name, shape, lang) | ("del", name, lang) | ("probe",)
    names = ["r1", "r2", "r3", "r4"]
    for _ in range(rng.randint(2, 12)):
        r = rng.random()
        if r < 0.5:
            name, shape = rng.choice(names), rng.choice(list(SHAPES))
            lang = "en" if rng.random() < 0.9 else "xx"
            steps.append(("add", name, shape, lang))
        elif r < 0.8:
            name = rng.choice(names + ["nobody"])
            lang = "en" if rng.random() < 0.9 else "xx"
            steps.append(("del", name, lang))
        else:
            steps.append(("probe",))
    return steps


def build(steps, rng):
    regs, ops, checks = [], [], []
    deleted = False
    interesting = False
    for st in steps:
        if st[0] == "add":
            _, name, shape, lang = st
            ops.append(add_op(name, shape, lang))
            ok = lang == "en"
            checks.append(("ret", len(ops) - 1, ok))
            if ok:
                regs.append((name, shape))
        elif st[0] == "del":
            _, name, lang = st
            ops.append({"op": "delete_rule", "lang": lang, "name": name})
            idx = next((i for i, (n, _) in enumerate(regs) if n == name), None) if lang == "en" else None
            checks.append(("ret", len(ops) - 1, idx is not None))
            if idx is not None:
                del regs[idx]
                deleted = True
        else:
            for t in PROBES:
                ops.append({"op": "exec", "lang": "en", "text": t})
                checks.append(("probe", len(ops) - 1, t, list(regs)))
            if deleted:
                interesting = True
    return regs, ops, checks, interesting


def generate(rng, tier):
    n = 60 if tier == "quick" else 800
    cases = []
    for k in range(n):
        steps = gen_history(rng) + [("probe",)]
        regs, ops, checks, interesting = build(steps, rng)
        final_from = len(ops) - len(PROBES)
        # A: the long-lived calculator; then delete every survivor and compare with fresh
        opsA = list(ops)
        for name, _ in list(regs):
            opsA.append({"op": "delete_rule", "lang": "en", "name": name})
            checks.append(("ret", len(opsA) - 1, True))
        for t in PROBES:
            opsA.append({"op": "exec", "lang": "en", "text": t})
            opsA.append({"op": "exec_fresh", "lang": "en", "text": t})
            checks.append(("same", len(opsA) - 2, len(opsA) - 1))
        cases.append({"ops": opsA, "meta": {"kind": "history", "checks": checks, "interesting": True if interesting else bool(regs),
                                           "pair": 2 * k + 1, "final_from": final_from, "role": "A"}})
        # B: a fresh calculator replaying only the survivors, in order
        opsB = [add_op(name, shape) for name, shape in regs]
        baseB = len(opsB)
        for t in PROBES:
            opsB.append({"op": "exec", "lang": "en", "text": t})
        cases.append({"ops": opsB, "meta": {"kind": "survivors", "checks": [], "interesting": False, "pair": 2 * k,
                                           "final_from": baseB, "role": "B"}})
    # a rule with several patterns: a pattern that matches but is DECLINED (kind scale declines unless the field is
    # called x) counts as absent, and the rule's next pattern is still tried on the line - absolute expectations
    def picky(pats, probes):
        ops = [{"op": "add_rule", "lang": "en", "patterns": pats, "name": "picky", "kind": "scale", "k": str(bits(3.0)), "cur": ""}]
        checks = [("ret", 0, True)]
        for t, v in probes:
            ops.append({"op": "exec", "lang": "en", "text": t})
            checks.append(("abs", len(ops) - 1, v))
        return {"ops": ops, "meta": {"kind": "declined-pattern", "checks": checks, "interesting": True, "pair": None}}
    cases.append(picky(["{NUMBER:y} apples", "{NUMBER:x} pears"], [("3 apples + 5 pears", 18.0), ("5 pears + 3 apples", 18.0),
                                                                      ("5 pears", 15.0), ("3 apples", 3.0), ("2 pears 4 apples", 10.0)]))
    cases.append(picky(["{NUMBER:x} pears", "{NUMBER:y} apples"], [("3 apples + 5 pears", 18.0), ("5 pears + 3 apples", 18.0)]))
    cases.append(picky(["{NUMBER:y} {TEXT:fruit}", "{TEXT:fruit} {NUMBER:x}"], [("3 apples + pears 5", 18.0), ("pears 5", 15.0)]))
    # a pattern that contains an operator WORD of the language (times, minus, sum ...): patterns are tokenised like lines
    # (months, regex parsers, aliases), so the word is the operator on both sides and the rule fires
    tiles = {"op": "add_rule", "lang": "en", "patterns": ["{NUMBER:a} times {NUMBER:b} tiles", "{NUMBER:a} minus {NUMBER:b} tiles"],
             "name": "tiles", "kind": "sum", "k": str(bits(0.0)), "cur": ""}
    ops = [tiles]
    checks = [("ret", 0, True)]
    for t, v in (("3 times 4 tiles", 7.0), ("3 * 4 tiles", 7.0), ("10 minus 4 tiles", 14.0), ("3 times 4", 12.0)):
        ops.append({"op": "exec", "lang": "en", "text": t})
        checks.append(("abs", len(ops) - 1, v))
    cases.append({"ops": ops, "meta": {"kind": "alias-word-in-pattern", "checks": checks, "interesting": True, "pair": None}})
    bonus = {"op": "add_rule", "lang": "en", "patterns": ["{NUMBER_GROUP:amount} bonus", "{NUMBER_OR_MONEY:amount} reward"],
             "name": "bonus", "kind": "const_number", "k": str(bits(5.0)), "cur": ""}
    ops = [bonus]
    checks = [("ret", 0, True)]
    for t in ("10 bonus", "10% bonus", "%25 bonus", "10 reward", "10 usd reward"):
        ops.append({"op": "exec", "lang": "en", "text": t})
        checks.append(("abs", len(ops) - 1, 5.0))
    cases.append({"ops": ops, "meta": {"kind": "type-group-field", "checks": checks, "interesting": True, "pair": None}})
    # the order of add_rule and add_dynamic_type(_item) is irrelevant: a rule whose field names a family that is created
    # later fires once the family exists
    def gauge(rule_first):
        rule = {"op": "add_rule", "lang": "en", "patterns": ["{DYNAMIC_TYPE:q:pressure} gauge"], "name": "gauge", "kind": "const_number",
                "k": str(bits(4.0)), "cur": ""}
        fam3 = [{"op": "add_type", "name": "pressure"},
                {"op": "add_type_item", "name": "pressure", "index": 1, "format": "{value} bar", "parse": ["{NUMBER:value} {TEXT:type:bar}"],
                 "up": "{value}", "down": "{value}", "names": ["bar"]}]
        ops = ([rule] + fam3) if rule_first else (fam3 + [rule])
        checks = [("ret", i, True) for i in range(len(ops))]
        for t, v in (("3 bar gauge", 4.0), ("7 bar gauge + 1", 5.0)):
            ops.append({"op": "exec", "lang": "en", "text": t})
            checks.append(("abs", len(ops) - 1, v))
        # the field stays restricted to that family: a quantity of another family does not fire the rule
        for t in ("3 km gauge", "2 kb gauge"):
            ops.append({"op": "exec", "lang": "en", "text": t})
            checks.append(("val", len(ops) - 1, ["DynamicType", None]))
        return {"ops": ops, "meta": {"kind": "rule-before-family" if rule_first else "family-before-rule", "checks": checks,
                                     "interesting": True, "pair": None}}
    cases.append(gauge(True))
    cases.append(gauge(False))
    # user-defined unit families; the duplicate registrations come AFTER the family has items, and one targets a
    # built-in family: a rejected registration must not change any behaviour
    def item(name, index, fmt, word, up, down):
        return {"op": "add_type_item", "name": name, "index": index, "format": fmt, "parse": ["{NUMBER:value} {TEXT:type:%s}" % word],
                "up": up, "down": down, "names": [word]}
    fam = [{"op": "add_type", "name": "coin"}, {"op": "add_type", "name": "coin"},
           item("nofamily", 1, "{value} q", "q", "{value}", "{value}"),
           item("coin", 1, "{value} d", "penny", "{value} / 12", "{value}"),
           item("coin", 2, "{value} s", "shilling", "{value} / 20", "{value} * 12"),
           item("coin", 3, "{value} L", "pound", "{value}", "{value} * 20"),
           item("coin", 3, "{value} X", "pound", "{value}", "{value} * 2"),
           {"op": "add_type", "name": "coin"},
           item("coin", 1, "{value} Y", "penny", "{value} / 7", "{value}"),
           {"op": "add_type", "name": "memory"}, {"op": "add_type", "name": "metric-weight"}]
    rets = [True, False, False, True, True, True, False, False, False, False, False]
    checks = [("ret", i, r) for i, r in enumerate(rets)]
    probes = [("480 penny to pound", 2.0, 3), ("1 pound to penny", 240.0, 1), ("3 shilling to penny", 36.0, 1),
              ("36 penny to shilling", 3.0, 2), ("40 shilling to pound", 2.0, 3), ("2 pound to shilling", 40.0, 2),
              ("5 pound to pound", 5.0, 3)]
    ops = list(fam)
    for t, v, idx in probes:
        ops.append({"op": "exec", "lang": "en", "text": t})
        checks.append(("unit", len(ops) - 1, v, idx))
    for t in ["2048 kb to mb", "1 km to m", "3 kg + 500 g", "1 mile to km", "8 bit to byte"]:
        ops.append({"op": "exec", "lang": "en", "text": t})
        ops.append({"op": "exec_fresh", "lang": "en", "text": t})
        checks.append(("same", len(ops) - 2, len(ops) - 1))
    cases.append({"ops": ops, "meta": {"kind": "family", "checks": checks, "interesting": True, "pair": None}})
    # a family whose codes have an OFFSET (affine, not linear): the chain is followed for every amount, zero included;
    # and a family whose unit word has letters outside ASCII, written in another case on the line
    fam2 = [{"op": "add_type", "name": "temp"},
            item("temp", 1, "{value} kx", "kx", "{value} - 273", "{value}"),
            item("temp", 2, "{value} cx", "cx", "{value} * 9 / 5 + 32", "{value} + 273"),
            item("temp", 3, "{value} fx", "fx", "{value}", "({value} - 32) * 5 / 9"),
            {"op": "add_type", "name": "kap"},
            item("kap", 1, "{value} bardak", "bardak", "{value} / 4", "{value}"),
            dict(item("kap", 2, "{value} çömlek", "ÇÖMLEK", "{value}", "{value} * 4"), names=["çömlek"])]
    checks2 = [("ret", i, True) for i in range(len(fam2))]
    ops2 = list(fam2)
    for t, v, idx, grp in [("0 cx to fx", 32.0, 3, "temp"), ("0 cx to kx", 273.0, 1, "temp"), ("100 cx to fx", 212.0, 3, "temp"),
                           ("0 kx to fx", -273.0 * 9 / 5 + 32, 3, "temp"), ("32 fx to cx", 0.0, 2, "temp"),
                           ("0 fx to kx", (0.0 - 32) * 5 / 9 + 273, 1, "temp"), ("-0 cx to fx", 32.0, 3, "temp"),
                           ("5 cx to cx", 5.0, 2, "temp"), ("2 çömlek to bardak", 8.0, 1, "kap"), ("8 bardak to çömlek", 2.0, 2, "kap"),
                           ("2 ÇÖMLEK to bardak", 8.0, 1, "kap")]:
        ops2.append({"op": "exec", "lang": "en", "text": t})
        checks2.append(("unit", len(ops2) - 1, v, idx, grp, 1e-12))
    cases.append({"ops": ops2, "meta": {"kind": "family-affine", "checks": checks2, "interesting": True, "pair": None}})
    return cases


def nontrivial(c, rec):
    return bool(c["meta"].get("interesting")) and rec is not None and not rec.get("hang") and not rec.get("crash")


def val(line):
    k, v = line_value(line)
    if k != "item":
        return (k, v if k == "err" else None)
    if v["t"] in ("Number", "Money", "Percent"):
        return (v["t"], from_bits(v["v"]))
    return (v["t"], None)


def strip(line):
    import json
    if line is None:
        return None
    if "err" in line:
        return ("err", line["err"])
    return ("ok", line["out"], json.dumps(line["ast"], sort_keys=True))


def spec_check(c, rec, header):
    if rec is None or rec.get("hang") or rec.get("crash"):
        return "history hung or crashed the harness"
    obs = rec["obs"]
    for o in obs:
        if "panic" in o:
            return "an operation panicked: %s" % o["panic"][:200]
    for ch in c["meta"]["checks"]:
        if ch[0] == "ret":
            if obs[ch[1]].get("ret") is not ch[2]:
                return "operation %d (%s) returned %r, expected %r" % (ch[1], c["ops"][ch[1]]["op"], obs[ch[1]].get("ret"), ch[2])
        elif ch[0] == "probe":
            exp = probe_expect([tuple(x) for x in ch[3]], ch[2])
            if exp == "default":
                continue
            lines = obs[ch[1]].get("lines")
            if not lines or len(lines) != 1 or lines[0] is None:
                return "probe %r (op %d): expected %r, got %r" % (ch[2], ch[1], exp, lines)
            got = val(lines[0])
            if got[0] != exp[0] or got[1] != exp[1]:
                return "probe %r (op %d) under registrations %r: expected %r, got %r" % (ch[2], ch[1], ch[3], exp, got)
        elif ch[0] == "same":
            a, b = obs[ch[1]], obs[ch[2]]
            if [strip(l) for l in a["lines"]] != [strip(l) for l in b["lines"]]:
                return "after deleting every rule, %r differs from a fresh calculator: %r vs %r" % (
                    c["ops"][ch[1]]["text"], a["lines"], b["lines"])
        elif ch[0] == "abs":
            lines = obs[ch[1]].get("lines")
            got = val(lines[0]) if lines and len(lines) == 1 and lines[0] is not None else None
            if got != ("Number", ch[2]):
                return "probe %r (op %d): expected the number %r, got %r" % (c["ops"][ch[1]]["text"], ch[1], ch[2], got)
        elif ch[0] == "val":
            lines = obs[ch[1]].get("lines")
            got = val(lines[0]) if lines and len(lines) == 1 and lines[0] is not None else None
            if got is None or list(got) != list(ch[2]):
                return "probe %r (op %d): expected %r, got %r" % (c["ops"][ch[1]]["text"], ch[1], ch[2], got)
        elif ch[0] == "unit":
            lines = obs[ch[1]].get("lines")
            if not lines or lines[0] is None:
                return "unit probe %r gave %r" % (c["ops"][ch[1]]["text"], lines)
            k, v = line_value(lines[0])
            group = ch[4] if len(ch) > 4 else "coin"
            tol = ch[5] if len(ch) > 5 else 0.0
            if k != "item" or v["t"] != "DynamicType" or abs(from_bits(v["v"]) - ch[2]) > tol * max(1.0, abs(ch[2])) \
                    or v["group"] != group or v["index"] != ch[3]:
                return "unit probe %r: expected %r of %s[%d], got %r" % (c["ops"][ch[1]]["text"], ch[2], group, ch[3], v)
    return None


def cross_check(cases, recs, header):
    """the probes after a history equal the probes on a fresh calculator with only the survivors"""
    out = []
    for c in cases:
        m = c["meta"]
        if m.get("role") != "A":
            continue
        other = cases[m["pair"]]
        ra, rb = recs.get(c["id"]), recs.get(other["id"])
        if not ra or not rb or "obs" not in ra or "obs" not in rb:
            continue
        pa = ra["obs"][m["final_from"]: m["final_from"] + len(PROBES)]
        pb = rb["obs"][other["meta"]["final_from"]: other["meta"]["final_from"] + len(PROBES)]
        for t, a, b in zip(PROBES, pa, pb):
            if "panic" in a or "panic" in b:
                continue           # reported by spec_check
            if [strip(l) for l in a["lines"]] != [strip(l) for l in b["lines"]]:
                out.append((c, "after the history, %r evaluates to %r but a fresh calculator with only the surviving "
                               "registrations gives %r" % (t, a["lines"], b["lines"])))
                break
    return out


def known_class(c, rec, verdict, known):
    return None


def witness_fails(f, wc, rec, header):
    return False
