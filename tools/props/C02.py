"""C02 - arithmetic: precedence, associativity, parentheses, signs, juxtaposition, suffixes.

Generator: random expression trees rendered as text in several styles.  The expected value is
computed by the usual rules in binary64 (python floats = IEEE doubles, the same arithmetic).
"""
import random
from .common import *

THEOREMS = ["c02_parse_level", "c02_eval", "c02_missing_token_adder_id", "c02_token_cleaner_id",
            "c02_token_level", "c02_parenthesise_wf", "c02_parenthesise_denote",
            "c02_paren3_refuted", "c02_nonvacuous"]
ALLOWED_AXIOMS = []
DETAIL = 0
RULE = ("random expression trees (depth<=5, <=24 leaves) over decimal literals (integers, fractions, signed, suffixed), "
        "+ - * /, parentheses; rendered explicit / tight / juxtaposed / with detached signs / as assignment rhs with 0-3 "
        "blanks per boundary; non-trivial = evaluates to a number and contains >= 1 operator; distinct = distinct text")
ASSUMPTIONS = ["expected values computed by python floats (IEEE binary64, same operations in the same order)"]

SUFFIX = {"k": 1e3, "K": 1e3, "M": 1e6, "G": 1e9, "T": 1e12, "P": 1e15, "Z": 1e18, "Y": 1e21}
OPS = "+-*/"
LEVEL = {"+": 0, "-": 0, "*": 2, "/": 2}


# ---- trees: ("lit", text, value) | ("par", e) | ("bin", op, l, r) | ("neg", e) [detached sign]
def gen_lit(rng, allow_suffix=True, allow_sign=True):
    r = rng.random()
    if r < 0.5:
        v = float(rng.choice([0, 1, 2, 3, 5, 7, 10, 12, 25, 100, 999, 1000, 4096, 123456]))
        text = fmt_dec(v, tsep=rng.choice([None, None, "."]))
    elif r < 0.8:
        v = rng.choice([0.5, 0.25, 1.5, 2.75, 10.125, 99.99, 0.1, 3.14159, 1234.5, 0.001])
        text = fmt_dec(v, tsep=rng.choice([None, "."]))
    else:
        v = float(rng.randint(0, 10 ** rng.randint(1, 9)))
        text = fmt_dec(v)
    if text.startswith("0") and False:
        pass
    if rng.random() < 0.1:
        text = "0" * rng.randint(1, 2) + text          # leading zeros
    if allow_suffix and "," in text and rng.random() < 0.25:
        text = text + str(rng.randint(1, 9)) * rng.randint(1, 4)       # a longer fraction: more decimals than the suffix has zeros
    if allow_suffix and rng.random() < 0.12:
        sfx = rng.choice(list(SUFFIX))
        v = float(text.replace(".", "").replace(",", ".")) * SUFFIX[sfx]
        text = text + sfx
    else:
        v = float(text.replace(".", "").replace(",", "."))
    if allow_sign and rng.random() < 0.15:
        sgn = rng.choice("+-")
        text = sgn + text
        if sgn == "-":
            v = v * -1.0
    return ("lit", text, v)


def gen_tree(rng, depth, allow_neg=False):
    if depth == 0 or rng.random() < 0.25:
        return gen_lit(rng)
    r = rng.random()
    if r < 0.05:
        # a sub-expression that is exactly zero (numerators and denominators of guarded divisions)
        z = gen_lit(rng, allow_suffix=False, allow_sign=False)
        return rng.choice([("lit", "0", 0.0), ("par", ("bin", "-", z, z)), ("bin", "*", ("lit", "0", 0.0), z)])
    if r < 0.09:
        # a sub-expression that is tiny but NOT zero (a divisor below f64::EPSILON is still a divisor):
        # a literal with many leading zero decimals, or a cancellation such as (0,1 + 0,2 - 0,3)
        if rng.random() < 0.5:
            text = "0," + "0" * rng.randint(14, 20) + str(rng.randint(1, 9))
            return ("lit", text, float(text.replace(",", ".")))
        a, b, c = rng.choice([(0.1, 0.2, 0.3), (0.7, 0.1, 0.8), (1.1, 2.2, 3.3), (0.3, 0.6, 0.9)])
        if (a + b) - c == 0.0:
            a, b, c = 0.1, 0.2, 0.3
        la, lb, lc = (("lit", fmt_dec(x), x) for x in (a, b, c))
        return ("par", ("bin", "-", ("bin", "+", la, lb), lc))
    if r < 0.14:
        return ("par", gen_tree(rng, depth - 1, allow_neg))
    if allow_neg and r < 0.2:
        return ("neg", rng.choice("+-"), gen_tree(rng, 0 if rng.random() < 0.7 else depth - 1, allow_neg))
    return ("bin", rng.choice(OPS), gen_tree(rng, depth - 1, allow_neg), gen_tree(rng, depth - 1, allow_neg))


def value(e):
    k = e[0]
    if k == "lit":
        return e[2]
    if k == "par":
        return value(e[1])
    if k == "neg":
        v = value(e[2])
        return v * -1.0 if e[1] == "-" else v
    op, l, r = e[1], value(e[2]), value(e[3])
    if op == "+":
        return l + r
    if op == "-":
        return l - r
    if op == "*":
        return l * r
    return do_division(l, r)


def level(e):
    if e[0] == "bin":
        return LEVEL[e[1]]
    if e[0] == "neg":
        return 3
    return 3


def parenthesise(e):
    if e[0] == "lit":
        return e
    if e[0] == "par":
        return ("par", parenthesise(e[1]))
    if e[0] == "neg":
        x = parenthesise(e[2])
        return ("neg", e[1], x if x[0] in ("lit", "par") else ("par", x))
    op = e[1]
    l, r = parenthesise(e[2]), parenthesise(e[3])
    if level(l) < LEVEL[op]:
        l = ("par", l)
    if level(r) <= LEVEL[op]:
        r = ("par", r)
    return ("bin", op, l, r)


def tokens(e):
    """token sequence of the explicit rendering: strings; literals keep their sign"""
    k = e[0]
    if k == "lit":
        return [e[1]]
    if k == "par":
        return ["("] + tokens(e[1]) + [")"]
    if k == "neg":
        return [e[1]] + tokens(e[2])
    return tokens(e[2]) + [e[1]] + tokens(e[3])


def is_num(t):
    return t[-1].isdigit() or t[-1] in SUFFIX


def render(rng, toks, style):
    """text for a token sequence.  style 'explicit': blanks never merge or split tokens;
    'tight': no blanks at all where possible (a sign may then be absorbed by the following literal,
    which by juxtaposition denotes the same value)"""
    out = []
    for i, t in enumerate(toks):
        if i > 0:
            prev = toks[i - 1]
            need = False
            if is_num(prev) and is_num(t):
                need = True                       # juxtaposition: keep the literals apart
            if is_num(prev) and t[0].isalpha():
                need = True
            if style == "explicit":
                # a binary + or - directly before a literal must not be absorbed by it
                if prev in "+-" and is_num(t):
                    need = True
                n = rng.choice([0, 1, 1, 1, 2, 3])
                out.append(" " * max(n, 1 if need else 0))
            else:
                out.append(" " if need else "")
        out.append(t)
    lead = " " * rng.choice([0, 0, 0, 1, 2])
    trail = " " * rng.choice([0, 0, 0, 1, 2])
    return lead + "".join(out) + trail


TOKEN_RE = None


def lex(text):
    """the token sequence the lexer produces for a rendered arithmetic text (numbers absorb a
    directly preceding sign, exactly like the leftmost-first number regex)"""
    import re
    global TOKEN_RE
    if TOKEN_RE is None:
        TOKEN_RE = re.compile(r"[-+]?\d[\d.,]*[A-Za-z]?|[-+*/()=]")
    return TOKEN_RE.findall(text)


def classes(text, assignment):
    """coarse syntactic triggers of the listed defect mechanisms, on the effective tokens"""
    if assignment:
        text = text.split("=", 1)[1]
    toks = lex(text)
    cls = set()
    has_paren = "(" in toks
    for i, t in enumerate(toks):
        prev = toks[i - 1] if i > 0 else None
        if t in ("+", "-") and (prev is None or (not is_num(prev) and prev != ")")):
            cls.add("C02-detached-sign")
        starts = is_num(t) or t == "("
        ends = prev is not None and (is_num(prev) or prev == ")")
        if starts and ends and has_paren:
            cls.add("C02-implicit-plus-with-paren")
        if is_num(t) and t[-1] in "MG":
            cls.add("C02-suffix-unit")
    s = "".join("(" if t == "(" else "x" for t in toks)
    if "(((" in s or (assignment and "((" in s):
        cls.add("C02-paren-depth")
    return cls


def elide_plus(rng, toks):
    """drop '+' between two literals (juxtaposition)"""
    out = []
    for i, t in enumerate(toks):
        if t == "+" and 0 < i < len(toks) - 1 and is_num(toks[i - 1]) and is_num(toks[i + 1]) \
                and toks[i + 1][0] not in "+-" and rng.random() < 0.6:
            continue
        out.append(t)
    return out


def n_leaves(e):
    if e[0] == "lit":
        return 1
    if e[0] in ("par",):
        return n_leaves(e[1])
    if e[0] == "neg":
        return n_leaves(e[2])
    return n_leaves(e[2]) + n_leaves(e[3])


CORPUS_V = [("x = 2 3", 5.0), ("x = 2 3 * 4", 14.0), ("x = 2 (3)", 5.0), ("x = 10 -4", 6.0), ("total = 1k 500", 1500.0), ("0 / 0", 0.0),
            ("(3 - 3) / (2 - 2)", 0.0), ("7 + (4 - 2 * 2) / 0 * 3", 7.0), ("x = 1 + 0 / (1 - 1)", 1.0), ("-0 / 0 + 2", 2.0),
            ("y = (1) (2) 3", 6.0), ("5 / (2 - 2) + 1", 1.0), ("12.30 + 1", 1231.0), ("2 * 1.05", 210.0), ("0,25 * 4", 1.0),
            ("23.59 - 9", 2350.0), ("1,50 * 2", 3.0), ("2k + 3", 2003.0), ("1M - 1", 999999.0), ("x = 1k * 2", 2000.0), ("2k 3", 2003.0),
            # a divisor that is tiny but not zero divides (only a zero divisor, i.e. an infinite or NaN quotient, gives 0)
            ("1 / 0,0000000000000001", 1.0 / 0.0000000000000001), ("1 / (0,1 + 0,2 - 0,3)", 1.0 / ((0.1 + 0.2) - 0.3)),
            ("3 * (2 / 0,00000000000000005) - 1", 3.0 * (2.0 / 0.00000000000000005) - 1.0), ("x = 8/(0,3-0,1-0,2)", 8.0 / ((0.3 - 0.1) - 0.2)),
            ("5 / (2 - 2)", 0.0), ("1 / 0,001", 1000.0),
            # a magnitude suffix multiplies the literal, fraction included (no rounding of the product)
            ("2,0625k", 2.0625 * 1000), ("0,0625k * 4", 0.0625 * 1000 * 4), ("3 * - 0,0625k + 2", 3 * -(0.0625 * 1000) + 2),
            ("x = (0,0000005M + 1,5) * 2", (0.0000005 * 1000000 + 1.5) * 2), ("1,1k", 1.1 * 1000), ("0,00125M - 1", 0.00125 * 1000000 - 1),
            ("1,23456k", 1.23456 * 1000),
            # a sign in front of a parenthesis in the MIDDLE of an expression, with more operators behind the parenthesis
            ("2 * -(3 + 4) * 5", -70.0), ("10 - -(3 + 4) + 5", 22.0), ("100 / -(2 + 3) / 2", -10.0), ("10 + -(2) * 3", 4.0),
            ("x = 2 * -(3 + 4) * 5", -70.0), ("1 + +(2 * 3) - 4", 3.0), ("2 * -(-(3)) * 4 + 1", 25.0), ("8 / -(1 + 1) - -(3) * 2", 2.0), ("(1 + 2)(3 + 4)", 10.0), ("2 * (3)(4)", 10.0), ("(8 / 2)(-(3))", 1.0)]
CORPUS = ["1 + 2 * 3", "(1+2)*3", "8 / 4 / 2 + 1", "2 * (3 + 4) * 5", "10 - 4 - 3", "1 / 0 + 5", "3-5", "2*3-5",
          "1 2 3", "2 * 3 4", "1k + 2", "x = 2 * (3 + 4)", "((1 + 2)) * 3", "1,5 * 2", "1.000 + 1",
          "- 5 + 2", "(- 5 + 1) * 2"]


def deep_cases():
    """parentheses nested to ANY depth: 21, 30, 64, 100 and 200 levels, in four shapes"""
    out = []
    for d in (21, 22, 30, 64, 100, 200):
        out.append(("(" * d + "1 + 2" + ")" * d + " * 2", 6.0))
        out.append(("1 + (" * d + "1" + ")" * d, float(d + 1)))
        out.append(("-(" * d + "3" + ")" * d, 3.0 if d % 2 == 0 else -3.0))
        out.append(("x = " + "(2 * " * d + "1" + ")" * d + " / " + "(" * d + "2" + ")" * d, float(2 ** d) / 2.0))
    return out


def generate(rng, tier):
    n = 450 if tier == "quick" else 6000
    cases = [exec_case(t, kind="deep-nesting", expect=bits(v), classes=[]) for t, v in deep_cases()]
    for t in CORPUS:
        cases.append(exec_case(t, kind="corpus", expect=None, classes=[]))
    for t, v in CORPUS_V:
        cases.append(exec_case(t, kind="corpus", expect=bits(v), classes=[]))
    # every magnitude suffix, under both languages (the suffix letters are not language words)
    for lang in ("en", "tr"):
        for sfx, mul in (("k", 1e3), ("K", 1e3), ("M", 1e6), ("G", 1e9), ("T", 1e12), ("P", 1e15), ("Z", 1e18), ("Y", 1e21)):
            cases.append(exec_case("5" + sfx, lang, kind="suffix-" + lang, expect=bits(5.0 * mul), classes=[]))
            cases.append(exec_case("2%s + 1" % sfx, lang, kind="suffix-" + lang, expect=bits(2.0 * mul + 1.0), classes=[]))
            cases.append(exec_case("x = 1,5%s * 2" % sfx, lang, kind="suffix-" + lang, expect=bits(1.5 * mul * 2.0), classes=[]))
    while len(cases) < n:
        style = rng.choices(["explicit", "tight", "jux", "wild", "assign"], [45, 15, 12, 18, 10])[0]
        depth = rng.randint(1, 5)
        e = gen_tree(rng, depth, allow_neg=(style == "wild"))
        if n_leaves(e) > 24:
            continue
        e = parenthesise(e)
        toks = tokens(e)
        if style == "jux" or (style == "assign" and rng.random() < 0.5):
            toks = elide_plus(rng, toks)
        if style == "wild" and rng.random() < 0.3:
            # drop an operator next to a parenthesis, or add extra parentheses
            e = ("par", ("par", e)) if rng.random() < 0.5 else e
            toks = tokens(e)
        text = render(rng, toks, "tight" if style == "tight" else "explicit")
        assignment = style == "assign"
        if assignment:
            name = rng.choice(["x", "total", "my value", "Result"])
            text = name + rng.choice([" = ", "=", " =", "= "]) + text
        try:
            v = value(e)
        except OverflowError:
            continue
        if v != v or abs(v) > 1e300:
            continue
        cls = classes(text, assignment)
        # the date reading of a quotient chain a / b / c is excluded by the property
        if any(toks[i] == "/" and toks[i + 2] == "/" and is_num(toks[i - 1]) and is_num(toks[i + 1]) and is_num(toks[i + 3])
               for i in range(1, len(toks) - 3)):
            continue
        pre_ops = []
        if rng.random() < 0.25:
            # the same expression written in the other convention (decimal '.', thousands ',')
            text = text.translate(str.maketrans(",.", ".,"))
            pre_ops = sep_ops(".", ",")
            style += "-dot"
        cases.append(exec_case(text, pre=pre_ops, kind=style, expect=bits(v), classes=sorted(cls)))
    return cases


def nontrivial(c, rec):
    lines = last_lines(rec)
    if not lines or lines[0] is None:
        return False
    k, v = line_value(lines[0])
    return k == "item" and v["t"] == "Number" and any(o in c["ops"][-1]["text"] for o in "+-*/ ")


def spec_check(c, rec, header):
    exp = c["meta"].get("expect")
    if exp is None:
        return None
    lines = last_lines(rec)
    if lines is None:
        return "evaluation panicked or hung"
    if len(lines) != 1:
        return "expected one result line, got %d" % len(lines)
    k, v = line_value(lines[0])
    if k != "item" or v["t"] != "Number":
        return "expected the number %r, got %s %r" % (from_bits(exp), k, v)
    got = from_bits(v["v"])
    if not same_float(got, from_bits(exp)):
        return "expected %r, got %r" % (from_bits(exp), got)
    return None


def known_class(c, rec, verdict, known):
    ids = {f["class"] for f in known}
    for cl in c["meta"].get("classes", []):
        if cl in ids:
            return cl
    return None


def witness_fails(f, wc, rec, header):
    """the recorded witness still shows the recorded wrong behaviour"""
    lines = last_lines(rec)
    w = f["observed"]
    if w.get("panic"):
        return lines is None
    if lines is None or not lines:
        return False
    k, v = line_value(lines[-1])
    if "err" in w:
        return k == "err" and v == w["err"]
    if "out" in w:
        return lines[-1] is not None and lines[-1].get("out") == w["out"]
    return False
