"""C19 - every configured language is a relabelling of the same calculator.

A case is one history [exec("en", line_en), exec("tr", line_tr)].  line_en / line_tr are two renderings of one
abstract line: every keyword position (operator word, duration keyword, day keyword, month name) is filled with a
spelling the language configures for that keyword class; the classes are read from config.json:
  operator words   languages.<l>.alias entries whose replacement is an [OPERATOR:x] atom, grouped by x
  duration / day   languages.<l>.constant_pair, grouped by the constant number (1..7 units, 8..10 today/tomorrow/
                   yesterday; 11 = now is not generated: the clock's nanoseconds are not reproducible)
  month names      languages.<l>.long_months / short_months, grouped by month number
  `A to B`         the to_duration rule (en: `A to B`, tr: `A B arası`)
Word-free lines (symbols, numbers, money, percentages, variables, d/m/y dates, times and the phrases whose pattern
words are the same in every language's rule table) are executed unchanged under both languages.

Oracle (written from the statement): line by line both evaluations give the same VALUE (kind, float bits,
seconds, day number, currency, error text); a date is printed with the month name the language configures for that
month, a duration with the language's unit words; every other result is printed identically."""
import json, datetime, re
from .common import *

ALLOWED_AXIOMS = []
DETAIL = 0

_cfg = json.load(open("/repo/src/json/config.json", encoding="utf-8"))
_L = _cfg["languages"]
LANGS = ["en", "tr"]
assert all(l in _L for l in LANGS)

# ------------------------------------------------------------------ keyword classes read from config.json
OPW = {}                                   # lang -> operator char -> words
for _l in LANGS:
    OPW[_l] = {}
    for _w, _t in _L[_l]["alias"].items():
        _m = re.fullmatch(r"\[OPERATOR:(.)\]", _t)
        if _m:
            OPW[_l].setdefault(_m.group(1), []).append(_w)
SHARED_OPS = sorted(set.intersection(*[set(OPW[l]) for l in LANGS]))      # operators both languages have words for
ONLY_ONE_OPS = sorted(set.union(*[set(OPW[l]) for l in LANGS]) - set(SHARED_OPS))

CONST = {l: {} for l in LANGS}             # lang -> constant number -> words
for _l in LANGS:
    for _w, _n in _L[_l]["constant_pair"].items():
        CONST[_l].setdefault(_n, []).append(_w)
UNIT_NO = {"day": 1, "week": 2, "month": 3, "year": 4, "second": 5, "minute": 6, "hour": 7}
DAY_NO = {0: 8, 1: 9, -1: 10}
for _l in LANGS:
    for _n in list(UNIT_NO.values()) + list(DAY_NO.values()):
        assert CONST[_l].get(_n), (_l, _n)
    # a duration keyword is only usable when it is also in the duration word group
    for _n in UNIT_NO.values():
        CONST[_l][_n] = [w for w in CONST[_l][_n] if w in _L[_l]["word_group"]["duration_group"]]
        assert CONST[_l][_n], (_l, _n)

MONTHS = {l: {"long": {}, "short": {}} for l in LANGS}      # lang -> form -> month -> spellings
for _l in LANGS:
    for _form in ("long", "short"):
        for _w, _n in _L[_l][_form + "_months"].items():
            MONTHS[_l][_form].setdefault(_n, []).append(_w)
        assert sorted(MONTHS[_l][_form]) == list(range(1, 13)), (_l, _form)


def spellings(lang, m):
    """every word the language configures for the month, long and short"""
    return set(MONTHS[lang]["long"][m]) | set(MONTHS[lang]["short"][m])


def survives(words, text):
    """the crate lower-cases with Rust's language-independent str::to_lowercase (python's str.lower agrees on the
    letters involved: I -> i, İ -> i + U+0307): a written form is recognised iff its lower-cased image is configured"""
    return text.lower() in words


# The Turkish upper-case forms that fail on the unchanged tree (known finding C19-K2), PINNED here rather than
# recomputed from config.json: an edited word table must not move another form into the known class.
K2_PINNED = {"ARALİK", "CARPİ", "CİKAR", "CİKART", "EKSİ", "EKİ", "EKİM", "HAZİRAN", "KASİM", "MAYİS", "NİS", "NİSAN",
             "ÇARPI", "ÇIKAR", "ÇIKART"}


def tr_upper(w):
    """upper case as Turkish writes it"""
    return "".join({"i": "İ", "ı": "I"}.get(ch, ch.upper()) for ch in w)


DATE_FMT = {l: _L[l]["format"]["date"] for l in LANGS}
DUR_FMT = {l: _L[l]["format"]["duration"] for l in LANGS}
CODES = sorted(_cfg["currencies"].keys())

CLASS_K2 = "C19-turkish-upper-case"

RULE = ("pairs (en line, tr line) rendered from one abstract line, compared: operator words for the operators "
        "both languages name (%s; only one language names %s), duration keywords (second .. year, every configured "
        "spelling), today / tomorrow / yesterday, month names (every configured long and short spelling, the ASCII "
        "spellings of tr included; lower case / capitalised / upper case) "
        "in the date spellings both languages configure (`d Month y`, `d Month`, d/m/y), date +/- duration, sums and "
        "differences of durations, `A to B` <-> `A B arası` on dates and times, variables holding durations and "
        "dates; tr configures no conversion words, number-base words, timezone, unix-time or unit-conversion rules: "
        "those are not compared; word-free lines (arithmetic with symbols and parentheses, money by symbol and code, "
        "`money code` conversion, percent literals in sums and products, `p%% on|of|off X`, `A is what %% of B`, "
        "`A is p%% of what` [same pattern words in both rule tables], variables, based literals, times, d/m/y) executed "
        "unchanged under en and tr; oracle: equal values line by line, dates / durations printed with the language's "
        "own month names / unit words, everything else printed identically; non-trivial = the en line evaluates to "
        "a value; distinct = distinct pair of texts" % (" ".join(SHARED_OPS), " ".join(ONLY_ONE_OPS) or "none"))
ASSUMPTIONS = ["keyword classes (operator words, duration / day keywords, month names) are read from config.json by the "
               "generator; a language's spelling of a class is any word the file lists for it",
               "the reference decomposition of a printed duration (365-day years, 30-day months, weeks, days, hours, "
               "minutes, seconds; largest first) is fixed in the oracle; the words come from config.json",
               "keywords are written in lower case (the crate matches duration / day keywords case-sensitively in "
               "every language); month names also capitalised and in upper case",
               "`now` is not generated (sub-second clock)"]


# ------------------------------------------------------------------ abstract lines
# element: ("lit", text) | ("opw", op) | ("unit", name) | ("dayw", delta) | ("mon", m, form, casing, pick)
# a month element takes any configured spelling of the form (ASCII spellings included); a casing that the
# language-independent lower-casing would not bring back to a configured spelling is only generated by the table
# section (element "monw": the tr word is fixed), where it is the known class K2

def cased(lang, w, casing):
    if casing == "cap":
        return (tr_upper(w[0]) if lang == "tr" else w[0].upper()) + w[1:]
    if casing == "upper":
        return tr_upper(w) if lang == "tr" else w.upper()
    return w


def render_el(rng, lang, el):
    k = el[0]
    if k == "lit":
        return el[1]
    if k == "opw":
        return rng.choice(OPW[lang][el[1]])
    if k == "unit":
        return rng.choice(CONST[lang][UNIT_NO[el[1]]])
    if k == "dayw":
        return rng.choice(CONST[lang][DAY_NO[el[1]]])
    if k == "mon":
        _, m, form, casing = el
        w = rng.choice(sorted(MONTHS[lang][form][m]))
        t = cased(lang, w, casing)
        return t if survives(spellings(lang, m), t) else w
    if k == "monw":
        _, m, form, casing, trw = el
        w = trw if lang == "tr" else rng.choice(sorted(MONTHS[lang][form][m]))
        return cased(lang, w, casing)
    raise ValueError(el)


def render(rng, lang, els):
    """els may contain ("between", A, B): en `A to B`, tr `A B arası`; ("nl",) starts a new line"""
    out, cur = [], []
    for el in els:
        if el[0] == "nl":
            out.append(" ".join(cur))
            cur = []
        elif el[0] == "between":
            a, b = render(rng, lang, el[1]), render(rng, lang, el[2])
            cur.append("%s to %s" % (a, b) if lang == "en" else "%s %s arası" % (a, b))
        else:
            cur.append(render_el(rng, lang, el))
    out.append(" ".join(cur))
    return "\n".join(out)


def lit(x):
    return ("lit", str(x))


def a_number(rng):
    r = rng.random()
    if r < 0.6:
        return lit(rng.choice([0, 1, 2, 3, 5, 7, 10, 12, 24, 60, 100, 365, 1000]))
    if r < 0.8:
        return lit(fmt_dec(rng.choice([0.5, 1.5, 2.25, 12.5, 99.99, 1234.5, 0.125])))
    return lit(rng.randint(0, 99999))


def a_duration(rng, maxparts=4):
    order = ["year", "month", "week", "day", "hour", "minute", "second"]
    m = rng.randint(1, maxparts)
    units = rng.sample(order, m)
    if rng.random() < 0.7:
        units.sort(key=order.index)
    els = []
    for u in units:
        c = rng.choice([0, 1, 2, 29, 30, 31, 59, 60, 61, 364, 365, 366]) if rng.random() < 0.3 else rng.randint(0, 70)
        els += [lit(c), ("unit", u)]
    return els


def leap(y):
    return y % 4 == 0 and (y % 100 != 0 or y % 400 == 0)


def dim(y, m):
    return [31, 29 if leap(y) else 28, 31, 30, 31, 30, 31, 31, 30, 31, 30, 31][m - 1]


def a_date(rng, now_year, allow_default=True, allow_day=True):
    """(elements, uses a keyword)"""
    r = rng.random()
    if allow_day and r < 0.15:
        return [("dayw", rng.choice([0, 1, -1]))], True
    y = rng.choice([now_year, 2021, 2020, 1999, 2000, 1970, 2024, 404, 9999]) if rng.random() < 0.6 else rng.randint(1, 9999)
    m = rng.randint(1, 12)
    d = rng.randint(1, dim(y, m))
    if r < 0.27:
        return [lit("%d/%d/%d" % (d, m, y))], False
    form = rng.choice(["long", "short"])
    casing = rng.choice(["lower", "lower", "cap", "upper"])
    mon = ("mon", m, form, casing)
    if allow_default and rng.random() < 0.25:
        return [lit(d), mon], True
    return [lit(d), mon, lit(y)], True


def plus_minus(rng):
    """`+` / `-` as a symbol or as an operator word"""
    op = rng.choice("+-")
    return ("opw", op) if op in SHARED_OPS and rng.random() < 0.5 else lit(op)


WORD_FREE = ["1 + 2 * 3", "(1 + 2) * 3", "8 / 4 / 2 + 1", "10 - 4 - 3", "1 / 0 + 5", "1.234,5 + 2", "2 * (3 + 4) * 5",
             "1 2 3", "-5 + 2", "1k + 2", "2M / 4", "0x1F + 1", "0b101 * 2", "0o17 - 1", "$10 + $5", "₺100 - ₺1,5",
             "10 usd + 5 usd", "10 usd try", "100 eur usd", "$10 * 3", "100 try / 4", "200 + 10%", "200 - %10",
             "$40 - 10%", "%10 200", "10% 200", "6% on 40", "%6 off 40", "40 of 6%", "20 is what % of 50",
             "20 try is %10 of what", "$5 is what % of $20", "12:30", "12:30 + 10:15", "23:59:59", "11:30 pm",
             "12/05/2021", "29/2/2020", "31/12/1999", "x = 5\nx * 2", "a = $10\nb = 3\na * b", "rate = 8%\n250 + rate",
             "total = 1.000\ntotal - 10%\ntotal / 4", "10%", "3,5", "", "   ", "# note", "1 + # note", "(", "1 +", "* 2",
             "abc", "10 usd + 5 eur", "5 km + 300 m", "2 kg * 3", "[NUMBER:3] + [PERCENT:10]", "10 euro", "1/1/2021 - 1/1/2020",
             # every magnitude suffix of a number literal means the same under both languages
             "5k", "5K", "5M", "5G", "5T", "5P", "5Z", "5Y", "1,5G + 1", "x = 7G\nx / 2", "2P / 4", "3T - 1", "2G + 1", "4k * 2K",
             "1,25M", "10 usd + 2k", "$2k", "2M try"]


def a_word_free(rng):
    r = rng.random()
    if r < 0.3:
        # arithmetic
        n = rng.randint(2, 5)
        toks = []
        for i in range(n):
            if i:
                toks.append(rng.choice(["+", "-", "*", "/"]))
            v = a_number(rng)[1]
            toks.append("(%s %s %s)" % (v, rng.choice("+-*"), a_number(rng)[1]) if rng.random() < 0.2 else v)
        return " ".join(toks)
    if r < 0.55:
        # money
        code = rng.choice(CODES) if rng.random() < 0.5 else rng.choice(["USD", "EUR", "TRY", "GBP", "JPY"])
        code = code.lower() if rng.random() < 0.5 else code
        v = a_number(rng)[1]
        k = rng.random()
        if k < 0.3:
            return "%s %s" % (v, code)
        if k < 0.5:
            return "%s %s %s %s" % (v, code, rng.choice("+-"), "%s %s" % (a_number(rng)[1], code))
        if k < 0.7:
            return "%s %s %s" % (v, code, rng.choice(CODES).lower())
        if k < 0.85:
            return "%s%s %s %s" % (rng.choice("$₺€"), v, rng.choice("*/"), a_number(rng)[1])
        return "%s %s %s %s%%" % (v, code, rng.choice("+-"), rng.randint(0, 150))
    if r < 0.8:
        # percentages
        p = "%d%%" % rng.randint(0, 200) if rng.random() < 0.5 else "%%%d" % rng.randint(0, 200)
        x = a_number(rng)[1] if rng.random() < 0.6 else "%s%s" % (rng.choice("$₺€"), a_number(rng)[1])
        k = rng.random()
        if k < 0.3:
            return "%s %s %s" % (x, rng.choice("+-"), p)
        if k < 0.4:
            return "%s %s" % (p, a_number(rng)[1])
        if k < 0.65:
            return "%s %s %s" % (p, rng.choice(["on", "of", "off"]), x)
        if k < 0.8:
            return "%s %s %s" % (x, rng.choice(["on", "of", "off"]), p)
        if k < 0.9:
            return "%s is what %% of %s" % (a_number(rng)[1], a_number(rng)[1])
        return "%s is %s of what" % (x, p)
    # variables
    name = rng.choice(["x", "y", "total", "my value", "vat"])
    v = rng.choice([a_number(rng)[1], "$" + a_number(rng)[1], "%d%%" % rng.randint(1, 50), a_number(rng)[1] + " usd"])
    use = rng.choice(["%s * 2", "%s + 1", "100 - %s", "%s", "(%s + 3) * 2", "%s + %s"])
    return "%s = %s\n%s" % (name, v, use.replace("%s", name))


def pair_case(rng, els, kind, **meta):
    en, tr = render(rng, "en", els), render(rng, "tr", els)
    m = dict(meta)
    m["kind"] = kind
    return {"ops": [{"op": "exec", "lang": "en", "text": en}, {"op": "exec", "lang": "tr", "text": tr}], "meta": m}


def same_case(text, kind, **meta):
    m = dict(meta)
    m["kind"] = kind
    return {"ops": [{"op": "exec", "lang": "en", "text": text}, {"op": "exec", "lang": "tr", "text": text}], "meta": m}


def generate(rng, tier):
    n_pairs = 1000 if tier == "quick" else 5000
    n_free = 450 if tier == "quick" else 2500
    now_year = datetime.datetime.utcnow().year
    cases = []

    # -- the same date patterns configured for both languages through the public API: both then read every spelling
    P5 = ["{MONTH:month} {NUMBER:day}, {NUMBER:year}", "{MONTH:month} {NUMBER:day} {NUMBER:year}",
          "{NUMBER:day}/{NUMBER:month}/{NUMBER:year}", "{NUMBER:day} {MONTH:month} {NUMBER:year}", "{NUMBER:day} {MONTH:month}"]
    for first, second in (("en", "tr"), ("tr", "en")):
        pre = [{"op": "set_date_rule", "lang": first, "patterns": P5}, {"op": "set_date_rule", "lang": second, "patterns": P5}]
        texts = {"en": "12 january 2021\njanuary 12, 2021\njanuary 12 2021\n12/1/2021\n12 january 2021 + 3 days\n5 march 1999",
                 "tr": "12 ocak 2021\nocak 12, 2021\nocak 12 2021\n12/1/2021\n12 ocak 2021 + 3 gün\n5 mart 1999"}
        cases.append({"ops": pre + [{"op": "exec", "lang": l, "text": texts[l]} for l in LANGS],
                      "meta": {"kind": "date-rules-set-for-both", "words": True}})
        P3 = P5[2:]
        pre = [{"op": "set_date_rule", "lang": first, "patterns": P3}, {"op": "set_date_rule", "lang": second, "patterns": P3}]
        texts = {"en": "12 january 2021\n12/1/2021\n12 january", "tr": "12 ocak 2021\n12/1/2021\n12 ocak"}
        cases.append({"ops": pre + [{"op": "exec", "lang": l, "text": texts[l]} for l in LANGS],
                      "meta": {"kind": "date-rules-set-for-both", "words": True}})
    # -- several duration-valued variables written side by side (all operands are present at once, unlike literal
    #    durations, which appear one rule pass at a time): the sum has every operand in both languages
    for k in (2, 3, 4, 5, 6):
        names = {"en": ["travel", "meeting", "pause", "lunch", "walk", "nap"][:k], "tr": ["yol", "toplantı", "mola", "yemek", "yürüyüş", "uyku"][:k]}
        vals = [("1 day", "1 gün"), ("2 hours", "2 saat"), ("3 minutes", "3 dakika"), ("4 seconds", "4 saniye"), ("1 week", "1 hafta"),
                ("5 hours", "5 saat")][:k]
        texts = {}
        for li, l in enumerate(LANGS):
            ls = ["%s = %s" % (n, v[0 if l == "en" else 1]) for n, v in zip(names[l], vals)]
            ls.append(" ".join(names[l]))
            ls.append("x = " + " ".join(names[l]))
            ls.append("12 january 2021 + x" if l == "en" else "12 ocak 2021 + x")
            texts[l] = "\n".join(ls)
        cases.append({"ops": [{"op": "exec", "lang": l, "text": texts[l]} for l in LANGS],
                      "meta": {"kind": "duration-variables-side-by-side", "words": True}})
    # -- every configured spelling once: operator words, duration / day keywords, month names
    for op in SHARED_OPS:
        for lang in LANGS:
            for w in OPW[lang][op]:
                other = [l for l in LANGS if l != lang][0]
                texts = {lang: "12 %s 4" % w, other: "12 %s 4" % rng.choice(OPW[other][op])}
                cases.append({"ops": [{"op": "exec", "lang": l, "text": texts[l]} for l in LANGS],
                              "meta": {"kind": "table-operator-word", "words": True}})
    for u, no in UNIT_NO.items():
        for lang in LANGS:
            for w in CONST[lang][no]:
                other = [l for l in LANGS if l != lang][0]
                c = rng.choice([1, 2, 45])
                texts = {lang: "%d %s" % (c, w), other: "%d %s" % (c, rng.choice(CONST[other][no]))}
                cases.append({"ops": [{"op": "exec", "lang": l, "text": texts[l]} for l in LANGS],
                              "meta": {"kind": "table-duration-keyword", "words": True}})
    for delta, no in DAY_NO.items():
        for lang in LANGS:
            for w in CONST[lang][no]:
                other = [l for l in LANGS if l != lang][0]
                texts = {lang: w, other: rng.choice(CONST[other][no])}
                cases.append({"ops": [{"op": "exec", "lang": l, "text": texts[l]} for l in LANGS],
                              "meta": {"kind": "table-day-keyword", "words": True}})
    # every configured month spelling of every language (the ASCII spellings of tr included) in lower case,
    # capitalised and in upper case; K2: the lower-cased image of the Turkish upper case is not a configured spelling
    for m in range(1, 13):
        for form in ("long", "short"):
            for lang in LANGS:
                for w in sorted(MONTHS[lang][form][m]):
                    d = rng.randint(1, 28)
                    for casing in ("lower", "cap", "upper"):
                        if lang == "en":
                            en_t = "%d %s %d" % (d, cased("en", w, casing), 2021)
                            tr_t = "%d %s %d" % (d, rng.choice(sorted(MONTHS["tr"][form][m])), 2021)
                            cases.append({"ops": [{"op": "exec", "lang": "en", "text": en_t},
                                                  {"op": "exec", "lang": "tr", "text": tr_t}],
                                          "meta": {"kind": "table-month", "words": True}})
                            continue
                        t = cased("tr", w, casing)
                        els = [lit(d), ("monw", m, form, casing, w), lit(2020)]
                        if t not in K2_PINNED:
                            cases.append(pair_case(rng, els, "table-month", words=True))
                        else:
                            cases.append(pair_case(rng, els, "month-turkish-upper", words=True, cls=CLASS_K2))
            cases.append(pair_case(rng, [lit(rng.randint(1, 28)), ("mon", m, form, "cap")], "table-month", words=True))

    # operator words in upper case: K2 when the lower-cased image of the Turkish upper case is not a configured word
    for op in SHARED_OPS:
        for w in OPW["tr"][op]:
            texts = {"en": "12 %s 4" % rng.choice(OPW["en"][op]).upper(), "tr": "12 %s 4" % tr_upper(w)}
            meta = {"kind": "operator-word-upper", "words": True}
            if tr_upper(w) in K2_PINNED:
                meta = {"kind": "operator-turkish-upper", "words": True, "cls": CLASS_K2}
            cases.append({"ops": [{"op": "exec", "lang": l, "text": texts[l]} for l in LANGS], "meta": meta})

    # -- random pairs
    target = len(cases) + n_pairs
    while len(cases) < target:
        k = rng.random()
        if k < 0.18:
            # arithmetic with operator words
            n = rng.randint(2, 4)
            els = [a_number(rng)]
            for _ in range(n - 1):
                op = rng.choice(SHARED_OPS + ["+", "-", "*", "/"])
                els.append(("opw", op) if op in SHARED_OPS and rng.random() < 0.8 else lit(op))
                els.append(a_number(rng))
            r = rng.random()
            if r < 0.15:
                els[0] = lit("$" + els[0][1])
            elif r < 0.3:
                els[-1] = lit("%d%%" % rng.randint(0, 100))
            if not any(e[0] == "opw" for e in els):
                continue
            cases.append(pair_case(rng, els, "operator-words", words=True))
        elif k < 0.4:
            # durations: juxtaposed, or joined by + / - (symbol or word)
            els = a_duration(rng, 5)
            for _ in range(rng.choice([0, 0, 1, 1, 2])):
                els += [plus_minus(rng)] + a_duration(rng, 2)
            cases.append(pair_case(rng, els, "durations", words=True))
        elif k < 0.55:
            # a date alone
            els, w = a_date(rng, now_year)
            if not w:
                continue
            cases.append(pair_case(rng, els, "date", words=True))
        elif k < 0.78:
            # date +/- duration
            els, _ = a_date(rng, now_year)
            els = els + [plus_minus(rng)] + a_duration(rng, 2)
            cases.append(pair_case(rng, els, "date-arith", words=True))
        elif k < 0.9:
            # A to B / A B arası: dates with a year or day keywords (a default-year date followed by a number would be
            # read as a date of that year in tr), or times
            if rng.random() < 0.25:
                a = [lit("%d:%02d" % (rng.randint(0, 23), rng.randint(0, 59)))]
                b = [lit("%d:%02d" % (rng.randint(0, 23), rng.randint(0, 59)))]
            else:
                a, _ = a_date(rng, now_year, allow_default=False)
                b, _ = a_date(rng, now_year, allow_default=False)
            cases.append(pair_case(rng, [("between", a, b)], "between", words=True))
        else:
            # variables holding durations / dates
            name = lit(rng.choice(["x", "start", "span"]))
            if rng.random() < 0.5:
                els = [name, lit("=")] + a_duration(rng, 2) + [("nl",), name, plus_minus(rng)] + a_duration(rng, 2)
            else:
                d, _ = a_date(rng, now_year, allow_default=False)
                els = [name, lit("=")] + d + [("nl",), name, plus_minus(rng)] + a_duration(rng, 1)
            cases.append(pair_case(rng, els, "variables", words=True))

    # -- word-free lines, unchanged under both languages
    for t in WORD_FREE:
        cases.append(same_case(t, "word-free-corpus"))
    target = len(cases) + n_free
    while len(cases) < target:
        cases.append(same_case(a_word_free(rng), "word-free"))
    return cases


# ------------------------------------------------------------------ oracle
def civil(n):
    k = 0
    while n < -719162:
        n += 146097
        k -= 1
    while n > 2932896:
        n -= 146097
        k += 1
    dt = datetime.date.fromordinal(n + 719163)
    return (dt.year + 400 * k, dt.month, dt.day)


def cap(w):
    return w[:1].upper() + w[1:]


def date_texts(lang, days, now_year):
    """the acceptable printed forms: the language's date format filled with any of its names of the month"""
    y, m, d = civil(days)
    fmt = DATE_FMT[lang]["current_year" if y == now_year else "full_date"]
    out = set()
    for lo in MONTHS[lang]["long"][m]:
        for sh in MONTHS[lang]["short"][m]:
            t = fmt.replace("{day}", str(d)).replace("{month}", str(m)).replace("{day_pad}", "%02d" % d) \
                   .replace("{month_pad}", "%02d" % m).replace("{month_long}", cap(lo)).replace("{month_short}", cap(sh)) \
                   .replace("{year}", str(y)).replace("{timezone}", "UTC")
            out.add(t)
    return out


UNIT_SECS = [("Year", 365 * 86400), ("Month", 30 * 86400), ("Week", 7 * 86400), ("Day", 86400), ("Hour", 3600), ("Minute", 60)]


def duration_text(lang, secs):
    d = abs(secs)
    parts = []
    for name, ln in UNIT_SECS:
        if d >= ln:
            parts.append((name, d // ln))
            d %= ln
    if d > 0:
        parts.append(("Second", d))
    out = []
    for name, c in parts:
        fs = [f for f in DUR_FMT[lang] if f["duration_type"] == name]
        exact = [f for f in fs if f["count"].strip() == str(c)]
        f = (exact or [f for f in fs if not f["count"].strip().lstrip("-").isdigit()])[0]
        out.append(f["format"].replace("{%s}" % name.lower(), str(c)))
    return " ".join(out)


def _obs_lines(rec, i, c=None):
    if rec is None or rec.get("hang") or rec.get("crash"):
        return None
    if c is not None:
        i = [k for k, o in enumerate(c["ops"]) if o["op"] == "exec"][i]        # configuration operations may come first
    obs = rec["obs"][i]
    if "panic" in obs:
        return None
    return obs.get("lines")


def nontrivial(c, rec):
    lines = _obs_lines(rec, 0, c)
    if not lines or lines[-1] is None:
        return False
    return line_value(lines[-1])[0] == "item"


def spec_check(c, rec, header):
    langs = [o["lang"] for o in c["ops"] if o["op"] == "exec"]
    le, lt = _obs_lines(rec, 0, c), _obs_lines(rec, 1, c)
    if le is None or lt is None:
        return "evaluation panicked or hung (%s)" % ("en" if le is None else "tr")
    if len(le) != len(lt):
        return "%d result lines under %s, %d under %s" % (len(le), langs[0], len(lt), langs[1])
    for i, (a, b) in enumerate(zip(le, lt)):
        ka, va = line_value(a)
        kb, vb = line_value(b)
        if (ka, va) != (kb, vb):
            return "line %d: %s gives %s %r, %s gives %s %r" % (i + 1, langs[0], ka, va, langs[1], kb, vb)
        if ka != "item":
            if ka == "other" and a["out"] != b["out"]:
                return "line %d: printed %r under %s and %r under %s" % (i + 1, a["out"], langs[0], b["out"], langs[1])
            continue
        t = va["t"]
        if t == "Date" and (va.get("tzn"), va.get("tzo")) == ("UTC", 0):
            for lang, ln in ((langs[0], a), (langs[1], b)):
                ok = date_texts(lang, va["days"], header["year"])
                if ln["out"] not in ok:
                    return "line %d: the date %r is printed %r under %s, expected one of %r" % (
                        i + 1, civil(va["days"]), ln["out"], lang, sorted(ok))
        elif t == "Duration" and not va.get("nanos"):
            for lang, ln in ((langs[0], a), (langs[1], b)):
                want = duration_text(lang, va["secs"])
                if ln["out"] != want:
                    return "line %d: %d s are printed %r under %s, expected %r" % (i + 1, va["secs"], ln["out"], lang, want)
        elif t in ("Date", "DateTime", "Duration"):
            continue
        elif a["out"] != b["out"]:
            return "line %d: printed %r under %s and %r under %s" % (i + 1, a["out"], langs[0], b["out"], langs[1])
    return None


def known_class(c, rec, verdict, known):
    """narrow class keyed on how the case was generated (meta.cls: a Turkish upper-case month name / operator word
    whose lower-cased image is not a configured spelling) and on the recorded symptom: the word is not recognised,
    i.e. the en line is a date and the tr line is not / both are numbers and differ"""
    cls = c["meta"].get("cls")
    if cls not in {f["class"] for f in known}:
        return None
    le, lt = _obs_lines(rec, 0), _obs_lines(rec, 1)
    if not le or not lt or len(le) != 1 or len(lt) != 1:
        return None
    (ka, va), (kb, vb) = line_value(le[0]), line_value(lt[0])
    if ka != "item":
        return None
    if c["meta"]["kind"] == "month-turkish-upper":
        if va["t"] == "Date" and not (kb == "item" and vb["t"] == "Date"):
            return cls
    elif c["meta"]["kind"] == "operator-turkish-upper" and cls == CLASS_K2:
        if va["t"] == "Number" and kb == "item" and vb["t"] == "Number" and va != vb:
            return cls
    return None


def witness_fails(f, wc, rec, header):
    lines = last_lines(rec)
    if lines is None or not lines or lines[-1] is None:
        return False
    w = f["observed"]
    if "out" in w:
        return lines[-1].get("out") == w["out"]
    if "err" in w:
        k, v = line_value(lines[-1])
        return k == "err" and v == w["err"]
    return False
