"""C04 - evaluation never changes the calculator; sessions isolate and persist correctly.

Histories on one long-lived calculator with up to three sessions.  Independent oracle:
  * every `exec` observation must equal the observation of the same call on a freshly built
    calculator (`exec_fresh`, emitted right after it);
  * every `exec_session` observation must equal the tail of a fresh evaluation of all texts the
    session has run so far, joined (the session keeps its variables and evaluates every line of
    the new text exactly once, in order).
"""
from .common import *

ALLOWED_AXIOMS = []
DETAIL = 0
RULE = ("histories of 3-16 operations (exec / new_session / set_text / exec_session on <= 3 sessions, texts of 0-6 lines "
        "with assignments, uses, failing lines, several value kinds); each exec is followed by exec_fresh of the same text "
        "and each exec_session by exec_fresh of the joined texts of that session; non-trivial = the history contains a "
        "session run after an earlier run with a different line count, or an exec after session activity; distinct = distinct history")
ASSUMPTIONS = ["the oracle compares observations of the long-lived calculator with those of freshly built ones (public API only)"]

LINES = ["x = 5", "y = x * 2", "x + y", "x = x + 1", "total = 10 usd", "total * 2", "total to try", "d = 3 hours 20 minutes",
         "d + 10 minutes", "d as minutes", "p = 10%", "200 + p", "rate = 2,5", "rate * 4", "1 + 2 * 3", "abc", "", "   ",
         "# note", "x = ", "10 / 0", "u = 5 km", "u to m", "when = 12 march 2020", "when + 3 days", "z = x + y",
         "z", "10 usd to xyz", "10 usd to try", "25 eur to nowhere", "25 eur to usd", "5 km to foo", "5 km to m", "3 hours as foo",
         "3 hours as minutes", "12 march 2020 at 25", "12 march 2020 at 10", "100 to foo", "100 to hex", "6 is what % of 0", "6 is what % of 12",
         "99999999999999999 days", "2 days", "31/02/2021", "28/02/2021", "10:30 EST to XYZ", "10:30 EST to CET", "lead time = 3", "lead time * 2", "cost summary = 4", "cost summary + 1", "my value = 7", "my value * 3", "My Value + 1", "20% of 150", "0x1F + 1", "12:30 + 1 hour", "(1 + 2", "5 $ +"]


def gen_text(rng):
    n = rng.choice([0, 1, 1, 1, 2, 3, 3, 4, 5, 6])
    sep = rng.choice(["\n", "\n", "\r\n"])
    return sep.join(rng.choice(LINES) for _ in range(n))


def generate(rng, tier):
    n = 120 if tier == "quick" else 1500
    cases = []
    # the repaired history first: 3-line text, then 1-line text, then 4-line text on one session
    hist = [("new", 1), ("text", 1, "a = 1\nb = 2\na + b"), ("run", 1), ("text", 1, "a = 1\nb = 2\na + b"), ("run", 1),
            ("text", 1, "a * 10"), ("run", 1),
            ("text", 1, "c = 3\na + c\n\nb * c"), ("run", 1), ("exec", "a + b")]
    pool = [hist]
    while len(pool) < n:
        h = []
        sessions = []
        for _ in range(rng.randint(3, 9)):
            r = rng.random()
            if r < 0.3 or not sessions:
                if len(sessions) < 3 and (not sessions or rng.random() < 0.4):
                    sid = len(sessions) + 1
                    sessions.append(sid)
                    h.append(("new", sid))
                sid = rng.choice(sessions)
                h.append(("text", sid, gen_text(rng)))
                h.append(("run", sid))
            elif r < 0.65:
                sid = rng.choice(sessions)
                last = [st[2] for st in h if st[0] == "text" and st[1] == sid]
                # re-submitting the very same text must evaluate every line again
                h.append(("text", sid, last[-1] if (last and rng.random() < 0.35) else gen_text(rng)))
                if rng.random() < 0.9:
                    h.append(("run", sid))
            else:
                h.append(("exec", gen_text(rng)))
        pool.append(h)
    for h in pool:
        ops, checks = [], []
        texts = {}            # sid -> texts that were RUN so far
        pending = {}          # sid -> text set but not yet run
        runs = 0
        interesting = False
        for st in h:
            if st[0] == "new":
                ops.append({"op": "new_session", "sid": st[1]})
                ops.append({"op": "set_language", "sid": st[1], "lang": "en"})
                texts[st[1]] = []
            elif st[0] == "text":
                ops.append({"op": "set_text", "sid": st[1], "text": st[2]})
                pending[st[1]] = st[2]
            elif st[0] == "run":
                sid = st[1]
                if sid not in pending:
                    continue                      # re-running without a new text is outside the statement
                t = pending.pop(sid)
                nlines = len(t.replace("\r\n", "\n").split("\n"))
                prev = texts[sid]
                if prev and len(prev[-1].replace("\r\n", "\n").split("\n")) != nlines:
                    interesting = True
                joined = "\n".join(prev + [t])
                i = len(ops)
                ops.append({"op": "exec_session", "sid": sid})
                ops.append({"op": "exec_fresh", "lang": "en", "text": joined})
                checks.append(("tail", i, i + 1, nlines))
                texts[sid] = prev + [t]
                runs += 1
            else:
                i = len(ops)
                ops.append({"op": "exec", "lang": "en", "text": st[1]})
                ops.append({"op": "exec_fresh", "lang": "en", "text": st[1]})
                checks.append(("same", i, i + 1, None))
                if runs:
                    interesting = True
        cases.append({"ops": ops, "meta": {"kind": "history", "checks": checks, "interesting": interesting}})
    # pinned sessions with absolute expectations: a re-used session keeps its variables (whatever words the names
    # are made of) across texts of differing line counts
    pinned = [
        (["lead time = 3\ntravel time = lead time + 5", "lead time * 2\ntravel time", "time = 4\ntime + lead time"],
         [["3", "8"], ["6", "8"], ["4", "7"]]),
        (["cost summary = 40\ncost = 3", "cost + 1\ncost summary * 2\n\ncost summary + cost"], [["40", "3"], ["4", "80", None, "43"]]),
        (["a = 1\nb = a + 1\nb * 10", "a = 1\nb = a + 1\nb * 10", "b"], [["1", "2", "20"], ["1", "2", "20"], ["2"]]),
        # a name with letters outside ASCII re-bound in another letter case is the same variable of the session
        (["Ödeme = 5", "ödeme = 6", "ödeme + 1\nÖDEME * 2"], [["5"], ["6"], ["7", "12"]]),
        (["Gümüş Ücret = 100\ngümüş ücret = 25", "GÜMÜŞ ÜCRET * 5", "Τιμή = 5\nτιμή = 6\nΤΙΜΉ + 1"], [["100", "25"], ["125"], ["5", "6", "7"]]),
        # a re-binding that fails to evaluate (incompatible kinds) leaves the variable of the session as it was
        (["x = 10", "x = 2 hours + 5 usd", "x", "x = x + 1\nx"], [["10"], [None], ["10"], ["11", "11"]]),
        (["rate = 5\nrate = 2 hours * 3 hours\nrate + 1", "rate * 2"], [["5", None, "6"], ["10"]]),
        # texts of growing line counts: no line of the longer text is skipped
        (["a = 1", "b = 2\nc = 3\nb + c", "a + b + c\na\nb\nc\n10 * c"], [["1"], ["2", "3", "5"], ["6", "1", "2", "3", "30"]]),
        # hundreds of lines that fail to parse (unclosed and empty parentheses, dangling operators), then ordinary lines:
        # whatever was evaluated before, on this session, on this calculator or on any other, does not change them
        (["\n".join(["(", "2 * (", "()", "(1 + )", "((1)", "3 +", ")"] * 30), "(2 + 3) * 4\n((1 + 2)) * 3\n2 * (3 + 4) * 5",
          "\n".join(["(", "()"] * 80) + "\n(2 + 3) * 4"],
         [[None] * 210, ["20", "9", "70"], [None] * 160 + ["20"]]),
        # texts of shrinking line counts: every line of the NEW text is evaluated exactly once, nothing of the old one
        (["total = 1\ntotal = total + 50\ntotal", "total", "", "total + 1"], [["1", "51", "51"], ["51"], [None], ["52"]]),
    ]
    for texts, outs in pinned:
        ops = [{"op": "new_session", "sid": 1}, {"op": "set_language", "sid": 1, "lang": "en"}]
        checks = []
        for t, o in zip(texts, outs):
            ops.append({"op": "set_text", "sid": 1, "text": t})
            ops.append({"op": "exec_session", "sid": 1})
            checks.append(("outs", len(ops) - 1, o, None))
        cases.append({"ops": ops, "meta": {"kind": "pinned-session", "checks": checks, "interesting": True}})
    return cases


def nontrivial(c, rec):
    return bool(c["meta"].get("interesting")) and rec is not None and not rec.get("hang") and not rec.get("crash")


def strip(line):
    """what a user of the API can see of one result line"""
    if line is None:
        return None
    if "err" in line:
        return ("err", line["err"])
    return ("ok", line["out"], json_key(line["ast"]))


def json_key(x):
    import json
    return json.dumps(x, sort_keys=True, ensure_ascii=False)


def spec_check(c, rec, header):
    if rec is None or rec.get("hang") or rec.get("crash"):
        return "history hung or crashed the harness"
    obs = rec["obs"]
    for kind, i, j, nlines in c["meta"]["checks"]:
        a = obs[i]
        b = obs[j] if isinstance(j, int) else None
        if "panic" in a or (b is not None and "panic" in b):
            return "operation %d panicked" % (i if "panic" in a else j)
        if kind == "outs":
            got = [None if l is None else l.get("out") for l in a.get("lines", [])]
            if a.get("status") is not True or got != j:
                return "pinned session, op %d: expected the outputs %r, got status %r and %r" % (i, j, a.get("status"), a.get("lines"))
            continue
        if kind == "same":
            if a.get("status") != b.get("status") or [strip(l) for l in a["lines"]] != [strip(l) for l in b["lines"]]:
                return "exec (op %d) differs from the same call on a fresh calculator: %r vs %r" % (i, a, b)
        else:
            if a.get("status") is not True:
                return "exec_session (op %d) after set_text returned status %r" % (i, a.get("status"))
            if len(a["lines"]) != nlines:
                return "exec_session (op %d): %d result slots for a text of %d lines" % (i, len(a["lines"]), nlines)
            tail = b["lines"][-nlines:]
            if [strip(l) for l in a["lines"]] != [strip(l) for l in tail]:
                return "exec_session (op %d) differs from a fresh evaluation of the session's texts: %r vs %r" % (i, a["lines"], tail)
    return None


def known_class(c, rec, verdict, known):
    return None


def witness_fails(f, wc, rec, header):
    return False
