"""C14 - unix timestamps convert to and from date-times as mutual inverses."""
import datetime
from .common import *

ALLOWED_AXIOMS = []
DETAIL = 0
RULE = ("timestamps stratified over the years 1..9999 (one stratum per 500 years, the current year, the day borders "
        "+-1 s, 0, +-1, +-2^31, +-2^32, first/last second of year 1 / 9999, negative ones written with a sign) x "
        "{N to date, N date, N as/into date, N to ZONE, N ZONE} x 12 default zones (set_tz) x 15 explicit zones; "
        "<date> as unix in 5 date syntaxes x 12 phrasings; <time> [ZONE] as unix; <date> at H (0..23 kept, >=24 declined); "
        "x = <date> at HH:MM[:SS] then x as unix; round trips N -> date-time -> N and date-time -> N -> date-time as "
        "two or three lines with variables and as one line; out-of-range N declined; the printed text of every result "
        "is checked; non-trivial = the last line evaluates to a date-time or a Raw number; distinct = distinct history")
ASSUMPTIONS = ["reference zone table of the oracle: UTC/GMT 0, EST -300, CET 60, PST -480, EET 120, HKT 480, "
               "GMT+H[:MM] = +(60 H + MM) minutes east",
               "a bare time of day means that time on the current UTC date in the zone it is written in (the default "
               "zone when none is written)",
               "'<date> at H' is H hours after midnight UTC of the date (dates are anchored at midnight UTC by the "
               "statement); '<date> at HH:MM' is generated under the default zone UTC only (see the note in generate)",
               "English month names and the two date-time templates of config.json (full / current year) are fixed in "
               "the oracle"]

MON_LONG = ["January", "February", "March", "April", "May", "June", "July", "August", "September", "October",
            "November", "December"]
MON_SHORT = ["Jan", "Feb", "Mar", "Apr", "May", "Jun", "Jul", "Aug", "Sep", "Oct", "Nov", "Dec"]

# (text as typed, minutes east of UTC)
ZONES = [("UTC", 0), ("GMT", 0), ("EST", -300), ("CET", 60), ("PST", -480), ("EET", 120), ("HKT", 480),
         ("GMT+3", 180), ("GMT-3:30", -210), ("GMT+14", 840), ("GMT-12", -720), ("GMT+5:30", 330),
         ("GMT+03:00", 180), ("gmt-8", -480), ("est", -300)]
DEFAULT_ZONES = [("UTC", 0), ("GMT", 0), ("EST", -300), ("CET", 60), ("PST", -480), ("EET", 120), ("HKT", 480),
                 ("GMT+3", 180), ("GMT-3:30", -210), ("GMT+14", 840), ("GMT-12", -720), ("GMT+5:30", 330)]

TS_MIN = -62135596800          # 0001-01-01 00:00:00
TS_MAX = 253402300799          # 9999-12-31 23:59:59
CHRONO_MIN = -8334601228800    # -262143-01-01 00:00:00
CHRONO_MAX = 8210266876799     # +262142-12-31 23:59:59


# ------------------------------------------------------------------ the reference calendar
def days_of(y, m, d):
    """day number (1970-01-01 = 0) of a proleptic Gregorian date, any year"""
    k = 0
    while y < 1:
        y += 400
        k -= 1
    while y > 9999:
        y -= 400
        k += 1
    return datetime.date(y, m, d).toordinal() - 719163 + 146097 * k


def civil_of(n):
    """(y, m, d, h, mi, s) of the instant n seconds after the epoch (floor division)"""
    days, sod = divmod(n, 86400)
    k = 0
    o = days + 719163
    while o < 1:
        o += 146097
        k -= 1
    while o > 3652059:
        o -= 146097
        k += 1
    dt = datetime.date.fromordinal(o)
    return (dt.year + 400 * k, dt.month, dt.day, sod // 3600, sod // 60 % 60, sod % 60)


def render(n, zone_name, off, now_year):
    y, m, d, h, mi, sec = civil_of(n + 60 * off)
    if y == now_year:
        return "%d %s %02d:%02d:%02d %s" % (d, MON_LONG[m - 1], h, mi, sec, zone_name)
    return "%d %s %d %02d:%02d:%02d %s" % (d, MON_SHORT[m - 1], y, h, mi, sec, zone_name)


# ------------------------------------------------------------------ generator
def pick_ts(rng, now_year):
    r = rng.random()
    if r < 0.25:
        return rng.choice([0, 1, -1, 59, 60, 3599, 3600, 86399, 86400, 86401, -86399, -86400, -86401,
                           2 ** 31 - 1, 2 ** 31, 2 ** 31 + 1, -2 ** 31, -2 ** 31 - 1, -2 ** 31 + 1, 2 ** 32 - 1, 2 ** 32,
                           2 ** 32 + 1, -2 ** 32, 1609459200, 4102444800, TS_MIN, TS_MIN + 1, TS_MAX, TS_MAX - 1,
                           TS_MIN + 86399, TS_MAX - 86399, TS_MAX - 86400])
    if r < 0.33:
        y = now_year
    else:
        stratum = rng.randrange(20)                       # 500 years each
        y = min(9999, max(1, 500 * stratum + rng.randint(0, 499)))
    m = rng.randint(1, 12)
    d = rng.randint(1, 28) if rng.random() < 0.7 else rng.choice([1, 28, 29, 30, 31])
    try:
        day = days_of(y, m, d)
    except ValueError:
        day = days_of(y, m, 28)
    b = rng.random()
    if b < 0.35:
        sod = rng.choice([0, 1, 86399, 86398, 3600 * 12, 3 * 3600 - 1, 3 * 3600, 21 * 3600, 21 * 3600 - 1])
    else:
        sod = rng.randrange(86400)
    n = day * 86400 + sod
    return min(TS_MAX, max(TS_MIN, n))


def num_text(rng, n):
    t = str(abs(n))
    if rng.random() < 0.1 and len(t) > 3:
        # the default thousands separator '.'
        out = []
        while len(t) > 3:
            out.insert(0, t[-3:])
            t = t[:-3]
        out.insert(0, t)
        t = ".".join(out)
    return ("-" if n < 0 else "") + t


def date_text(rng, y, m, d):
    k = rng.randrange(5)
    if k == 0:
        return "%d/%d/%d" % (d, m, y)
    if k == 1:
        return "%d %s %d" % (d, MON_LONG[m - 1].lower(), y)
    if k == 2:
        return "%s %d, %d" % (MON_LONG[m - 1].lower(), d, y)
    if k == 3:
        return "%s %d %d" % (MON_SHORT[m - 1].lower(), d, y)
    return "%d %s %d" % (d, MON_SHORT[m - 1], y)


def pick_date(rng, now_year):
    r = rng.random()
    if r < 0.15:
        y, m, d = rng.choice([(1, 1, 1), (9999, 12, 31), (1970, 1, 1), (1969, 12, 31), (2000, 2, 29), (2038, 1, 19),
                              (1900, 2, 28), (2100, 3, 1), (1600, 2, 29), (now_year, 1, 1), (now_year, 12, 31)])
    else:
        y = now_year if r < 0.25 else min(9999, max(1, 500 * rng.randrange(20) + rng.randint(0, 499)))
        m = rng.randint(1, 12)
        d = rng.randint(1, 28)
    return y, m, d


# the conversion word "in" is left out: behind a number it is read as the unit inch (`5 in unix`, `N in EST` fail
# with 'No more token' / 'Unknown calculation'); that is the unit lexer's business (C12), not this property's
UNIX_PHRASES = ["as unix", "to unix", "into unix", "unix", "as unixtime", "to unixtime", "into unixtime", "unixtime",
                "as unixtimestamp", "to unixtimestamp", "into unixtimestamp", "unixtimestamp"]
DATE_PHRASES = ["to date", "to date", "as date", "into date", "date"]


def generate(rng, tier):
    n_cases = 420 if tier == "quick" else 6000
    now_year = datetime.datetime.utcnow().year
    cases = []

    def add(text, zone, kind, expect):
        pre = [] if zone is None else [{"op": "set_tz", "v": zone[0]}]
        cases.append(exec_case(text, "en", pre=pre, kind=kind, expect=expect, zone=list(zone or ("UTC", 0))))

    def dt(n, zn, off):
        return {"t": "DateTime", "secs": n, "tzn": zn.upper(), "tzo": off}

    def raw(n):
        return {"t": "Raw", "v": n}

    # an instant close to 1 January of the CURRENT year: the year shown (and the choice of the year-less format) is the year
    # in the zone of the date-time, not the year of the UTC instant
    for y in (now_year, now_year + 1):
        jan1 = 86400 * days_of(y, 1, 1)
        for delta in (-1800, 1800, -5 * 3600 + 60, 3 * 3600 - 60):
            for zn, zo in (("GMT+3", 180), ("EST", -300), ("GMT+14", 840), ("GMT-11", -660)):
                add("%d to %s" % (jan1 + delta, zn), None, "year-boundary", [dt(jan1 + delta, zn, zo)])
    # a clock time with its own zone after `at`: the time token holds the UTC instant of that wall time
    for text, ts in (("12 january 2021 at 10:00 EST", 86400 * days_of(2021, 1, 12) + 15 * 3600),
                     ("12 january 2021 at 23:30 CET", 86400 * days_of(2021, 1, 12) + 22 * 3600 + 1800),
                     ("5 march 2020 at 8:15 GMT+5:30", 86400 * days_of(2020, 3, 5) + 2 * 3600 + 45 * 60)):
        add("x = %s\nx as unix" % text, None, "at-zoned-time", [None, raw(ts)])
    while len(cases) < n_cases:
        r = rng.random()
        zone = None if rng.random() < 0.3 else rng.choice(DEFAULT_ZONES)
        dz = zone or ("UTC", 0)
        if r < 0.22:
            # N to date: the instant N in the configured zone
            n = pick_ts(rng, now_year)
            add("%s %s" % (num_text(rng, n), rng.choice(DATE_PHRASES)), zone, "to-date", [dt(n, dz[0], dz[1])])
        elif r < 0.36:
            # N to ZONE / N ZONE: the instant N in the requested zone
            n = pick_ts(rng, now_year)
            z = rng.choice(ZONES)
            conv = rng.choice(["to ", "to ", "as ", "into ", ""])
            add("%s %s%s" % (num_text(rng, n), conv, z[0]), zone, "to-zone", [dt(n, z[0], z[1])])
        elif r < 0.50:
            # <date> as unix: midnight UTC of the date, whatever the configured zone
            y, m, d = pick_date(rng, now_year)
            ts = 86400 * days_of(y, m, d)
            add("%s %s" % (date_text(rng, y, m, d), rng.choice(UNIX_PHRASES)), zone, "date-unix", [raw(ts)])
        elif r < 0.56:
            # <time> [ZONE] as unix: that time of the current UTC date in its zone
            h, mi, sec = rng.randrange(24), rng.randrange(60), rng.randrange(60)
            z = rng.choice(ZONES) if rng.random() < 0.5 else None
            withsec = rng.random() < 0.5
            t = "%02d:%02d" % (h, mi) + (":%02d" % sec if withsec else "")
            sod = h * 3600 + mi * 60 + (sec if withsec else 0)
            off = z[1] if z else dz[1]
            add("%s%s %s" % (t, " " + z[0] if z else "", rng.choice(UNIX_PHRASES)), zone, "time-unix",
                [{"t": "RawTime", "sod": sod, "off": off}])
        elif r < 0.68:
            # <date> at H: hours 0..23; 24 and more are declined
            y, m, d = pick_date(rng, now_year)
            h = rng.choice([0, 1, 11, 12, 13, 22, 23]) if rng.random() < 0.5 else rng.randrange(24)
            ts = 86400 * days_of(y, m, d) + 3600 * h
            k = rng.random()
            if k < 0.2:
                hh = rng.choice([24, 25, 60, 99, 100, 4294967296 + 5])
                add("%s at %d" % (date_text(rng, y, m, d), hh), zone, "at-declined", [{"t": "Declined"}])
            elif k < 0.6:
                add("%s at %d" % (date_text(rng, y, m, d), h), zone, "at-hour", [dt(ts, dz[0], dz[1])])
            else:
                add("%s at %d %s" % (date_text(rng, y, m, d), h, rng.choice(UNIX_PHRASES)), zone, "at-hour-unix", [raw(ts)])
        elif r < 0.76:
            # x = <date> at HH:MM[:SS]; x as unix.
            # NOTE (reported, excluded): under a default zone other than UTC the crate glues the UTC time of day of
            # the time token onto the date, so `12 march 2020 at 01:00` under GMT+3 shows "13 Mar 2020 01:00:00 GMT+3"
            # (date_rules.rs at_date, "todo: convert timezone informations"); only UTC is generated here.
            # NOTE (reported, excluded): the one-line form `12 march 2020 at 10:30 as unix` is not evaluated
            # ("Unknown calculation": `10:30 as unix` is rewritten first); the two-line form is used.
            y, m, d = pick_date(rng, now_year)
            h, mi, sec = rng.randrange(24), rng.randrange(60), rng.randrange(60)
            withsec = rng.random() < 0.5
            sod = h * 3600 + mi * 60 + (sec if withsec else 0)
            ts = 86400 * days_of(y, m, d) + sod
            t = "%02d:%02d" % (h, mi) + (":%02d" % sec if withsec else "")
            uz = rng.choice([None, ("UTC", 0), ("GMT", 0)])
            uzz = uz or ("UTC", 0)
            if rng.random() < 0.3:
                # the clock time supplied by a variable
                add("t = %s\nx = %s at t\nx %s" % (t, date_text(rng, y, m, d), rng.choice(UNIX_PHRASES)), uz, "at-time-variable-unix",
                    [None, dt(ts, uzz[0], 0), raw(ts)])
            else:
                add("x = %s at %s\nx %s" % (date_text(rng, y, m, d), t, rng.choice(UNIX_PHRASES)), uz, "at-time-unix",
                    [dt(ts, uzz[0], 0), raw(ts)])
        elif r < 0.90:
            # N -> date-time -> N
            n = pick_ts(rng, now_year)
            k = rng.random()
            if k < 0.35:
                add("x = %s %s\nx %s" % (num_text(rng, n), rng.choice(DATE_PHRASES), rng.choice(UNIX_PHRASES)), zone,
                    "roundtrip-N", [dt(n, dz[0], dz[1]), raw(n)])
            elif k < 0.6:
                z = rng.choice(ZONES)
                add("x = %s to %s\nx %s" % (num_text(rng, n), z[0], rng.choice(UNIX_PHRASES)), zone,
                    "roundtrip-N-zone", [dt(n, z[0], z[1]), raw(n)])
            elif k < 0.8:
                add("%s to date %s" % (num_text(rng, n), rng.choice(UNIX_PHRASES)), zone, "roundtrip-N-line", [raw(n)])
            else:
                add("x = %s to date\ny = x %s\ny to date" % (num_text(rng, n), rng.choice(UNIX_PHRASES)), zone,
                    "roundtrip-N-3", [dt(n, dz[0], dz[1]), raw(n), dt(n, dz[0], dz[1])])
        elif r < 0.97:
            # date-time -> N -> date-time
            y, m, d = pick_date(rng, now_year)
            h = rng.randrange(24)
            ts = 86400 * days_of(y, m, d) + 3600 * h
            if rng.random() < 0.5:
                add("y = %s at %d %s\ny to date" % (date_text(rng, y, m, d), h, rng.choice(UNIX_PHRASES)), zone,
                    "roundtrip-D", [raw(ts), dt(ts, dz[0], dz[1])])
            else:
                ts = 86400 * days_of(y, m, d)
                z = rng.choice(ZONES)
                add("y = %s %s\ny to %s" % (date_text(rng, y, m, d), rng.choice(UNIX_PHRASES), z[0]), zone,
                    "roundtrip-D", [raw(ts), dt(ts, z[0], z[1])])
        else:
            # far outside the years 1..9999: inside chrono's range the instant is N, outside it is declined
            n = rng.choice([CHRONO_MIN, CHRONO_MIN - 1, CHRONO_MAX, CHRONO_MAX + 1, TS_MAX + 1, TS_MIN - 1,
                            TS_MIN - 86400, 99999999999999, -99999999999999, 10 ** 15, 2 ** 53, 2 ** 63])
            add("%s to date" % num_text(rng, n), zone, "far", [{"t": "Far", "secs": n, "tzn": dz[0].upper(), "tzo": dz[1]}])
    return cases


# ------------------------------------------------------------------ oracle
def nontrivial(c, rec):
    lines = last_lines(rec)
    if not lines or lines[-1] is None:
        return False
    k, v = line_value(lines[-1])
    return k == "item" and (v["t"] == "DateTime" or (v["t"] == "Number" and v["nt"] == "Raw"))


def check_line(e, line, header):
    k, v = line_value(line)
    if e["t"] == "Declined":
        if k == "item" and v["t"] in ("DateTime", "Number", "Date", "Time"):
            return "an hour of 24 or more must be declined, got %r" % (v,)
        return None
    if e["t"] == "Far":
        if k == "item" and v["t"] == "DateTime":
            e = dict(e, t="DateTime")
            if not (CHRONO_MIN <= e["secs"] <= CHRONO_MAX):
                return None if v["dt"]["secs"] == e["secs"] else "date-time of another instant: %r" % (v,)
        else:
            return None                     # declined
    if e["t"] == "DateTime":
        if k != "item" or v["t"] != "DateTime":
            return "expected the date-time of %d, got %s %r" % (e["secs"], k, v)
        if v["dt"]["secs"] != e["secs"] or v["dt"]["nanos"] != 0:
            return "expected the instant %d, got %r" % (e["secs"], v["dt"])
        if v["tzn"] != e["tzn"] or v["tzo"] != e["tzo"]:
            return "expected the zone %s (%d min), got %s (%d min)" % (e["tzn"], e["tzo"], v["tzn"], v["tzo"])
        text = render(e["secs"], e["tzn"], e["tzo"], header["year"])
        if line["out"] != text:
            return "expected the text %r, got %r" % (text, line["out"])
        return None
    if e["t"] in ("Raw", "RawTime"):
        n = e["v"] if e["t"] == "Raw" else header["today"] * 86400 + e["sod"] - 60 * e["off"]
        if k != "item" or v["t"] != "Number":
            return "expected the timestamp %d, got %s %r" % (n, k, v)
        if from_bits(int(v["v"])) != float(n) or v["nt"] != "Raw":
            return "expected the timestamp %d (Raw), got %r %s" % (n, from_bits(int(v["v"])), v["nt"])
        if line["out"] != str(n):
            return "expected the text %r, got %r" % (str(n), line["out"])
        return None
    return "oracle: unknown expectation %r" % (e,)


def spec_check(c, rec, header):
    exp = c["meta"].get("expect")
    if exp is None:
        return None
    if rec is None or rec.get("hang") or rec.get("crash"):
        return "evaluation crashed or hung"
    for op, obs in zip(c["ops"], rec["obs"]):
        if "panic" in obs:
            return "panicked"
        if op["op"] == "set_tz":
            zn, off = c["meta"]["zone"]
            if obs.get("ret") is not True or obs.get("tzn") != zn.upper() or obs.get("tzo") != off:
                return "set_timezone(%s): expected %s %d, got %r" % (op["v"], zn.upper(), off, obs)
    lines = last_lines(rec)
    if lines is None:
        return "evaluation panicked or hung"
    if len(lines) != len(exp):
        return "expected %d result lines, got %r" % (len(exp), lines)
    for e, line in zip(exp, lines):
        if e is None:
            continue                      # a line that only binds a variable
        if line is None:
            if e["t"] in ("Declined", "Far"):
                continue
            return "expected %r, got no result" % (e,)
        v = check_line(e, line, header)
        if v:
            return v
    return None


def known_class(c, rec, verdict, known):
    return None


def witness_fails(f, wc, rec, header):
    return False
