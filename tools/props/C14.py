"""C14 - exploratory"""
from .common import *

ALLOWED_AXIOMS = []
DETAIL = 0
RULE = "x"
ASSUMPTIONS = []


def generate(rng, tier):
    texts = ["12 march 2020 at 01:00", "12 march 2020 at 1", "12 march 2020 at 23:30", "x = 12 march 2020 at 01:00\nx as unix", "01:00", "x = 12 march 2020\nx at 5", "12/03/2020 at 5", "12 march 2020 at 5:00 EST",
     "x = 5:00 EST\ny = 12 march 2020 at x\ny as unix", "1609459200 to date as unix to date", "x = 12 march 2020 at 10:30\ny = x as unix\ny to date", "x = 12 march 2020 at 10:30\ny = x as unix\ny", "y = 12 march 2020 as unix\ny to date", "y = 12 march 2020 as unix\ny + 1", "12 march 2020 as unix + 1",
     "1609459200 to CET", "1609459200 to PST", "1609459200 to UTC", "1609459200 to gmt", "1609459200 to GMT+14", "1609459200 to IST"]
    cases = []
    for t in texts:
        cases.append(exec_case(t, "en", kind="probe"))
        cases.append(exec_case(t, "en", pre=[{"op": "set_tz", "v": "GMT+3"}], kind="probe"))
    return cases


def nontrivial(c, rec):
    return True


def spec_check(c, rec, header):
    lines = last_lines(rec)
    print(c["ops"][-1]["text"].replace("\n", " | "), len(c["ops"]), "=>", [(l and (l.get("out"), l.get("ast") or l.get("err"))) for l in (lines or [])])
    return None


def known_class(c, rec, verdict, known):
    return None


def witness_fails(f, wc, rec, header):
    return False
