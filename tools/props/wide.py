"""Developer generator: a wide mix of feature lines for shaking out model/implementation
disagreements (full detail: UI tokens and final token lists are compared too)."""
import random
from .common import *

THEOREMS = []
DETAIL = 2
RULE = "wide mix"

LINES = """
1 + 2 * 3
10 usd to try
$1.234,5k
₺100 + $5
100 try + 10 %
20% of 150
%10 of 200
10% on 200
15% off 80
6 is what % of 12
20 is 10% of what
$50 is 10% of what
3 hours 20 minutes
1 day 2 hours as hours
2 weeks as days
90 minutes as hours
12 march 2020 + 3 days
march 12, 2020
12/03/2020
12/03/2020 to 15/04/2021
today + 2 weeks
tomorrow
yesterday - 1 day
1 km to m
10 inch to cm
3 kg + 500 g
2 mb to kb
1 mile to km
5 feet + 3 inch
0x1F + 0b101
255 to hex
10 to binary
0o17 to decimal
12.5 to octal
10:30
10:30 pm
11:45:10 to 12:00
10:30 EST to GMT+3
14:00 CET
9 am GMT+3 to PST
1609459200 to date
1609459200 to GMT+3
12/03/2020 as unix
12 march 2020 at 10
12 march 2020 at 10:30 as unixtime
x = 5
x = 3 hours 20 minutes
my rate = 10 usd
price = $1.200,50
# just a comment
3 # march 2020
   
5 apples
abc
1 2 3
-5 + 2
2 * -(3)
(((1+2)))
(1)(2)
1M
1k + 1M
8 / 2 / 2
10 / 0
100 - 10%
$100 * 2
$100 / $20
$100 / 4
10 usd + 5 eur
1.000.000 / 3
0,995
-0,005
1234567,891
3 weeks 2 days + 5 hours
1 year 2 months 3 weeks 4 days 5 hours 6 minutes 7 seconds
10 seconds - 3 seconds
jan 28, 2019 - 14 months
15 november 2021 + 1 month
31 january 2021 + 1 month
1 march 2021 - 30 days
5 times 3
10 minus 4
10 divide 4
add 5
1 000
1.5
1,5
[NUMBER:12.5] + 1
[PERCENT:10] of 50
[MONEY:12.5;usd]
[TIME:3600]
[OPERATOR:+]
{NUMBER:n} to {TEXT:t:unix}
100 euro
10 kr
5 TL to usd
3 hours to minutes
1 hour 30 minutes as seconds
12:30 + 2 hours
12:30 - 45 minutes
23:30 + 1 hour
now
é 5 + 3
ıııı est 12:30
İstanbul 5 usd
5 µm
""".strip("\n").split("\n")

TR = """
3 saat 20 dakika
5 gün
12 mart 2020
12/03/2020
5 çarpı 3
10 eksi 4
bugün
yarın
2 hafta
%10 50
100 try
12 ARALIK 2020
5 aralik 2020
3 yıl 2 ay
""".strip("\n").split("\n")


def generate(rng, tier):
    cases = []
    for l in LINES:
        cases.append(exec_case(l, "en", kind="en"))
    for l in TR:
        cases.append(exec_case(l, "tr", kind="tr"))
    # multi-line programs with variables
    progs = ["x = 5\ny = x * 2\nx + y", "a b = 3\na b + 1\nA B * 2", "r = 10 usd\nr to try\nr * 2\n\nr + 5 %",
             "d = 12 march 2020\nd + 3 days\nd to 1/1/2021", "t = 3 hours\nt + 20 minutes\nt as minutes",
             "x = 1\nx = x + 1\nx = x + 1\nx", "bad = \nbad + 1\n5", "u = 5 km\nu to m\nu + 300 m",
             "p = 10%\n200 + p\np of 50", "x = 5\r\ny = 6\r\nx * y"]
    for p in progs:
        cases.append(exec_case(p, "en", kind="prog"))
    for l in ["1 + 1", "abc", ""]:
        cases.append(exec_case(l, "xx", kind="unknown-lang"))
    pre = [{"op": "set_dec", "v": "."}, {"op": "set_thou", "v": ","}]
    for l in ["1,000.5 + 1", "1 m to km", "1 inch to mm", "10 usd to try", "0.995", "1234567.891", "5 %"]:
        cases.append(exec_case(l, "en", pre=pre, kind="sep"))
    for l in ["1 m to km", "1 inch to mm", "2,5 km to m", "1 kg to hg", "1 byte to bit", "1 mile to inch", "100 cm to inch"]:
        cases.append(exec_case(l, "en", kind="unit"))
    return cases


def nontrivial(c, rec):
    return True


def spec_check(c, rec, header):
    return None


def known_class(*a):
    return None
