#!/bin/bash
# Developer tool (not a registered check): run checks against a patched copy of /repo in an isolated
# copy of /verif, so that other work on /verif and /repo is not disturbed.
#   tools/muttest.sh <patch.diff> <slot> <ID> [<ID> ...]
# The copy lives in /root/vrun/<slot>; results: /root/vrun/<slot>/result-<ID>.txt
set -u
PATCH=$(readlink -f "$1"); SLOT=$2; shift 2
BASE=/root/vrun/$SLOT
mkdir -p $BASE
if [ -d $BASE/repo ]; then git -C /repo worktree remove --force $BASE/repo 2>/dev/null; rm -rf $BASE/repo; fi
git -C /repo worktree prune
git -C /repo worktree add -q --detach $BASE/repo HEAD || exit 3
( cd $BASE/repo && git apply "$PATCH" ) || { echo "PATCH DOES NOT APPLY"; exit 3; }
rsync -a --delete --exclude .git --exclude replays/ --exclude coq/Cases/ ${VERIF_SRC:-/verif}/ $BASE/verif/
mkdir -p $BASE/verif/coq/Cases $BASE/verif/replays
cd $BASE/verif
grep -rl '/repo' --include=*.py --include=*.toml --include=check --include=*.sh . 2>/dev/null | grep -v target/ | xargs sed -i "s#/repo#$BASE/repo#g"
sed -i "s#\"/verif/evidence#\"$BASE/verif/evidence#g" check 2>/dev/null
rm -f coq/Makefile coq/Makefile.conf; ( cd coq && coq_makefile -f _CoqProject -o Makefile >/dev/null 2>&1 )
for id in "$@"; do
  timeout ${CHECK_TIMEOUT:-3000} ./check $id ${TIER:+--tier $TIER} > $BASE/result-$id.txt 2>&1
  echo "$id rc=$? $(grep -E '^VIOLATION|quick:|thorough:' $BASE/result-$id.txt | tr '\n' ' ')"
done
git -C /repo worktree remove --force $BASE/repo 2>/dev/null
