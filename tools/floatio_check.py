#!/usr/bin/env python3
"""floatio_check.py -- differential test of SC.Model.FloatIO against Rust.

  python3 /verif/tools/floatio_check.py [--n 2000] [--seed S] [--jobs J] [--full-powers] [--clean]

Generates stratified f64 test values and a grammar-based set of strings, asks
the Rust oracle (/verif/harness/target/debug/sc_harness fmt) for the real
results, writes Coq files /verif/coq/Cases/FloatIOCheck_<k>.v that evaluate the
Coq model with `Eval vm_compute`, runs coqc on the shards in parallel (each
under `timeout`) and compares every field.  Floats cross the boundary as bit
patterns (f64_to_bits), strings as big integers (base-256, leading sentinel 1),
so only integers are ever compared.

Checked per float value (bits b, precision p):
  f64_to_bits (f64_of_bits b)                    = canonical b
  f64_to_display, f64_to_fixed p                 = Rust "{}" / "{:.p}"
  f64_round, f64_trunc                           = Rust round()/trunc()
  f64_as_i32/i64/u32/u64                         = Rust `as` casts
  f64_fract                                      = x - trunc(x)   (IEEE, via Python)
  f64_decode, f64_to_Z_trunc                     = exact decoding (via Python)
  f64_parse (f64_to_display x)                   = x              (round trip)
Checked per string:  f64_parse = Rust str::parse::<f64>()
Checked per integer: f64_of_Z = correctly rounded int->double (Python float(),
  identical to Rust `as f64` inside the i64/u64 range), Z_to_dec, dec_to_Z.

Prints `floatio_check: N cases, M mismatches`; exit status 0 iff M == 0.
"""
import argparse
import json
import math
import os
import random
import re
import struct
import subprocess
import sys
import time
from concurrent.futures import ThreadPoolExecutor
from decimal import Decimal, getcontext
from fractions import Fraction

VERIF = "/verif"
COQ = os.path.join(VERIF, "coq")
CASES = os.path.join(COQ, "Cases")
MODEL_V = os.path.join(COQ, "Model", "FloatIO.v")
MODEL_VO = os.path.join(COQ, "Model", "FloatIO.vo")
ORACLE = os.path.join(VERIF, "harness", "target", "debug", "sc_harness")

NAN_BITS = 0x7FF8000000000000
MASK64 = (1 << 64) - 1

getcontext().prec = 2500


# ---------------------------------------------------------------- float utils
def f2b(x):
    return struct.unpack("<Q", struct.pack("<d", x))[0]


def b2f(b):
    return struct.unpack("<d", struct.pack("<Q", b & MASK64))[0]


def canon(b):
    ex = (b >> 52) & 0x7FF
    fr = b & ((1 << 52) - 1)
    return NAN_BITS if (ex == 0x7FF and fr != 0) else b


def is_finite_bits(b):
    return ((b >> 52) & 0x7FF) != 0x7FF


def decode(b):
    """(sign, m, e) with canonical mantissa, as f64_decode; None for inf/nan."""
    s = b >> 63
    ex = (b >> 52) & 0x7FF
    fr = b & ((1 << 52) - 1)
    if ex == 0x7FF:
        return None
    if ex == 0:
        return (s, fr, -1074) if fr else (s, 0, 0)
    return (s, fr + (1 << 52), ex - 1075)


def exact(b):
    d = decode(b)
    s, m, e = d
    v = Fraction(m) * (Fraction(2) ** e)
    return -v if s else v


def int_to_f64_bits(z):
    try:
        return f2b(float(z))
    except OverflowError:
        return f2b(math.inf if z > 0 else -math.inf)


# ---------------------------------------------------------------- generation
def gen_float_cases(n, rng, full_powers=False):
    """list of (bits, prec, tag)"""
    out = []

    def add(b, prec=None, tag=""):
        if prec is None:
            prec = rng.choice([0, 1, 2, 2, 3, 4, 5, 6, 7, 8, 9, rng.randint(10, 25)])
        out.append((b & MASK64, prec, tag))

    def addf(x, prec=None, tag=""):
        add(f2b(x), prec, tag)

    def around(b, k=1, prec=None, tag=""):
        sign, mag = b >> 63, b & ((1 << 63) - 1)
        for d in range(-k, k + 1):
            if 0 <= mag + d < (1 << 63):
                add((sign << 63) | (mag + d), prec, tag)

    # 1. uniformly random bit patterns
    for _ in range(n):
        add(rng.getrandbits(64), tag="randbits")
    # 2. moderate magnitudes (what a calculator actually sees)
    for _ in range(n // 2):
        ex = rng.randint(1023 - 40, 1023 + 70)
        add((rng.getrandbits(1) << 63) | (ex << 52) | rng.getrandbits(52), tag="moderate")
    # 3. subnormals and the normal/subnormal border
    for _ in range(max(20, n // 20)):
        add((rng.getrandbits(1) << 63) | rng.getrandbits(rng.randint(1, 52)), tag="subnormal")
    for b in [1, 2, 3, (1 << 52) - 1, 1 << 52, (1 << 52) + 1]:
        add(b, tag="subnormal-edge")
        add(b | (1 << 63), tag="subnormal-edge")
    # 4. specials
    for b in [0, 1 << 63, 0x7FF0000000000000, 0xFFF0000000000000, NAN_BITS,
              0xFFF8000000000000, 0x7FF0000000000001, 0xFFF0000000000001,
              0x7FFFFFFFFFFFFFFF, 0x7FEFFFFFFFFFFFFF, 0xFFEFFFFFFFFFFFFF]:
        for p in (0, 2):
            add(b, p, tag="special")
    # 5. integers near the cast / precision limits
    for k in (15, 16, 31, 32, 52, 53, 54, 62, 63, 64, 65):
        for sgn in (1.0, -1.0):
            x = sgn * 2.0 ** k
            around(f2b(x), 3, tag="int-limit")
    for x in [2147483647.0, 2147483647.5, 2147483648.0, -2147483648.0, -2147483648.5,
              -2147483649.0, 4294967295.0, 4294967295.5, 4294967296.0, -0.5, -0.9999,
              -1.0, 9007199254740991.0, 9007199254740993.0, 4503599627370495.5,
              4503599627370496.5, -4503599627370495.5, 9223372036854775807.0,
              -9223372036854775808.0, 18446744073709551615.0, 1e19, -1e19, 1e10, -1e10]:
        around(f2b(x), 1, tag="int-limit")
    # 6. powers of two and neighbours (asymmetric rounding interval)
    ks = set(range(-1074, 1024, 37)) | set(range(-70, 71)) | {-1074, -1073, -1023, -1022, -1021, 1022, 1023}
    ks |= {rng.randint(-1074, 1023) for _ in range(n // 20)}
    if full_powers:
        ks = set(range(-1074, 1024))
    for k in sorted(ks):
        b = f2b(math.ldexp(1.0, k))
        around(b, 1, tag="pow2")
    # 7. powers of ten and neighbours
    ks = set(range(-323, 309, 13)) | set(range(-25, 26)) | {-323, -308, -307, 308}
    ks |= {rng.randint(-323, 308) for _ in range(n // 20)}
    if full_powers:
        ks = set(range(-323, 309))
    for k in sorted(ks):
        b = f2b(float("1e%d" % k))
        around(b, 1, tag="pow10")
        if -20 <= k <= 20:
            around(b | (1 << 63), 1, tag="pow10")
    # 8. decimal-looking values
    fixed_list = ["0.995", "99.995", "1.005", "0.1", "0.2", "0.3", "0.7", "1.1", "2.675",
                  "0.045", "0.05", "0.005", "0.015", "0.025", "1e21", "1e22", "1e23", "1e-7",
                  "1e-6", "1e-5", "1e15", "1e16", "1e17", "123456789012345680", "123456.789",
                  "3.141592653589793", "2.718281828459045", "1e300", "1e-300", "1.7976931348623157e308",
                  "2.2250738585072014e-308", "5e-324", "0.3333333333333333", "0.6666666666666666",
                  "100", "1000", "1024", "0.30000000000000004", "9.999999999999999e22",
                  "8.41e21", "2e-323", "4.35", "4.345", "1234.5678", "0.0001", "99.99", "999.999",
                  "19.99", "9.995", "9.9995", "0.5", "1.5", "2.5", "3.5", "0.125", "0.375", "0.25", "0.75"]
    for s in fixed_list:
        x = float(s)
        for p in (0, 1, 2, 3):
            addf(x, p, tag="decimal")
            addf(-x, p, tag="decimal")
    for _ in range(n // 4):
        nd = rng.randint(0, 6)
        a = rng.randint(0, 10 ** rng.randint(1, 7))
        fr = rng.randint(0, 10 ** nd - 1) if nd else 0
        s = "%d.%0*d" % (a, nd, fr) if nd else "%d" % a
        x = float(s)
        if rng.random() < 0.3:
            x = -x
        addf(x, rng.choice([0, 1, 2, 2, nd, max(nd - 1, 0), nd + 1]), tag="decimal-rand")
    # arithmetic results (typical calculator noise)
    for _ in range(n // 10):
        a = rng.randint(1, 1000) / rng.choice([10, 100, 1000])
        c = rng.randint(1, 1000) / rng.choice([3, 7, 10, 100])
        for x in (a + c, a * c, a / c, a - c):
            addf(x, tag="arith")
    # 9. x.5 ties for round()
    for _ in range(n // 10):
        k = rng.choice([rng.randint(0, 100), rng.randint(0, 1 << 20), rng.randint(0, 1 << 51)])
        x = k + 0.5
        if rng.random() < 0.5:
            x = -x
        around(f2b(x), 1, prec=rng.choice([0, 0, 1, 2]), tag="round-tie")
    for x in [0.49999999999999994, 0.5, 0.5000000000000001, 1.4999999999999998, 2.5, 3.5]:
        addf(x, 0, tag="round-tie")
        addf(-x, 0, tag="round-tie")
    # 10. ties for {:.p}:  decimal ties k + 0.5*10^-p (+- ulp) and exact binary ties
    for p in range(0, 10):
        for _ in range(max(4, n // 100)):
            k = rng.choice([rng.randint(0, 9), rng.randint(0, 999), rng.randint(0, 10 ** 6)])
            j = rng.randint(0, 10 ** p - 1) if p else 0
            x = float(Fraction(k) + Fraction(2 * j + 1, 2 * 10 ** p))
            if rng.random() < 0.3:
                x = -x
            around(f2b(x), 1, prec=p, tag="fixed-tie")
            # exact tie: odd / 2^(p+1)
            i = rng.randint(0, 1 << rng.randint(1, 40))
            y = math.ldexp(2 * i + 1, -(p + 1))
            if rng.random() < 0.3:
                y = -y
            around(f2b(y), 1, prec=p, tag="fixed-exact-tie")
    # 11. candidates for ties in shortest-digit generation: odd mantissa, small negative exponent
    for _ in range(n // 10):
        m = rng.getrandbits(52) | (1 << 52) | rng.choice([0, 1])
        e = rng.randint(-8, 3)
        addf(math.ldexp(m, e) * rng.choice([1, -1]), tag="shortest-tie")
    # 12. very large / very tiny
    for _ in range(max(10, n // 50)):
        addf(float("%de%d" % (rng.randint(1, 9999), rng.randint(280, 304))), tag="huge")
        addf(float("%de-%d" % (rng.randint(1, 9999), rng.randint(280, 320))), tag="tiny")
    # a few large precisions
    for x in (0.1, 1 / 3, 1e-10, 123.456, 5e-324, 2.0 ** -20):
        addf(x, 30, tag="bigprec")
        addf(x, 60, tag="bigprec")
    return out


def midpoint_strings(rng, count):
    """Decimal strings exactly on, just below and just above rounding midpoints."""
    out = []
    for _ in range(count):
        kind = rng.random()
        if kind < 0.5:
            ex = rng.randint(1023 - 60, 1023 + 70)
        elif kind < 0.7:
            ex = 0
        else:
            ex = rng.randint(1, 2046)
        b = (ex << 52) | rng.getrandbits(52)
        if ex == 0 and rng.random() < 0.3:
            b = rng.getrandbits(rng.randint(1, 20))
        if not is_finite_bits(b + 1):
            continue
        lo, hi = exact(b), exact(b + 1)
        mid = (lo + hi) / 2
        d = Decimal(mid.numerator) / Decimal(mid.denominator)  # exact: denominator is 2^k
        s = format(d, "f")
        if "." in s:
            s = s.rstrip("0").rstrip(".")
        out.append(s)
        out.append(s + ("1" if "." in s else ".0000000001"))
        # just below: decrement the last non-zero digit of the expansion
        t = list(s)
        for i in range(len(t) - 1, -1, -1):
            if t[i].isdigit() and t[i] != "0":
                t[i] = str(int(t[i]) - 1)
                break
        out.append("".join(t) + ("9" if "." in s else ""))
        # scientific form of the exact midpoint
        digs = s.replace(".", "").lstrip("0")
        if digs:
            point = s.index(".") if "." in s else len(s)
            lead = len(s.replace(".", "")) - len(s.replace(".", "").lstrip("0"))
            e10 = point - lead - 1
            out.append("%s.%se%d" % (digs[0], digs[1:] or "0", e10))
    return out


def gen_parse_strings(n, rng):
    base = ["", ".", "1.", ".5", "+.5e-3", "1e400", "1e-400", "inf", "-Infinity", "nan", "NaN",
            "1_000", " 1", "1 ", "0x10", "1,5", "١٢", "+", "-", "+-1", "--1", "e5", ".e1",
            "1e", "1e+", "1e-", "1.e1", "1.e", "0.0e", "1E5", "1e+05", "-.5", "00001", "-0", "+0",
            "0", "0.0", "-0.0", "infinity", "INFINITY", "iNf", "infinityx", "infinit", "in", "i",
            "nanx", "na", "n", "+NaN", "-nan", "+inf", "-inf", "+infinity", "Inf", "NAN", "nan ",
            "1e99999999999999999999", "0e99999999999999999999", "1e-99999999999999999999",
            "1e999999999", "1e-999999999", "0e999999999", "-1e999999999", "-1e-999999999",
            "1e65535", "1e65536", "1e655360", "1e-65536",
            "１", "1٣", "²", "1f", "1d", "1.0f64", "1e5.0", "1.2.3", "1..2", "1ee5",
            "1e5e5", "1e 5", "1 e5", "+ 1", "- 1", "1+", "1-", "1e5+", "\t1", "1\n", "0b1", "0o7",
            "1/2", "1%", "$1", "(1)", "1e0x1", "١٢", "٣.٥", "1.٥",
            "9007199254740993", "9007199254740992", "9007199254740994", "9007199254740995",
            "9007199254740993.0000000000000000000000000001", "9007199254740992.9999999999999999999",
            "18014398509481985", "18014398509481986", "18014398509481987",
            "123456789012345678901234567890", "1234567890123456789012345678901234567890.5",
            "0.000000000000000000000000000000123456789012345678901234567890",
            "1.7976931348623157e308", "1.7976931348623158e308", "1.7976931348623159e308",
            "1.797693134862315807e308", "1.797693134862315808e308",
            "179769313486231580793728971405303415079934132710037826936173778980444968292764750946649017977587207096330286416692887910946555547851940402630657488671505820681908902000708383676273854845817711531764475730270069855571366959622842914819860834936475292719074168444365510704342711559699508093042880177904174497791",
            "179769313486231580793728971405303415079934132710037826936173778980444968292764750946649017977587207096330286416692887910946555547851940402630657488671505820681908902000708383676273854845817711531764475730270069855571366959622842914819860834936475292719074168444365510704342711559699508093042880177904174497792",
            "2.4703282292062327e-324", "2.4703282292062328e-324", "2.47032822920623272e-324",
            "2.470328229206232720882843964341106861825299013071623822127928412503377536351043e-324",
            "2.470328229206232720882843964341106861825299013071623822127928412503377536351044e-324",
            "4.9e-324", "5e-324", "1e-323", "1e-324", "3e-324", "2.2250738585072011e-308",
            "2.2250738585072012e-308", "2.2250738585072014e-308", "2.225073858507201e-308",
            "0." + "0" * 400 + "1e401", "1" + "0" * 400 + "e-400", "0" * 500 + "1", "0" * 50 + "." + "0" * 50,
            "1" + "0" * 309, "1" + "0" * 308, "0." + "0" * 323 + "5", "0." + "0" * 323 + "2",
            "0." + "0" * 323 + "3", "9" * 40, "9" * 400, "0." + "9" * 40, "1." + "0" * 40 + "1",
            "4.35", "0.1", "0.3", "1e23", "8.41e21", "9.999999999999999e22", "1e22", "1e21"]
    out = list(base)
    # grammar-based: valid numbers
    def digits(lo, hi):
        return "".join(rng.choice("0123456789") for _ in range(rng.randint(lo, hi)))

    def valid():
        s = rng.choice(["", "", "+", "-"])
        form = rng.random()
        if form < 0.3:
            s += digits(1, 20)
        elif form < 0.6:
            s += digits(0, 18) + "." + digits(1, 18)
        elif form < 0.7:
            s += digits(1, 18) + "."
        elif form < 0.8:
            s += digits(20, 60) + rng.choice(["", "." + digits(0, 40)])
        else:
            s += digits(1, 3) + rng.choice(["", "."]) + digits(0, 17)
        if rng.random() < 0.5:
            s += rng.choice("eE") + rng.choice(["", "+", "-"]) + str(rng.randint(0, rng.choice([5, 30, 330, 400])))
        return s

    nv = max(200, n // 4)
    for _ in range(nv):
        out.append(valid())
    # mutations (mostly invalid)
    junk = [" ", "_", "x", "e", "E", "+", "-", ".", ",", "f", "d", "٣", "١", "i", "n", "a", " ", "−"]
    for _ in range(nv):
        s = valid()
        op = rng.random()
        pos = rng.randint(0, len(s))
        if op < 0.5:
            s = s[:pos] + rng.choice(junk) + s[pos:]
        elif op < 0.75 and s:
            pos = rng.randint(0, len(s) - 1)
            s = s[:pos] + s[pos + 1:]
        else:
            s = s[:pos]
        out.append(s)
    # case variations of specials, with junk
    for w in ("inf", "infinity", "nan"):
        for _ in range(6):
            v = "".join(c.upper() if rng.random() < 0.5 else c for c in w)
            out.append(rng.choice(["", "+", "-"]) + v)
            out.append(rng.choice(["", "+", "-"]) + v + rng.choice(junk))
            out.append(rng.choice(junk) + v)
    # rounding midpoints (exact expansions, long digit strings)
    out += midpoint_strings(rng, max(40, n // 20))
    # decimal strings of random doubles with 17..25 significant digits
    for _ in range(max(100, n // 10)):
        b = rng.getrandbits(64)
        if not is_finite_bits(b):
            continue
        out.append("%.*e" % (rng.randint(15, 24), b2f(b)))
    # de-duplicate, keep order
    seen, res = set(), []
    for s in out:
        if s not in seen:
            seen.add(s)
            res.append(s)
    return res


def gen_int_cases(n, rng):
    zs = [0, 1, -1, 9, 10, -10, 99, 100, 2 ** 31, 2 ** 53, 2 ** 53 + 1, 2 ** 53 + 2, 2 ** 53 + 3,
          2 ** 54 + 2, 2 ** 54 + 6, 2 ** 63 - 1, 2 ** 63, -2 ** 63, 2 ** 64 - 1, 2 ** 64,
          9007199254740993, -9007199254740993, 2 ** 1024, 2 ** 1024 - 2 ** 970, 2 ** 1024 - 2 ** 970 - 1,
          -(2 ** 1024), 10 ** 22, 10 ** 23, 10 ** 30, 2 ** 2000]
    for _ in range(max(100, n // 10)):
        bits = rng.choice([rng.randint(1, 64), rng.randint(50, 70), rng.randint(1, 1100)])
        z = rng.getrandbits(bits)
        if rng.random() < 0.4:
            z = -z
        zs.append(z)
        # near-midpoint integers
        if bits > 54:
            sh = bits - 54
            zs.append(((z >> sh) | 1) << sh)            # exact midpoint pattern (odd 54-bit prefix)
            zs.append((((z >> sh) | 1) << sh) + 1)
            zs.append((((z >> sh) | 1) << sh) - 1)
    strs = ["", "+", "-", "0", "-0", "+0", "007", "-007", "12a", " 1", "1 ", "1.0", "+-1", "1_0",
            "١", "123456789012345678901234567890", "-123", "+123", "9223372036854775807"]
    for _ in range(50):
        strs.append(rng.choice(["", "+", "-"]) + str(rng.getrandbits(rng.randint(1, 80))))
    return zs, strs


# ---------------------------------------------------------------- oracle
def query_oracle(lines):
    if not os.path.exists(ORACLE):
        subprocess.run(["cargo", "build", "--offline"], cwd=os.path.join(VERIF, "harness"), check=True)
    p = subprocess.run([ORACLE, "fmt"], input="\n".join(lines) + "\n", capture_output=True, text=True, check=True)
    res = [json.loads(l) for l in p.stdout.splitlines() if l.strip().startswith("{")]
    if len(res) != len(lines):
        raise SystemExit("oracle returned %d answers for %d queries" % (len(res), len(lines)))
    return res


# ---------------------------------------------------------------- Coq side
class Reader:
    """Sequential reader over the flat list of primitive ints printed by Coq."""

    def __init__(self, ints):
        self.ints = ints
        self.pos = 0

    def raw(self):
        if self.pos >= len(self.ints):
            raise IndexError("short read")
        v = self.ints[self.pos]
        self.pos += 1
        return v

    def raws(self, k):
        v = self.ints[self.pos:self.pos + k]
        if len(v) != k:
            raise IndexError("short read")
        self.pos += k
        return v

    def str(self):
        """Mirror of the Coq `encS`: [nchunks; chunk...], chunk = sentinel 1 + <= 7 bytes."""
        n = self.raw()
        out = []
        for z in self.raws(n):
            if z < 1:
                return "<bad chunk %d>" % z
            bs = []
            while z > 1:
                bs.append(z & 255)
                z >>= 8
            out.append(bytes(reversed(bs)).decode("latin-1"))
        return "".join(out)

    def z(self):
        """Mirror of the Coq `encZ`: [sign; nlimbs; 56-bit limbs, least significant first]."""
        neg = self.raw()
        n = self.raw()
        v = 0
        for k, limb in enumerate(self.raws(n)):
            v |= limb << (56 * k)
        return -v if neg else v

    def zs(self, k):
        return [self.z() for _ in range(k)]

    def optz(self):
        """Mirror of the Coq `optZ`: None or an integer."""
        return self.z() if self.raw() == 1 else None

    def done(self):
        return self.pos == len(self.ints)


def pack7(s):
    """ASCII string -> 7 bytes per 63-bit int behind a sentinel 1 (mirror of Coq `unpack`)."""
    out = []
    for i in range(0, len(s), 7):
        z = 1
        for c in s[i:i + 7]:
            z = z * 256 + ord(c)
        out.append(z)
    return out


def coq_str(s):
    """Coq expression of type list N for the string s.  Large literals of inductive
    type are very slow to parse in Coq, so ASCII strings travel as primitive ints."""
    if all(ord(c) < 128 for c in s):
        return "(unpack [" + ";".join(str(z) for z in pack7(s)) + "])"
    return "(map Z.to_N [" + ";".join(str(ord(c)) for c in s) + "]%Z)"


def coq_z(z):
    """Coq expression of type Z; big literals are passed as 56-bit limbs."""
    if abs(z) < (1 << 62):
        return "(%d)%%Z" % z
    limbs, a = [], abs(z)
    while a:
        limbs.append(a & ((1 << 56) - 1))
        a >>= 56
    return "(unlimbs %s [%s])" % ("true" if z < 0 else "false", ";".join(map(str, limbs)))


PRELUDE = """(* GENERATED by /verif/tools/floatio_check.py -- do not edit *)
From Coq Require Import ZArith NArith List Floats Uint63.
From SC Require Import Model.FloatIO.
Import ListNotations.
Local Open Scope Z_scope.

(* Printing or parsing big terms of inductive type (Z, N, list N) costs ~0.1 ms
   per constructor in Coq, so all data crosses the boundary as primitive 63-bit
   integers: strings 7 code units per int, integers as 56-bit limbs. *)
Definition oi (z : Z) : int := Uint63.of_Z z.

(* string -> [number of chunks; chunk; ...]; a chunk is up to 7 code units in
   base 256 behind a leading sentinel 1 *)
Fixpoint chunks (s : list N) (cur : Z) (k : nat) : list Z :=
  match s with
  | [] => [cur]
  | c :: tl =>
      match k with
      | O => cur :: chunks tl (256 + Z.of_N c) 6
      | S k' => chunks tl (cur * 256 + Z.of_N c) k'
      end
  end.
Definition encS (s : list N) : list int :=
  let l := chunks s 1 7 in oi (Z.of_nat (length l)) :: map oi l.

(* the inverse, for inputs *)
Fixpoint unchunk (fuel : nat) (z : Z) (acc : list N) : list N :=
  match fuel with
  | O => acc
  | S f => if z <=? 1 then acc else unchunk f (Z.shiftr z 8) (Z.to_N (Z.land z 255) :: acc)
  end.
Definition unpack (l : list int) : list N := flat_map (fun i => unchunk 8 (Uint63.to_Z i) []) l.

(* integer -> [sign; number of limbs; 56-bit limbs, least significant first] *)
Fixpoint zlimbs (fuel : nat) (z : Z) : list Z :=
  match fuel with
  | O => []
  | S f => if z <=? 0 then [] else Z.land z 72057594037927935 :: zlimbs f (Z.shiftr z 56)
  end.
Definition encZ (z : Z) : list int :=
  let l := zlimbs (Z.to_nat (Z.log2 (Z.abs z) / 56 + 1)) (Z.abs z) in
  oi (if z <? 0 then 1 else 0) :: oi (Z.of_nat (length l)) :: map oi l.
Definition unlimbs (neg : bool) (l : list int) : Z :=
  let a := fold_right (fun limb acc => Uint63.to_Z limb + Z.shiftl acc 56) 0 l in
  if neg then - a else a.
Definition optZ (o : option Z) : list int :=
  match o with Some z => oi 1 :: encZ z | None => [oi 0] end.
Definition encB (x : float) : list int := encZ (f64_to_bits x).

(* float case: Z bits, STR display, STR fixed, 12 Z, OPTZ trunc *)
Definition fcase (bp : Z * Z) : list int :=
  let (b, p) := bp in
  let x := f64_of_bits b in
  let d := f64_to_display x in
  encB x ++ encS d ++ encS (f64_to_fixed x (Z.to_N p))
  ++ encB (f64_round x) ++ encB (f64_trunc x) ++ encB (f64_fract x)
  ++ encZ (f64_as_i32 x) ++ encZ (f64_as_i64 x) ++ encZ (f64_as_u32 x) ++ encZ (f64_as_u64 x)
  ++ match f64_decode x with
     | Some (s, m, e) => encZ 1 ++ encZ (if s then 1 else 0) ++ encZ m ++ encZ e
     | None => encZ 0 ++ encZ 0 ++ encZ 0 ++ encZ 0
     end
  ++ encZ (match f64_parse d with Some y => f64_to_bits y | None => -1 end)
  ++ optZ (f64_to_Z_trunc x).

(* parse case: OPTZ bits *)
Definition pcase (s : list N) : list int := optZ (option_map f64_to_bits (f64_parse s)).
(* integer case: Z bits, STR decimal, Z round-trip flag *)
Definition zcase (z : Z) : list int :=
  encB (f64_of_Z z) ++ encS (Z_to_dec z)
  ++ encZ (match dec_to_Z (Z_to_dec z) with Some y => if y =? z then 1 else 0 | None => -1 end).
(* integer-string case: OPTZ *)
Definition scase (s : list N) : list int := optZ (dec_to_Z s).

Local Open Scope uint63_scope.

"""


BATCH = 100  # cases per `Eval` (very long list literals overflow Coq's stack)


def write_shard(path, fcs, pcs, zcs, scs):
    """Each Eval prints [kind; results...] with kind 1 = float, 2 = parse, 3 = int, 4 = int string."""
    def emit(f, kind, fn, items):
        for i in range(0, len(items), BATCH):
            f.write("Time Eval vm_compute in %d :: flat_map %s [\n" % (kind, fn))
            f.write(";\n".join("  " + it for it in items[i:i + BATCH]))
            f.write("].\n\n")

    with open(path, "w") as f:
        f.write(PRELUDE)
        emit(f, 1, "fcase", ["(%d, %d)%%Z" % (b, p) for (b, p, _) in fcs])
        emit(f, 2, "pcase", [coq_str(s) for s in pcs])
        emit(f, 3, "zcase", [coq_z(z) for z in zcs])
        emit(f, 4, "scase", [coq_str(s) for s in scs])


def run_coqc(path, tmo):
    t0 = time.time()
    p = subprocess.run(["timeout", str(tmo), "coqc", "-Q", COQ, "SC", path],
                       capture_output=True, text=True, cwd=COQ)
    return p.returncode, p.stdout, p.stderr, time.time() - t0


def parse_coq_output(out):
    """-> {kind: (list of ints, seconds)} accumulated over all `Time Eval` blocks."""
    acc = {1: ([], 0.0), 2: ([], 0.0), 3: ([], 0.0), 4: ([], 0.0)}
    nblocks = 0
    # each result is "     = <term>\n     : list int" followed by "Finished transaction in X secs"
    for m in re.finditer(r"^\s*= (.*?)^\s*: list int\s*\nFinished transaction in ([0-9.]+) secs", out, re.S | re.M):
        ints = [int(t) for t in re.findall(r"-?\d+", m.group(1).replace("%uint63", ""))]
        kind = ints[0]
        acc[kind] = (acc[kind][0] + ints[1:], acc[kind][1] + float(m.group(2)))
        nblocks += 1
    return acc, nblocks


def ensure_model():
    if (not os.path.exists(MODEL_VO)) or os.path.getmtime(MODEL_VO) < os.path.getmtime(MODEL_V):
        p = subprocess.run(["coqc", "-Q", ".", "SC", "Model/FloatIO.v"], cwd=COQ, capture_output=True, text=True)
        if p.returncode != 0:
            sys.stderr.write(p.stdout + p.stderr)
            raise SystemExit("floatio_check: Model/FloatIO.v does not compile")


# ---------------------------------------------------------------- main
def main():
    ap = argparse.ArgumentParser()
    ap.add_argument("--n", type=int, default=2000, help="number of random bit patterns (other strata scale with it)")
    ap.add_argument("--seed", type=int, default=1)
    ap.add_argument("--jobs", type=int, default=min(16, os.cpu_count() or 4))
    ap.add_argument("--timeout", type=int, default=900, help="seconds per coqc shard")
    ap.add_argument("--max-show", type=int, default=60)
    ap.add_argument("--full-powers", action="store_true",
                    help="include EVERY power of two and of ten (with +-1 ulp neighbours) instead of a sample")
    ap.add_argument("--clean", action="store_true", help="delete the generated Cases/FloatIOCheck_*.v afterwards")
    args = ap.parse_args()
    rng = random.Random(args.seed)

    fcs = gen_float_cases(args.n, rng, args.full_powers)
    # de-duplicate (bits, prec)
    seen, tmp = set(), []
    for c in fcs:
        if (c[0], c[1]) not in seen:
            seen.add((c[0], c[1]))
            tmp.append(c)
    fcs = tmp
    pcs = gen_parse_strings(args.n, rng)
    zcs, scs = gen_int_cases(args.n, rng)

    # oracle answers
    q = [json.dumps({"bits": str(b), "prec": p}) for (b, p, _) in fcs]
    q += [json.dumps({"parse": s}) for s in pcs]
    ans = query_oracle(q)
    fans, pans = ans[:len(fcs)], ans[len(fcs):]

    # shards (round-robin so that expensive strata are spread evenly)
    ensure_model()
    os.makedirs(CASES, exist_ok=True)
    for fn in os.listdir(CASES):
        if re.match(r"FloatIOCheck_\d+\.(v|vo|vok|vos|glob)$", fn) or re.match(r"\.FloatIOCheck_\d+\.aux$", fn):
            os.remove(os.path.join(CASES, fn))
    J = max(1, args.jobs)
    shards = []
    for k in range(J):
        idx_f = list(range(k, len(fcs), J))
        idx_p = list(range(k, len(pcs), J))
        idx_z = list(range(k, len(zcs), J))
        idx_s = list(range(k, len(scs), J))
        path = os.path.join(CASES, "FloatIOCheck_%d.v" % k)
        write_shard(path, [fcs[i] for i in idx_f], [pcs[i] for i in idx_p],
                    [zcs[i] for i in idx_z], [scs[i] for i in idx_s])
        shards.append((path, idx_f, idx_p, idx_z, idx_s))

    with ThreadPoolExecutor(max_workers=J) as ex:
        results = list(ex.map(lambda sh: run_coqc(sh[0], args.timeout), shards))

    mismatches = []
    ncases = 0
    tsum = [0.0, 0.0, 0.0, 0.0]

    def mm(kind, ident, field, got, want):
        mismatches.append("%s %s: %s: coq=%r oracle=%r" % (kind, ident, field, got, want))

    for (path, idx_f, idx_p, idx_z, idx_s), (rc, out, err, wall) in zip(shards, results):
        if rc != 0:
            mismatches.append("coqc failed (rc=%d) on %s: %s" % (rc, path, (err or out)[-400:].strip()))
            ncases += len(idx_f) + len(idx_p) + len(idx_z) + len(idx_s)
            continue
        blocks, nblocks = parse_coq_output(out)
        want_blocks = sum((len(ix) + BATCH - 1) // BATCH for ix in (idx_f, idx_p, idx_z, idx_s))
        if nblocks != want_blocks:
            mismatches.append("could not parse coqc output for %s (%d blocks, expected %d)" % (path, nblocks, want_blocks))
            continue
        (fi, tf), (pi, tp), (zi, tz), (si, ts) = blocks[1], blocks[2], blocks[3], blocks[4]
        for j, t in enumerate((tf, tp, tz, ts)):
            tsum[j] += t
        ncases += len(idx_f) + len(idx_p) + len(idx_z) + len(idx_s)
        try:
            # ---- float cases
            rd = Reader(fi)
            for i in idx_f:
                b, p, tag = fcs[i]
                o = fans[i]
                ident = "bits=%d (%r, %s) prec=%d" % (b, b2f(b), tag, p)
                cb = canon(b)
                x = b2f(b)
                got_bits = rd.z()
                got_disp = rd.str()
                got_fixed = rd.str()
                r = rd.zs(12)
                got_tz = rd.optz()
                if got_bits != cb:
                    mm("float", ident, "of_bits/to_bits", got_bits, cb)
                if got_disp != o["disp"]:
                    mm("float", ident, "display", got_disp, o["disp"])
                if got_fixed != o["fixed"]:
                    mm("float", ident, "fixed", got_fixed, o["fixed"])
                if r[0] != int(o["round"]):
                    mm("float", ident, "round", r[0], int(o["round"]))
                if r[1] != int(o["trunc"]):
                    mm("float", ident, "trunc", r[1], int(o["trunc"]))
                # fract = x - trunc(x) in IEEE arithmetic
                if x != x or math.isinf(x):
                    wfr = NAN_BITS
                else:
                    wfr = canon(f2b(x - b2f(int(o["trunc"]))))
                if r[2] != wfr:
                    mm("float", ident, "fract", r[2], wfr)
                for k_, name in ((3, "i32"), (4, "i64"), (5, "u32"), (6, "u64")):
                    if r[k_] != int(o[name]):
                        mm("float", ident, "as_" + name, r[k_], int(o[name]))
                d = decode(b)
                wd = [1, d[0], d[1], d[2]] if d else [0, 0, 0, 0]
                if r[7:11] != wd:
                    mm("float", ident, "decode", r[7:11], wd)
                wt = int(exact(b)) if d else None  # int() truncates toward zero
                if got_tz != wt:
                    mm("float", ident, "to_Z_trunc", got_tz, wt)
                if r[11] != cb:
                    mm("float", ident, "parse(display x)", r[11], cb)
            if not rd.done():
                raise IndexError("trailing data (float block)")
            # ---- parse cases
            rd = Reader(pi)
            for i in idx_p:
                s = pcs[i]
                o = pans[i]
                r = rd.optz()
                want = int(o["ok"]) if "ok" in o else None
                if r != want:
                    mm("parse", repr(s if len(s) < 90 else s[:40] + "..." + s[-40:]), "f64_parse", r, want)
            if not rd.done():
                raise IndexError("trailing data (parse block)")
            # ---- integer cases
            rd = Reader(zi)
            for i in idx_z:
                z = zcs[i]
                got_bits = rd.z()
                got_dec = rd.str()
                r = rd.z()
                ident = str(z) if abs(z) < 10 ** 40 else "%s...(%d bits)" % (str(z)[:20], z.bit_length())
                if got_bits != int_to_f64_bits(z):
                    mm("int", ident, "f64_of_Z", got_bits, int_to_f64_bits(z))
                if got_dec != str(z):
                    mm("int", ident, "Z_to_dec", got_dec[:60], str(z)[:60])
                if r != 1:
                    mm("int", ident, "dec_to_Z(Z_to_dec z) = Some z", r, 1)
            if not rd.done():
                raise IndexError("trailing data (int block)")
            rd = Reader(si)
            for i in idx_s:
                s = scs[i]
                r = rd.optz()
                want = int(s) if re.fullmatch(r"[+-]?[0-9]+", s, re.A) else None
                if r != want:
                    mm("intstr", repr(s), "dec_to_Z", r, want)
            if not rd.done():
                raise IndexError("trailing data (intstr block)")
        except IndexError as ex_:
            mismatches.append("unexpected result count in %s: %s" % (path, ex_))

    # tidy build products; the generated .v files are kept unless --clean
    pat = r"FloatIOCheck_\d+\.(v|vo|vok|vos|glob)$" if args.clean else r"FloatIOCheck_\d+\.(vo|vok|vos|glob)$"
    for fn in os.listdir(CASES):
        if re.match(pat, fn) or re.match(r"\.FloatIOCheck_\d+\.aux$", fn):
            os.remove(os.path.join(CASES, fn))

    print("floatio_check: strata: %d float values, %d parse strings, %d integers, %d integer strings; %d shards"
          % (len(fcs), len(pcs), len(zcs), len(scs), J))
    if len(fcs) and tsum[0] > 0:
        print("floatio_check: vm_compute cost: %.2f ms per float case (14 function calls), %.2f ms per parse string, %.2f ms per integer case; slowest shard %.1fs wall"
              % (1000 * tsum[0] / len(fcs), 1000 * tsum[1] / max(1, len(pcs)), 1000 * tsum[2] / max(1, len(zcs)),
                 max(r[3] for r in results)))
    for line in mismatches[:args.max_show]:
        print("MISMATCH " + line)
    if len(mismatches) > args.max_show:
        print("... and %d more" % (len(mismatches) - args.max_show))
    print("floatio_check: %d cases, %d mismatches" % (ncases, len(mismatches)))
    return 0 if not mismatches else 1


if __name__ == "__main__":
    sys.exit(main())
