#!/bin/bash
# Developer tool: confirm a seeded change (patch.diff + demo.rs) in a scratch worktree:
#  demo passes on HEAD, patch applies, existing suite unchanged (142 passed / 1 failed), demo fails with the patch.
#   tools/seedverify.sh <dir with patch.diff demo.rs> <slot>
set -u
D=$(readlink -f "$1"); SLOT=$2
WT=/root/vrun/sv-$SLOT
git -C /repo worktree remove --force $WT 2>/dev/null; rm -rf $WT; git -C /repo worktree prune
git -C /repo worktree add -q --detach $WT HEAD || exit 3
cd $WT
mkdir -p tests; cp $D/demo.rs tests/seeded_demo.rs
export CARGO_NET_OFFLINE=true CARGO_TARGET_DIR=/root/vrun/sv-target-$SLOT
A=$(cargo test --offline --test seeded_demo 2>&1 | grep -E "^test result" | tail -1)
git apply $D/patch.diff || { echo "PATCH DOES NOT APPLY"; exit 3; }
B=$(cargo test --offline --lib 2>&1 | grep -E "^test result" | tail -1)
C=$(cargo test --offline --test seeded_demo 2>&1 | grep -E "^test result" | tail -1)
echo "demo@HEAD: $A"; echo "suite@patch: $B"; echo "demo@patch: $C"
cd /; git -C /repo worktree remove --force $WT
