#!/usr/bin/env python3
"""Regex-level correspondence check:  Coq model (SC.Model.Regex.captures_iter)  vs  the real
`regex` crate (sc_harness regex), on every pattern smartcalc compiles.

    python3 /verif/tools/regex_check.py [--n 200] [--seed S] [--extra] [--nullable] [--at K] [--keep] [--jobs 16]

For every pattern (rxparse.all_patterns(), read from the current /repo files) `n` random texts are
generated, biased to the pattern's own alphabet; the oracle is asked for all spans of all groups of
all matches; Coq case files coq/Cases/RxCheck_NN.v evaluate the model with `Eval vm_compute` and print
flat lists of integers; everything is compared.  Besides captures_iter, every text also checks is_match, and
`--at K` (default 1) captures_at cases per text are derived from the oracle's iteration (search from offset 0, and
from the end of a match whenever the crate's next match is certainly what a plain search from there reports).
The N in the summary line counts texts (captures_iter cases); captures_at cases are reported on the line before.

Prints  `regex_check: P patterns, N cases, M mismatches`  and exits 0 iff M = 0.

  --extra     also run a built-in set of engine stress patterns (lazy quantifiers, empty
              alternatives, \\B ^ $ . \\w \\d \\s, bounded repeats, ...), all inside the supported subset
  --nullable  also run patterns with unbounded repetition of nullable bodies (outside the supported
              subset: reported separately, never counted as mismatches of the check)
"""
import argparse
import json
import os
import random
import re
import subprocess
import sys
import time
from concurrent.futures import ThreadPoolExecutor

sys.dont_write_bytecode = True
sys.path.insert(0, os.path.dirname(os.path.abspath(__file__)))
import rxparse  # noqa: E402

HARNESS = "/verif/harness/target/debug/sc_harness"
COQ_DIR = "/verif/coq"
CASES_DIR = os.path.join(COQ_DIR, "Cases")
PREFIX = "RxCheck_"

EXTRA_PATTERNS = [
    r"a*?b", r"a+?", r"a??b?", r"(a|ab)(c|bcd)(d*)", r"(a+)(b+)?", r"(?:(a)|b)*c", r"(?:(a)|(b))+",
    r"x*", r"", r"\b", r"\B", r"^", r"$", r"^$", r"^a|b$", r"\Ba\B", r".", r".*", r".+?$", r"(.*)(\d+)",
    r"(.*?)(\d+)$", r"\w+", r"\W+", r"\d+", r"\D", r"\s+", r"\S+", r"[\w-]+", r"[\d.]+", r"[^\s]+",
    r"(a|b|)c", r"(|a)b", r"(a|)b", r"a||b", r"(a{2,3}){1,2}", r"(a{0,2}){2}", r"(a?){3}", r"(a?){2,3}b",
    r"(?:a?){0,3}?b", r"a{2}", r"a{2,}", r"a{2,}?", r"a{0}", r"(?:a){0}b", r"(ab)+", r"(ab)+?c",
    r"(a(b)?)+", r"(a(b)?)+?c", r"((a)|(b)|(c))+", r"(?P<x>a)(?P<y>b)?(?P<z>c)?", r"\p{L}+\d*",
    r"\P{L}+", r"[^\p{L}]+", r"\pL", r"\p{Sc}\d+", r"[\p{Sc}\p{L}]+", r"\bfoo\b", r"\b\w+\b",
    r"ı|İ|i", r"[a-c]+?[b-d]", r"(\d+)-(\d+)|(\w+)", r"(?:^|,)([^,]*)", r"\b|a", r"a|\b",
    r"\.\?\^\}\]\[\{\+\-\*\(\)\|\\", r"[\]\[\^\-\\]+", r"[]a]+", r"[a\-z]+", r"[-a]+", r"[a-]+", r"}]",
    r"\x41\x{1F600}\u{131}", r"\A\w", r"\w\z", r"\r\n|\n|\r", r"(a*)b", r"(a*)(a*)", r"(a*?)(a*)",
    r"(a*)(a|b)(b*)", r"(?:(a)|(ab)|(abc))(c?)", r"(a+?)(a*)(b{1,2}?)",
]

NULLABLE_PATTERNS = [
    r"(a*)*", r"(a*)+", r"(|a)+", r"(|a)*", r"(a|b*)*", r"(a?)*b", r"(a*)*b", r"(?:(a?)(b?))*", r"(a*|b)+",
    r"(a??)*", r"(a*?)*?b", r"(?:a|(b?))*", r"(?:(a?)(b??))*$", r"(?:(b?)|a)+$", r"(\b|a)+", r"(a?){2,}",
    r"(|a){2,}", r"(a*){3,}b", r"((a*)*)*", r"((a?)|(b?))*c", r"(?:\b|a)+?x",
]

REAL_FRAGMENTS = [
    "10:30 pm GMT+03:00", "$1.234,5k", "0x1F + 0b101", "{NUMBER:n} to {TEXT:t:unix}", "[MONEY:12.5;usd]",
    "3 march 2020 # note", "12:45:59", "1:05 AM", "11 pm", "23:59", "9:7", "GMT+3", "GMT-0230", "EST", "UTC",
    "%15", "15%", "-3,5%", "+1.000,25", "1.234.567,89", "1,234,567.89", "100 usd", "100usd", "12,5 ₺", "₺12,5",
    "€1M", "£3.5k try", "2k  $", "10 M eur", "0o17", "0XFF", "0b2", "1e5", "5 times 3", "2 kere 4", "çarpı",
    "cikar", "toplam", "add sum", "euro", "january", "jan", "JANUARY", "şubat", "subat", "ağustos", "agu",
    "aralık", "aralik", "may 5", "5 may", "mayıs", "mayis", "eylül", "kasım", "ıııı est 12:30",
    "a_b; c!d e?f g'h i&j k^l", "x − y", "−", "_", "a_", "_a", "!", "?", "'", "&", "^", ";", "a;b", "1;2",
    "# comment\r\n", "1 + 2 # c\n3", "#", "a#b\rc", "\r\n", "\n", "\r", "\n\n", "a\r\nb\nc\rd",
    "{A:b}", "{A_B:x y:z}", "{a:b}", "{A:}", "{A:b:c:d}", "[A:b]", "[ATOM:x]y]", "[A_:]]", "{}", "[]",
    "[OPERATOR:*]", "[NUMBER:10]", "{TIME:t}", "{GROUP:conversion:to}", "$", "$$5", "5$", "$ 5", "$-5", "$+5.",
    "1kK", "1 k", "5PZ", "1..2", "1,,2", ".5", "5.", "5,", "-", "+", "--5", "+-5", "1-2", "a1", "1a", "10x",
    "12:60", "24:00", "0:00", "00:00:00", "1:2:3", "13 pm", "12pm", "12 PM", "0 am", "09 am", "9am.", "x9am",
    "9amx", "9 amx", "GMT", "GMT+", "GMT+1", "GMT+19:59", "GMT+1:5", "GMT 5", "ABCDE", "AB", "A", "ABCD",
    "ab GMT+03 cd", "time GMT-03:30 EST x", "ISTANBUL", "  ", " ", "   x   ",
]

LETTERS = list("abcdefghijklmnopqrstuvwxyzABCDEFGKMPTXYZ") + list("ıİşğüöçŞĞÜÖÇ") + list("αβΣςΩ") + list("дЖяЁ") + \
    list("日本語한עא") + list("ßªǅʰ")
WORDISH = list("_0123456789") + ["\u0663", "\uff11", "\u2167", "\u200d", "\u0301", "\u0308", "\u20dd"]
NONWORD = list("#%:.,;!?'&^-+*/()[]{}=<>|\\\"@~ \t") + ["\r", "\n", "\u00a0", "\u2212", "\u00b2", "\u2028"]
CURRENCY = list("₺$€£¥₿¢")
EMOJI = ["\U0001F600", "\U0001F389", "\U0001F1F9", "\U00010400", "\U0001D7D8", "\U000E0061"]
GENERAL = LETTERS + WORDISH + NONWORD + CURRENCY + EMOJI


# ----------------------------------------------------------------------------------------------
# test text generation
# ----------------------------------------------------------------------------------------------

def item_samples(it):
    t = it[0]
    if t == "range":
        lo, hi = it[1], it[2]
        s = {lo, hi, (lo + hi) // 2}
        return [c for c in s if valid_cp(c)]
    return {"letter": [ord(c) for c in LETTERS], "currency": [ord(c) for c in CURRENCY],
            "word": [ord(c) for c in LETTERS + WORDISH], "digit": [ord(c) for c in "0123456789٣１"],
            "space": [ord(c) for c in " \t\r\n\u00a0\u2028"]}[t]


def item_neighbours(it):
    if it[0] == "range":
        return [c for c in (it[1] - 1, it[2] + 1) if valid_cp(c)]
    return []


def valid_cp(c):
    return 1 <= c <= 0x10FFFF and not (0xD800 <= c <= 0xDFFF)


def item_has(it, c):
    t = it[0]
    if t == "range":
        return it[1] <= c <= it[2]
    return None  # unknown without the tables


def alphabet(ast, acc=None):
    """code points named by the pattern (members and direct neighbours of its sets)"""
    if acc is None:
        acc = set()
    t = ast[0]
    if t == "set":
        for it in ast[2]:
            acc.update(item_samples(it))
            acc.update(item_neighbours(it))
    elif t in ("cat", "alt"):
        for x in ast[1]:
            alphabet(x, acc)
    elif t == "rep":
        alphabet(ast[1], acc)
    elif t == "group":
        alphabet(ast[2], acc)
    return acc


def gen_from(ast, rng, depth=0):
    """a random string that is likely to be matched by the pattern"""
    t = ast[0]
    if t == "set":
        neg, items = ast[1], ast[2]
        if not neg:
            if not items:
                return ""
            return chr(rng.choice(item_samples(rng.choice(items))))
        for _ in range(20):
            c = ord(rng.choice(GENERAL))
            if not any(item_has(it, c) for it in items):
                return chr(c)
        return ""
    if t == "cat":
        return "".join(gen_from(x, rng, depth + 1) for x in ast[1])
    if t == "alt":
        return gen_from(rng.choice(ast[1]), rng, depth + 1)
    if t == "rep":
        mn, mx = ast[2], ast[3]
        hi = mn + rng.choice([0, 0, 1, 1, 2, 3]) if mx is None else min(mx, mn + rng.choice([0, 1, 1, 2, 3]))
        k = rng.randint(min(mn, 4), max(min(hi, 6), min(mn, 4)))
        return "".join(gen_from(ast[1], rng, depth + 1) for _ in range(k))
    if t == "group":
        return gen_from(ast[2], rng, depth + 1)
    return ""


def mutate(s, rng, alpha):
    if not s:
        return s
    k = rng.random()
    i = rng.randrange(len(s))
    if k < 0.25:
        return s[:i] + s[i + 1:]
    if k < 0.5:
        return s[:i] + rng.choice(alpha) + s[i:]
    if k < 0.7:
        return s[:i] + rng.choice(alpha) + s[i + 1:]
    if k < 0.8:
        return s.upper()
    if k < 0.9:
        return s[:i]
    return s


def has_node(ast, kinds):
    t = ast[0]
    if t in kinds:
        return True
    if t in ("cat", "alt"):
        return any(has_node(x, kinds) for x in ast[1])
    if t == "rep":
        return has_node(ast[1], kinds)
    if t == "group":
        return has_node(ast[2], kinds)
    return False


def is_wordish(c):
    return c.isalnum() or c == "_"


def wrap_boundary(frag, rng):
    """give a fragment of a pattern with \\b the surroundings that make the assertion hold (mostly)"""
    if not frag:
        return frag
    word_side = ["a", "z", "1", "_", "ş", "İ", "9", "M", "\u0301", "\u200d", "日"]
    other_side = [" ", " ", " ", "", "-", "+", ":", ".", ",", "(", ")", "\r\n", "\n", "\U0001F600", "₺", "%", "#"]
    left = rng.choice(other_side if is_wordish(frag[0]) else word_side)
    right = rng.choice(other_side if is_wordish(frag[-1]) else word_side)
    if rng.random() < 0.15:
        left = rng.choice(word_side + other_side)
    if rng.random() < 0.15:
        right = rng.choice(word_side + other_side)
    return left + frag + right


def gen_texts(ast, n, rng):
    alpha = [chr(c) for c in sorted(alphabet(ast))] or ["a"]
    bounded = has_node(ast, ("wordb", "nwordb"))
    texts = ["", alpha[0], alpha[-1], " ", "a", "1"]
    for a in alpha[:40]:
        texts.append(a)
    texts = texts[:max(6, n // 8)]
    seen = set(texts)
    guard = 0
    while len(texts) < n and guard < 50 * n:
        guard += 1
        pieces = []
        for _ in range(rng.choice([1, 1, 2, 2, 3, 3, 4, 5, 6])):
            k = rng.random()
            if k < 0.50:
                frag = gen_from(ast, rng)
                if rng.random() < 0.30:
                    frag = mutate(frag, rng, alpha)
                if bounded and rng.random() < 0.8:
                    frag = wrap_boundary(frag, rng)
                pieces.append(frag)
            elif k < 0.64:
                pieces.append("".join(rng.choice(alpha) for _ in range(rng.choice([1, 1, 2, 3]))))
            elif k < 0.78:
                pieces.append("".join(rng.choice(GENERAL) for _ in range(rng.choice([1, 1, 2, 3]))))
            elif k < 0.84:
                pieces.append(rng.choice([" ", " ", "  ", "\r", "\n", "\r\n", "\t"]))
            else:
                f = rng.choice(REAL_FRAGMENTS)
                if rng.random() < 0.3 and len(f) > 2:
                    a = rng.randrange(len(f))
                    b = rng.randrange(a, len(f)) + 1
                    f = f[a:b]
                pieces.append(f)
        s = rng.choice(["", "", " "]).join(pieces)
        if len(s) > 48:
            a = rng.randrange(len(s) - 40)
            s = s[a:a + rng.randint(20, 44)]
        if s in seen:
            continue
        seen.add(s)
        texts.append(s)
    return texts[:n]


# ----------------------------------------------------------------------------------------------
# oracle
# ----------------------------------------------------------------------------------------------

def ensure_harness():
    if not os.path.exists(HARNESS):
        subprocess.run(["cargo", "build", "--offline"], cwd="/verif/harness", check=True)


def ask_oracle(cases):
    """cases: list of (id, pattern, text) -> {id: (names, caps)}"""
    req = "".join(json.dumps({"id": i, "re": p, "text": t}) + "\n" for i, p, t in cases)
    out = subprocess.run([HARNESS, "regex"], input=req.encode("utf-8"), stdout=subprocess.PIPE, check=True).stdout
    res = {}
    for line in out.decode("utf-8").splitlines():
        if not line.startswith("{"):
            continue
        d = json.loads(line)
        if d.get("bad_regex"):
            res[d["id"]] = None
        else:
            res[d["id"]] = (d["names"], d["caps"])
    return res


# ----------------------------------------------------------------------------------------------
# Coq side
# ----------------------------------------------------------------------------------------------

def up_to_date(vo, deps):
    if not os.path.exists(vo):
        return False
    t = os.path.getmtime(vo)
    return all(os.path.getmtime(d) <= t for d in deps)


def ensure_coq_libs():
    rx_v = os.path.join(COQ_DIR, "Model/Regex.v")
    ut_v = os.path.join(COQ_DIR, "Gen/UnicodeTables.v")
    if not os.path.exists(ut_v):
        subprocess.run([sys.executable, os.path.join(os.path.dirname(os.path.abspath(__file__)), "unicode_tables.py")],
                       check=True)
    if not up_to_date(rx_v + "o", [rx_v]):
        subprocess.run(["coqc", "-Q", ".", "SC", "Model/Regex.v"], cwd=COQ_DIR, check=True)
    if not up_to_date(ut_v + "o", [ut_v, rx_v + "o"]):
        subprocess.run(["coqc", "-Q", ".", "SC", "Gen/UnicodeTables.v"], cwd=COQ_DIR, check=True)


def coq_text(s):
    return "[" + "; ".join(str(ord(c)) for c in s) + "]"


def write_shard(path, batches, pat_terms):
    """batches: list of (pattern index, [(id, text)] or [(id, start, text)])"""
    lines = ["(* GENERATED by tools/regex_check.py -- regex-level correspondence cases *)",
             "From Coq Require Import List NArith ZArith.",
             "Require Import SC.Model.Regex SC.Gen.UnicodeTables.",
             "Import ListNotations.", "Open Scope Z_scope.", ""]
    defined = set()
    for pi, cases in batches:
        term, ng = pat_terms[pi]
        if pi not in defined:
            defined.add(pi)
            lines.append("Definition rx_%d : rx := %s." % (pi, term))
        if len(cases[0]) == 2:
            body = "; ".join("(%d, %s)" % (cid, coq_text(t)) for cid, t in cases)
            lines.append("Eval vm_compute in (run_cases utabs rx_%d %d%%nat ([%s]%%N))." % (pi, ng, body))
        else:
            body = "; ".join("(%d, %d, %s)" % (cid, st, coq_text(t)) for cid, st, t in cases)
            lines.append("Eval vm_compute in (run_at_cases utabs rx_%d %d%%nat ([%s]%%N))." % (pi, ng, body))
    with open(path, "w", encoding="utf-8") as f:
        f.write("\n".join(lines) + "\n")


def run_shard(name, timeout_s):
    t0 = time.time()
    p = subprocess.run(["timeout", str(timeout_s), "coqc", "-Q", ".", "SC", "Cases/%s.v" % name],
                       cwd=COQ_DIR, stdout=subprocess.PIPE, stderr=subprocess.PIPE)
    return name, p.returncode, p.stdout.decode("utf-8"), p.stderr.decode("utf-8"), time.time() - t0


LIST_RE = re.compile(r"=\s*\[([^\]]*)\]", re.S)


def parse_coq_output(out, ngroups_of_case, n_iter):
    """-> {id: caps}, {id: is_match flag}   (ids >= n_iter are captures_at cases, without flag)"""
    res = {}
    flags = {}
    for m in LIST_RE.finditer(out):
        body = m.group(1).strip()
        if not body:
            continue
        nums = [int(x) for x in re.findall(r"-?[0-9]+", body.replace("%Z", ""))]
        i = 0
        while i < len(nums):
            if nums[i] != -3:
                raise RuntimeError("malformed Coq output near %r" % nums[i:i + 8])
            cid = nums[i + 1]
            i += 2
            if cid < n_iter:
                flags[cid] = nums[i]
                i += 1
            ng = ngroups_of_case[cid]
            matches = []
            while i < len(nums) and nums[i] == -2:
                i += 1
                groups = []
                for _ in range(ng + 1):
                    a, b = nums[i], nums[i + 1]
                    i += 2
                    groups.append(None if a < 0 else [a, b])
                matches.append(groups)
            res[cid] = matches
    return res, flags


# ----------------------------------------------------------------------------------------------

def main():
    ap = argparse.ArgumentParser()
    ap.add_argument("--n", type=int, default=200)
    ap.add_argument("--seed", type=int, default=1)
    ap.add_argument("--jobs", type=int, default=16)
    ap.add_argument("--batch", type=int, default=50)
    ap.add_argument("--timeout", type=int, default=900)
    ap.add_argument("--extra", action="store_true")
    ap.add_argument("--nullable", action="store_true")
    ap.add_argument("--keep", action="store_true", help="keep compiled .vo/.glob of the case files")
    ap.add_argument("--show", type=int, default=8, help="mismatches to print")
    ap.add_argument("--at", type=int, default=1, help="captures_at cases derived per text (0 = none)")
    args = ap.parse_args()

    ensure_harness()
    ensure_coq_libs()
    rng = random.Random(args.seed)

    pats = [(label, p, True) for label, p in rxparse.all_patterns()]
    if args.extra:
        pats += [("extra[%d]" % i, p, True) for i, p in enumerate(EXTRA_PATTERNS)]
    if args.nullable:
        pats += [("nullable[%d]" % i, p, False) for i, p in enumerate(NULLABLE_PATTERNS)]

    pat_terms = {}
    pat_names = {}
    pat_nullable = {}
    cases = []          # (id, pattern index, text)
    for pi, (label, p, strict) in enumerate(pats):
        ast, ng, names = rxparse.parse_ast(p, allow_nullable_loops=not strict)
        pat_terms[pi] = (rxparse.to_coq(ast), ng)
        pat_names[pi] = names
        pat_nullable[pi] = rxparse.nullable(ast)
        for t in gen_texts(ast, args.n, rng):
            cases.append((len(cases), pi, t))

    t0 = time.time()
    oracle = ask_oracle([(cid, pats[pi][1], t) for cid, pi, t in cases])
    t_oracle = time.time() - t0

    mismatches = []      # (strict, label, pattern, text, expected, got)
    # group numbering / names
    checked_names = set()
    for cid, pi, t in cases:
        if pi in checked_names:
            continue
        checked_names.add(pi)
        o = oracle.get(cid)
        label, p, strict = pats[pi]
        if o is None:
            mismatches.append((strict, label, p, t, "regex accepted by the crate", "oracle: bad_regex"))
            continue
        exp_names = {nm: i for i, nm in enumerate(o[0]) if nm is not None}
        if len(o[0]) != pat_terms[pi][1] + 1 or exp_names != pat_names[pi]:
            mismatches.append((strict, label, p, "<group table>", o[0], (pat_terms[pi][1], pat_names[pi])))

    # captures_at cases derived from the oracle's iteration:
    #   start 0 -> first match;  start = end of match i -> match i+1, when that is certain to be what a
    #   plain search from there reports (next match starts right there, or the pattern cannot match empty)
    n_iter = len(cases)
    at_cases = []       # (id, pattern index, start, text, expected list of 0 or 1 match)
    for cid, pi, t in cases:
        o = oracle.get(cid)
        if o is None:
            continue
        ms = o[1]
        cands = [(0, ms[:1])]
        non_null = not pat_nullable[pi]
        for i in range(len(ms)):
            e = ms[i][0][1]
            nxt = ms[i + 1:i + 2]
            if (nxt and nxt[0][0][0] == e) or non_null:
                cands.append((e, nxt))
        if non_null:
            cands.append((len(t.encode("utf-8")) + 1, []))
        rng.shuffle(cands)
        for st, exp in cands[:args.at]:
            at_cases.append((n_iter + len(at_cases), pi, st, t, exp))

    # shard
    for f in os.listdir(CASES_DIR):
        if f.startswith(PREFIX):
            os.remove(os.path.join(CASES_DIR, f))
    by_pat = {}
    for cid, pi, t in cases:
        by_pat.setdefault(pi, []).append((cid, t))
    at_by_pat = {}
    for cid, pi, st, t, exp in at_cases:
        at_by_pat.setdefault(pi, []).append((cid, st, t))
    batches = []
    for group in (by_pat, at_by_pat):
        for pi, cs in group.items():
            for i in range(0, len(cs), args.batch):
                batches.append((pi, cs[i:i + args.batch]))
    nshards = max(1, min(args.jobs, 16, len(batches)))
    shards = [[] for _ in range(nshards)]
    for i, b in enumerate(batches):
        shards[i % nshards].append(b)
    names = []
    for k, sh in enumerate(shards):
        name = "%s%02d" % (PREFIX, k)
        write_shard(os.path.join(CASES_DIR, name + ".v"), sorted(sh, key=lambda b: (b[0], b[1][0][0])), pat_terms)
        names.append(name)

    ng_of_case = {cid: pat_terms[pi][1] for cid, pi, t in cases}
    ng_of_case.update({cid: pat_terms[pi][1] for cid, pi, st, t, exp in at_cases})
    got = {}
    got_flags = {}
    t0 = time.time()
    cpu = 0.0
    failed_shards = []
    with ThreadPoolExecutor(max_workers=nshards) as ex:
        for name, rc, out, err, dt in ex.map(lambda nm: run_shard(nm, args.timeout), names):
            cpu += dt
            if rc != 0:
                failed_shards.append((name, rc, err.strip()[-600:]))
            try:
                g, fl = parse_coq_output(out, ng_of_case, n_iter)
                got.update(g)
                got_flags.update(fl)
            except Exception as e:  # malformed output is a failure of the shard
                failed_shards.append((name, rc, "unparsable output: %s" % e))
    t_coq = time.time() - t0
    if not args.keep:
        for f in os.listdir(CASES_DIR):
            if f.startswith(PREFIX) and not f.endswith(".v"):
                os.remove(os.path.join(CASES_DIR, f))
        for f in os.listdir(CASES_DIR):
            if f.startswith("." + PREFIX) and f.endswith(".aux"):
                os.remove(os.path.join(CASES_DIR, f))

    nmatches = 0
    for cid, pi, t in cases:
        label, p, strict = pats[pi]
        o = oracle.get(cid)
        if o is None:
            continue
        exp = o[1]
        nmatches += len(exp)
        g = got.get(cid, "<no result from Coq>")
        if g != exp:
            mismatches.append((strict, label, p, t, exp, g))
        elif got_flags.get(cid) != (1 if exp else 0):
            mismatches.append((strict, label, p, t, "is_match = %s" % bool(exp), "is_match flag %r" % got_flags.get(cid)))
    for cid, pi, st, t, exp in at_cases:
        label, p, strict = pats[pi]
        g = got.get(cid, "<no result from Coq>")
        if g != exp:
            mismatches.append((strict, label, p, "captures_at %d in %r" % (st, t), exp, g))

    strict_mis = [m for m in mismatches if m[0]]
    loose_mis = [m for m in mismatches if not m[0]]
    for name, rc, err in failed_shards:
        print("regex_check: shard %s failed (exit %s): %s" % (name, rc, err))
    for kind, ms in (("MISMATCH", strict_mis), ("nullable-loop difference (outside supported subset)", loose_mis)):
        for strict, label, p, t, exp, g in ms[:args.show]:
            print("%s %s\n  pattern : %r\n  text    : %r\n  expected: %s\n  got     : %s" % (kind, label, p, t, exp, g))
        if len(ms) > args.show:
            print("... and %d more" % (len(ms) - args.show))
    nstrict_cases = sum(1 for cid, pi, t in cases if pats[pi][2])
    print("regex_check: oracle %.1fs; coq %.1fs wall on %d shards, %.1fs summed (%.2f ms per case incl. coqc start-up "
          "and parsing); %d matches compared; %d captures_at cases (%d with start > 0, %d of those expecting a match)" % (
              t_oracle, t_coq, nshards, cpu, 1000.0 * cpu / max(1, len(cases) + len(at_cases)), nmatches, len(at_cases),
              sum(1 for c in at_cases if c[2] > 0), sum(1 for c in at_cases if c[2] > 0 and c[4])))
    if args.nullable:
        nl_cases = len(cases) - nstrict_cases
        print("regex_check: nullable-loop patterns (informative): %d cases, %d differences" % (nl_cases, len(loose_mis)))
    nbad = len(strict_mis) + len(failed_shards)
    print("regex_check: %d patterns, %d cases, %d mismatches" % (
        sum(1 for x in pats if x[2]), nstrict_cases, nbad))
    return 0 if nbad == 0 else 1


if __name__ == "__main__":
    sys.exit(main())
