#!/usr/bin/env python3
"""Developer tool, round 5 (changes assigned by SOURCE REGION, the agent names the property it breaks):
   tools/seedrun5.py F07 1     reads /tmp/mut/o5-F07/1/{patch.diff,demo.rs,meta.txt}; meta.txt starts with `PROPERTY: Cxx`
   confirms the change (tools/seedverify.sh), runs the named property's check in an isolated copy (tools/muttest.sh) and,
   when that does not catch it, every other check; writes /verif/seeded/<Cxx>-F07<i>/"""
import sys, os, json, subprocess, shutil, re
reg, i = sys.argv[1], sys.argv[2]
src = {"F": "/tmp/mut/o5-%s/%s", "G": "/tmp/mut/o6-%s/%s", "H": "/tmp/mut/o7-%s/%s", "K": "/tmp/mut/o8-%s/%s"}[reg[0]] % (reg, i)
meta_txt = open(os.path.join(src, "meta.txt")).read()
m = re.search(r"PROPERTY:\s*(C\d\d)", meta_txt)
pid = m.group(1) if m else "C01"
slot = "%s-%s%s" % (pid, reg, i)
ALL = ["C%02d" % k for k in range(1, 20)]
sv = subprocess.run(["/verif/tools/seedverify.sh", src, slot], capture_output=True, text=True).stdout
def run(ids):
    mt = subprocess.run(["/verif/tools/muttest.sh", os.path.join(src, "patch.diff"), slot] + ids, capture_output=True, text=True).stdout
    res = {}
    for line in mt.split("\n"):
        mm = re.match(r"(C\d\d) rc=(\d+) (.*)", line)
        if mm:
            res[mm.group(1)] = {"rc": int(mm.group(2)), "summary": mm.group(3).strip()[:600]}
    return res
results = run([pid])
if not any(v["rc"] == 1 for v in results.values()):
    results.update(run([x for x in ALL if x != pid]))
dst = "/verif/seeded/" + slot
os.makedirs(dst, exist_ok=True)
for f in ("patch.diff", "demo.rs"):
    shutil.copy(os.path.join(src, f), os.path.join(dst, f))
ok_head = bool(re.search(r"demo@HEAD: test result: ok", sv))
ok_suite = bool(re.search(r"suite@patch: test result: FAILED\. 142 passed; 1 failed", sv))
ok_demo = bool(re.search(r"demo@patch: test result: FAILED", sv))
meta = {"property": pid, "variant": "%s-%s" % (reg, i), "round": {"F": 5, "G": 6, "H": 7, "K": 8}[reg[0]], "what_and_trigger": meta_txt.strip(),
        "confirmed": {"demo_passes_on_HEAD": ok_head, "existing_suite_unchanged_142_1": ok_suite, "demo_fails_with_patch": ok_demo},
        "ran": ["tools/seedverify.sh %s %s" % (src, slot), "tools/muttest.sh %s/patch.diff %s <checks>" % (src, slot)],
        "checks": results, "caught_by": sorted(k for k, v in results.items() if v["rc"] == 1)}
json.dump(meta, open(os.path.join(dst, "meta.json"), "w"), indent=1, ensure_ascii=False)
print(slot, "confirmed=%s/%s/%s" % (ok_head, ok_suite, ok_demo), {k: v["rc"] for k, v in results.items()})
for k, v in results.items():
    if v["rc"] == 1 or k == pid:
        print("  ", k, v["summary"][:260])
